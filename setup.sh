#!/bin/sh
# Build the extractor from files on disk only (offline).
set -e
cd "$(dirname "$0")"
mkdir -p bin .cache evidence
if [ ! -x bin/bt-facts ] || [ tools/bt-facts.cc -nt bin/bt-facts ]; then
  clang++ $(llvm-config-14 --cxxflags) -fno-rtti -O1 tools/bt-facts.cc -o bin/bt-facts.tmp \
    /usr/lib/llvm-14/lib/libclang-cpp.so.14 /usr/lib/llvm-14/lib/libLLVM-14.so
  mv bin/bt-facts.tmp bin/bt-facts
fi
echo "setup ok"
