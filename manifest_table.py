"""Which properties are claimed, with what technique; the rest with the reason."""

NOT_BUILT = "check not built yet in this round (design in DESIGN.md section 3); no verdict is claimed"


def fill(claim, na):
    na("C05", "equality of decoded flux with the sector dump is a statement about decoding arbitrary bit-streams "
              "(gap lengths, sync search, bit order, opcode placement); no clause is visible in the shape of the code "
              "beyond the CRC/addressing clauses decided under C06")
    na("C14", "every clause is an arithmetic relation between runtime catalogue values (sums of sector counts, maximal "
              "runs, used+free totals); a static proxy would be a frozen expression")
    claim("C17",
          "must-dataflow over CFG branch facts (half-open bound dominates every index/translated forward); "
          "empty-optional edge must reach exit only via throw; linear forms over accessors for the extents each Volume "
          "is created with; coordinate consistency (linear forms through the constructor) of the bound in Volume::Access; "
          "agreement of each FileView's limit with its own geometry; dependency analysis of the MMB slot offset; "
          "unconditional trimming of every Opus volume; probe reads independent of catalogue entries",
          "Decides the bound clause for all inputs: every override of DataAccess::read_block and the sector cache "
          "index or forward only under `arg < count` on every CFG path, and a failed body read can only throw. "
          "Each Opus volume's window is (start, length) from the disc catalogue and is what Volume::Access checks "
          "against. The arithmetic inside OpusDiscCatalogue (lengths from successive starts) is not decided.",
          "Trusts clang's CFG/branch semantics and that the compared member is the object's sector count.",
          "DESIGN.md 3/C17")
    claim("C07",
          "AST/CFG rules over all dfs units: thrown-type census, interprocedural may-throw sets vs. try handlers in main, "
          "exit-status value sets, must-dataflow size checks on every FileAccess::read result, input-governed loop exits, "
          "field-based taint from 32-bit file fields to allocation sizes, dominance of optional dereferences, non-zero "
          "divisors, non-empty containers at every back()/front()/pop (must-facts, must-append dataflow, constructor "
          "class invariant), recursive diagnose-on-failure classification of every command path; may-state analysis "
          "`a rewind is paired with a state change` in the track decoders; raw-bound / successful-scan dominance for "
          "every BitStream access (call-graph chains); copy census for classes that own a raw pointer",
          "Decides ten structural necessary conditions of clean failure for all inputs (nine were violated by a hostile "
          "file or command line before the fix: commits). Does not decide general memory safety/termination of the "
          "parsers or assertion reachability.",
          "Trusts clang AST/CFG, the call-graph closure (virtual calls to all overriders, lambdas attributed to their "
          "enclosing function) and the table of throwing library entry points.",
          "DESIGN.md 3/C07")
    claim("C08",
          "clang CFG-based uninitialised-value analysis in both configurations; getopt table/handler/short-string "
          "agreement folded from the AST; exit-status value set; diagnose-on-failure classification from main; "
          "cursor/remaining-length must-facts and per-block pairing in the token decoders; type-range intervals "
          "refined by dominating comparisons for input-dependent subscripts and the lengths of library calls on fixed "
          "arrays; path-sensitive resource typestate (allocate/release/NULL) for locally released pointers; must-analysis "
          "`table filled` for the extension-table builders; NULL-able table strings vs. non-NULL facts (fclose(NULL) "
          "counts as a use of an invalid handle); by-value copy census for records that point into themselves",
          "Decides, for every command line and input, that option state is initialised in both builds, that no option "
          "handler can see a NULL optarg or an unset long index, that main returns 0 or 1 without exit/abort and never "
          "silently, that every byte read through the token cursor is covered by a remaining-length guard, and that "
          "input-dependent indices and lengths stay in range, and that no decoder/stream/allocation is used after its "
          "release. Does not decide full memory safety of the C units.",
          "Trusts clang's -Wuninitialized family and getopt_long semantics.",
          "DESIGN.md 3/C08")
    claim("C19",
          "assert-condition purity (AST effect analysis, recursive, const-contract for library), configuration "
          "diff of per-function trees with assert masked, uninitialised-value analysis in both configurations",
          "Decides the property up to the trusted base: all assert conditions are side-effect free and the NDEBUG and "
          "assertion-enabled programs are otherwise identical, so the builds can differ only where an assertion fails.",
          "Trusts glibc's assert expansion shapes and the const-contract of the standard library.",
          "DESIGN.md 3/C19")
    claim("C11",
          "path-sensitive typestate over the CFG (flush -> good-state test -> return 0) through main and its status "
          "helper; census of stream-state resets (on std::cout or on any reference/pointer to the base ostream) and direct "
          "stream-buffer use; typestate of every local ofstream "
          "(close, then tested good, on every non-failure scope exit); flush+ferror typestate in bbcbasic_to_text main; "
          "must-analysis `status known true` at every overwrite of a returned status inside a loop; results of write()/fwrite() "
          "compared with the requested count",
          "Decides the structural part for every output length and failure offset: exit status 0 is only reachable on "
          "paths where the output streams were flushed/closed and afterwards found good. Behaviour of the C++/C "
          "libraries under write failure is trusted, not analysed.",
          "Trusts: cout synchronised with stdio and sticky badbit/ferror; the stdout-writer call-graph closure.",
          "DESIGN.md 3/C11")
    claim("C09",
          "must-dataflow on the CFG: EOF tested before any use of a getc result, short-fread edge leaves with failure and "
          "dominates the line decoder; static-storage write census; discarded-result and sticky-exit-status rules; "
          "table/override contradiction folded per dialect; CFG reachability rule for multi-byte token handlers (success "
          "only through an edge establishing that the follow-on byte exists); may-analysis `input consumed while "
          "the nothing-consumed flag is still set`; success returns of the program readers dominated by end-of-input or a "
          "consumed end marker",
          "Decides the structural root causes for every input and truncation point (no byte is fabricated from EOF, no "
          "stale buffer content reaches the decoder, failures reach a sticky exit status, no cross-file state). The "
          "prefix relation itself is not decided. One known finding (0x7F) is listed.",
          "Trusts C stdio return-value semantics and the enumerated clean-end justifications.",
          "DESIGN.md 3/C09")
    claim("C06",
          "decoder typestate on the CFG: must-facts with Boolean unit propagation (ID CRC and ID decode before the "
          "record state, data CRC before a push), path-sensitive tracking of the state variable across loop "
          "iterations (held ID consumed once), dominance of appends by track validation, sibling rule on the flux "
          "adapters (address-based lookup), bounded ID-to-data-mark distance in the FM and MFM decoders, def-use of every "
          "CRC register read up to its zero test (no mask/narrowing), must-facts for the per-sector track checks; "
          "enumeration of every FM cell pattern the mark search admits against the byte fed to the CRC",
          "Decides the gating clauses for every bit-stream: no sector is yielded without both CRC checks having "
          "succeeded on that path (each a zero test of the whole CRC register), a data field is only accepted close to "
          "its ID field, every sector of a track is validated, and the image adapters look sectors up by recorded "
          "address. Does not decide what "
          "scan_for finds in the bits (sync constants, bit order).",
          "Trusts the CRC helpers' arithmetic (checked under C02) and clang's CFG.",
          "DESIGN.md 3/C06")
    claim("C12",
          "who-may-create census over the resolved AST (stream constructions, C and POSIX file-creating calls, "
          "std::filesystem modifiers, open modes) against a confirmed table, cross-checked in the thorough tier with "
          "the external-symbol census of the linked LLVM IR; interprocedural string taint from catalogue bytes to "
          "created paths with a structural sanitiser recogniser; constant-suffix folding and identity-test dominance for "
          "`a created file is not an input image`; must-analysis `the destination ends in a slash`; backward slice of "
          "every created name for fixed-size buffers with unchecked bounded fills",
          "Decides for all catalogues and commands that only the confirmed sites can create files, that images are "
          "opened read-only, that catalogue bytes cannot put a '/' into a created path, that the leaf is appended to a "
          "directory ending in '/', and that a created file cannot be an input image (one known finding: the body "
          "file of extract-files).",
          "Trusts the table of file-modifying library entry points and that a '/'-free relative name stays in its directory.",
          "DESIGN.md 3/C12")
    claim("C18",
          "layering census by build target; effect analysis of every verbose-guarded region (verbose flag tracked "
          "through bool parameters and function pointers; purity of callees with local-effect refinement); "
          "field-wise check of the presentation option handlers; single-consumer census for UI/terminal inputs; "
          "non-determinism census; may-throw sets of the functions that read the environment; const-ness of what runs "
          "under --show-config; must-analysis `errno cleared` before every decision on errno; census of modifiable statics",
          "Decides the structural part for every image and command: nothing executed only under --verbose or "
          "--show-config can alter standard output, exit status or program state; --ui/COLUMNS reach only cat. "
          "Equality of outputs as such is not executed or compared.",
          "Trusts that writes to std::cerr / local string streams are unobservable on stdout, and the std const-contract.",
          "DESIGN.md 3/C18")
    claim("C02",
          "bit-provenance abstract domain (each result bit an XOR-affine form of symbolic catalogue bits) over every "
          "metadata accessor, the catalogue-header constructor, sign_extend and the CRC register update (update_bit and "
          "one pass of update() evaluated on all paths, affine case splits, against the CCITT step); source-order and "
          "sign-extension-use rules on the info line and .inf writer; sibling-agreement rule on cat's tests for the "
          "current directory (sort comparator vs. listing loop); optional-ness of the cycle number up to where it is "
          "printed; enumeration of occupied drives walks the table; provenance of the format recorded per surface",
          "Decides the field-decoding clauses exhaustively (all 2^64 metadata values, all header bytes): every field "
          "shown by info/cat/.inf comes from exactly the documented bits; sign extension and CRC-16 are the documented "
          "functions; cat's sorter and printer classify 'current directory' by the same exact comparison. Column "
          "formatting, the rest of cat's sort order and 'each file exactly once' are not decided.",
          "Trusts the transcription of the Acorn DFS layout and the domain's transfer functions.",
          "DESIGN.md 3/C02")
    claim("C01",
          "bit-provenance domain for the start-sector/length fields; provenance of the media argument of every "
          "body read (call-graph, through locals and parameters); structural accounting rule of the sector walk "
          "with constant folding of the empty-file case; shape rule for last_sector(); contradiction rule on table-walking "
          "loops (an early `continue` whose condition cannot change on the continue path); linear form of the Opus "
          "catalogue slot; must-analysis `sorted before extents are derived`; must-fact `length non-zero` where the "
          "catalogue validator remembers the previous file; byte-count agreement of `type` with the piece it is handed",
          "Decides structural clauses for every catalogue value: right bits, right volume, remaining-length "
          "accounting, empty file hands over nothing, no table walk (Opus volume table) silently stops at its first "
          "skipped entry. Unrecognised code shapes are reported as undecided (exit 2), "
          "never as a pass. Byte-identity of sector contents and the renderings of type/list/dump are not decided.",
          "Trusts the layout transcription and DFS::SECTOR_BYTES == 256 (folded from the source).",
          "DESIGN.md 3/C01")
    claim("C03",
          "bit-provenance comparison of the line-number decoder with the expression parsed from doc/bbcbasic.5; "
          "def-use of stream positions and stdin; structural rule on the indentation counter; scan-extent rule on the "
          "loop-token counter; control-dependence rule on the LISTO bits; buffer/length agreement between fread and the "
          "line decoder (terminator fact for the one dropped byte); cursor/remaining-length pairing in the token handlers",
          "Decides that GOTO/GOSUB targets are decoded by the documented formula for all 2^24 operand values, that "
          "file and standard input cannot be treated differently, and that indentation is only adjusted by the "
          "documented amounts computed from exactly the bytes of the line. Token tables, framing, quoting and number formatting are not decided.",
          "Trusts the man page's expression as the specification, as the property does.",
          "DESIGN.md 3/C03")
    claim("C13",
          "bit-provenance comparison of the Watford sector-2 guard with the start-sector layout; branch-fact decision "
          "table on every identifying return of probe_format and the Acorn test; constant-sector read census; "
          "guard/usage analysis of the Opus volume-table checks; must-fact `format is HDFS` at every two-sided answer; "
          "linear form of the Opus catalogue slot; provenance of the format recorded for each surface (identified on that "
          "device, in that pass); probe reads independent of catalogue entries",
          "Decides structural clauses for every disc: the guard uses the full start sector, each variant is returned "
          "only under the marker outcomes the property lists, identification reads only marker sectors by number, "
          "the Opus table's self-consistency does not depend on a geometry, the two-sided flag is honoured for HDFS "
          "only, and an Opus volume's catalogue is looked for by its letter. Content-independence for arbitrary "
          "bodies and the geometry preference order are not decided.",
          "Trusts that the smells_like_* predicates are the marker tests.",
          "DESIGN.md 3/C13")
    claim("C15",
          "per-byte folding of the wildcard translator's switch into emitted fragments, each parsed with a POSIX ERE "
          "grammar written in the checker and compared with the AFSP one-character language; ERE parse of the "
          "canonicalisation patterns; structural rule on the case-folding comparator; member-wise completeness of the "
          "selector classes' copy assignment; must-analysis `result known empty` at every overwrite of a lookup result in a "
          "loop; early-exit census of info's entry loop",
          "Decides the translation clause for all 255 byte values (so no wildcard character can act as an operator or "
          "be rejected), that the canonicalisation patterns are well-formed with the groups the code indexes, and "
          "that names are compared by tolower/toupper folding. regexec itself and drive/directory defaulting are not decided.",
          "Trusts the checker's POSIX ERE grammar and C-locale case mapping.",
          "DESIGN.md 3/C15")
    claim("C16",
          "mutation census of the drive tables; must-facts (with kills on selector updates) and dominance for every "
          "connect_internal call; structural rule on check_sequence_fits' unconditional occupancy tests; key-provenance "
          "of table lookups; must-facts at every advance of a drive-number search; interval analysis of drive-number "
          "narrowing conversions; must-analysis of the --show-config listing limit; loop-shape rule on the enumeration of "
          "occupied drives; position of the attach call relative to the loop assigning the policy; two-sided agreement "
          "between `occupied` and the producers of empty entries",
          "Decides one clause for every option sequence: an attached surface is never overwritten, moved or hidden, and "
          "lookups use the requested selector, the search starts at 0 and skips only numbers found occupied or "
          "unsuitable, and an out-of-range drive number cannot wrap onto another drive. The full allocation function "
          "over histories (n and n+2, policy switches) is a search over runtime state and is not decided.",
          "Trusts std::map semantics and value semantics of selectors.",
          "DESIGN.md 3/C16")
    claim("C04",
          "must-dataflow bound and divisor rules on FileView::read_block; short-read rule on the block presenter; "
          "table agreement of the MMB reader with doc/mmb.5 (status switch folded per value, size constants); "
          "dependency analysis of the slot offset; shape rule on the two-sided view parameters; polynomial identity "
          "(normal forms with integer-division atoms) for the stride formula; loop-condition independence of the MMB "
          "table scan; base-10 census of numeric argument parsing; every surface attached with its device",
          "Decides structural clauses for every container, geometry and slot: out-of-surface reads fail, no short block "
          "is served, MMB statuses/sizes are the documented ones, a slot's offset depends on its number only, and the "
          "interleaved/non-interleaved views have the documented take/leave/skip shape, and the position forwarded "
          "by FileView::read_block is skip + (x div take)(take+leave) + x mod take. Geometry probing is not decided.",
          "Trusts doc/mmb.5 as the layout specification.",
          "DESIGN.md 3/C04")
    claim("C10",
          "must-facts on the hint logic (extension tests only on a name with .gz stripped); folding of the zlib "
          "error switch and window-bits constant; CFG exit analysis of the inflate loop; zlib entry-point census; "
          "member-continuation rule with EOF-evidence reachability; opener selection rule; bound of every buffer "
          "growth in both FileAccess::read implementations; zlib-counter and mutable-static censuses; short-read edge "
          "of the decompressed read returns the data; signedness of the seek-back offset; no exit of the inflate function "
          "controlled by a running total",
          "Decides structural clauses for every image and .gz stream: compressed and uncompressed names get the same "
          "identification hints, only gzip framing is accepted, every zlib error raises, the loop ends only at the "
          "end of the last member, integrity checks are not disabled. Equality of outputs is not executed.",
          "Trusts zlib's documented semantics.",
          "DESIGN.md 3/C10")
