#!/usr/bin/env python3
"""Regenerates /verif/MANIFEST.json from the table below (keeps it schema-valid)."""
import json
import os
import sys

VERIF = os.path.dirname(os.path.dirname(os.path.abspath(__file__)))

# id -> (technique, level text, level note, design ref)
CLAIMED = {}
NOT_APPLICABLE = {}


def claim(pid, technique, text, note, ref):
    CLAIMED[pid] = (technique, text, note, ref)


def na(pid, reason):
    NOT_APPLICABLE[pid] = reason


sys.path.insert(0, VERIF)
from manifest_table import fill  # noqa: E402

fill(claim, na)

props = [json.loads(l)["id"] for l in open(os.path.join(VERIF, "properties.jsonl"))]
checks = []
for pid in props:
    if pid in CLAIMED:
        tech, text, note, ref = CLAIMED[pid]
        checks.append({
            "property_id": pid,
            "quick_cmd": "./check %s --tier quick" % pid,
            "thorough_cmd": "./check %s --tier thorough" % pid,
            "evidence_file": "/verif/evidence/%s.json" % pid,
            "replay_cmd_template": "./check %s --replay {path}" % pid,
            "engine": "btv",
            "level_claimed": {"category": "other", "text": text, "design_ref": ref},
            "level_note": note,
            "technique": tech,
        })
    elif pid not in NOT_APPLICABLE:
        raise SystemExit("property %s neither claimed nor not_applicable" % pid)

m = {
    "version": 1,
    "setup_cmd": "./setup.sh",
    "hooks": {
        "guard": "BEEBTOOLS_VERIF",
        "enable": "none needed: the checks analyse /repo's sources (AST, CFG, LLVM IR); nothing is compiled into the tools",
        "baseline_off_cmd": "./baseline_off.sh",
        "source_commits": [],
        "add_only": True,
    },
    "engines": [{
        "name": "btv",
        "path": "/verif/btv",
        "serves_properties": sorted(CLAIMED),
        "kind_free_text": "repository-specific static analysis: libTooling exporter (tools/bt-facts.cc: resolved AST + clang CFG "
                          "per function, records, globals) feeding Python rule modules (must-dataflow over branch facts, "
                          "call-graph closure with virtual-override resolution, bit-provenance domain, table folding); "
                          "LLVM IR censuses (function-attrs, external symbols) in the thorough tier",
    }],
    "checks": checks,
    "not_applicable": [{"property_id": p, "reason": r} for p, r in NOT_APPLICABLE.items() if p not in CLAIMED],
    "notes": "Static analysis only.  exit 0 = all rule instances hold or are listed in known_findings.txt; exit 1 = VIOLATION; "
             "exit 2 = analysis broken (anchor vanished / unit failed to parse / fixture self-test failed).",
}
with open(os.path.join(VERIF, "MANIFEST.json"), "w") as fh:
    json.dump(m, fh, indent=1)
print("MANIFEST.json: %d checks, %d not applicable" % (len(checks), len(m["not_applicable"])))
