#!/usr/bin/env python3
"""Run every claimed check against a behaviour-preserving change: any VIOLATION
(rc 1) is a false alarm, rc 2 means the rules could not follow the code.
usage: eval_refactor.py <dir with patch.diff> [--build]"""
import json, os, subprocess, sys, tempfile, shutil
V = os.path.dirname(os.path.dirname(os.path.abspath(__file__)))
def sh(cmd, cwd=None):
    p = subprocess.run(cmd, shell=True, cwd=cwd, stdout=subprocess.PIPE, stderr=subprocess.STDOUT)
    return p.returncode, p.stdout.decode(errors="replace")
d = os.path.abspath(sys.argv[1])
wt = tempfile.mkdtemp(prefix="btv-rf-", dir="/var/tmp"); os.rmdir(wt)
res = {"dir": d}
try:
    sh("git -C /repo worktree add -q --detach %s HEAD" % wt)
    rc, out = sh("git apply %s/patch.diff" % d, cwd=wt)
    if rc:
        res["error"] = "patch does not apply: " + out[:200]
    else:
        if "--build" in sys.argv:
            rc, out = sh("cmake -S . -B _b -G Ninja -DCMAKE_BUILD_TYPE=RelWithDebInfo >/dev/null && cmake --build _b >/dev/null 2>&1 && ctest --test-dir _b -j8 --timeout 900 2>&1", cwd=wt)
            res["suite"] = "39/39" if "100% tests passed, 0 tests failed out of 39" in out else out[-300:]
            shutil.rmtree(os.path.join(wt, "_b"), ignore_errors=True)
        m = json.load(open(os.path.join(V, "MANIFEST.json")))
        res["alarms"], res["broken"] = {}, {}
        for c in m["checks"]:
            p = c["property_id"]
            rc, out = sh("BTV_KNOWN_BY_RULE=1 ./check %s --root %s" % (p, wt), cwd=V)
            lines = [l.strip() for l in out.splitlines() if l.startswith(("  R-", "ANALYSIS", "UNDECIDED"))]
            if rc == 1: res["alarms"][p] = lines[:4]
            elif rc != 0: res["broken"][p] = lines[:4]
finally:
    sh("git -C /repo worktree remove --force %s" % wt); shutil.rmtree(wt, ignore_errors=True)
print(json.dumps(res, indent=1))
