// bt-facts: libTooling exporter for the beebtools static checks.
//
// For one translation unit it writes a JSON document holding, for every
// function *defined in a file under --root* (free functions, methods,
// constructors, lambdas' call operators, template instantiations):
//   - the full statement/expression tree of the body with resolved callees,
//     declaration references, types, literal values and folded constants;
//   - the clang CFG (built with setAllAlwaysAdd, implicit destructors on),
//     each element pointing at the tree node it evaluates;
// plus every record (bases, methods, overridden methods), every variable with
// static storage duration (with its initialiser tree), every enum, and a table
// of all callees referenced (signature, constness, where declared).
//
// Nothing here decides a property; the rules are in /verif/btv/*.py.

#include "clang/AST/ASTConsumer.h"
#include "clang/AST/ASTContext.h"
#include "clang/AST/Mangle.h"
#include "clang/AST/RecursiveASTVisitor.h"
#include "clang/AST/ExprCXX.h"
#include "clang/AST/StmtCXX.h"
#include "clang/Analysis/CFG.h"
#include "clang/Frontend/CompilerInstance.h"
#include "clang/Lex/Lexer.h"
#include "clang/Frontend/FrontendAction.h"
#include "clang/Tooling/CommonOptionsParser.h"
#include "clang/Tooling/Tooling.h"
#include "llvm/Support/CommandLine.h"
#include "llvm/Support/JSON.h"
#include "llvm/Support/raw_ostream.h"

#include <map>
#include <set>
#include <string>
#include <vector>

using namespace clang;
using namespace clang::tooling;
namespace json = llvm::json;

static llvm::cl::OptionCategory Cat("bt-facts options");
static llvm::cl::opt<std::string> Root("root", llvm::cl::desc("repository root"),
                                       llvm::cl::init("/repo"), llvm::cl::cat(Cat));
static llvm::cl::opt<std::string> OutFile("o", llvm::cl::desc("output file"),
                                          llvm::cl::init("-"), llvm::cl::cat(Cat));

namespace {

std::string latin1(llvm::StringRef s) {
  // JSON strings must be UTF-8: map each byte to the code point of equal value.
  std::string out;
  for (unsigned char c : s) {
    if (c < 0x80) out.push_back((char)c);
    else { out.push_back((char)(0xC0 | (c >> 6))); out.push_back((char)(0x80 | (c & 0x3F))); }
  }
  return out;
}

class Exporter {
public:
  ASTContext &Ctx;
  SourceManager &SM;
  ASTNameGenerator NameGen;
  PrintingPolicy PP;

  std::map<const void *, int64_t> DeclIds;
  int64_t NextDecl = 1;
  std::map<std::string, int> FileIdx;
  json::Array Files;

  json::Array Functions;
  json::Array Records;
  json::Array Globals;
  json::Array Enums;
  json::Object Callees;
  std::set<const FunctionDecl *> EmittedFns;
  std::set<const CXXRecordDecl *> EmittedRecs;
  std::set<const VarDecl *> EmittedGlobals;
  std::set<const EnumDecl *> EmittedEnums;

  // per-function state
  std::map<const Stmt *, int64_t> StmtIds;
  int64_t NextStmt = 0;
  std::vector<const LambdaExpr *> PendingLambdas;

  Exporter(ASTContext &C)
      : Ctx(C), SM(C.getSourceManager()), NameGen(C),
        PP(C.getPrintingPolicy()) {
    PP.SuppressTagKeyword = true;
    PP.Bool = true;
  }

  int64_t declId(const Decl *D) {
    if (!D) return 0;
    D = D->getCanonicalDecl();
    auto it = DeclIds.find(D);
    if (it != DeclIds.end()) return it->second;
    return DeclIds[D] = NextDecl++;
  }

  std::string fileOf(SourceLocation L) {
    if (L.isInvalid()) return "";
    L = SM.getExpansionLoc(L);
    auto F = SM.getFilename(L);
    if (F.empty()) return "";
    llvm::SmallString<256> P(F);
    SM.getFileManager().makeAbsolutePath(P);
    llvm::sys::path::remove_dots(P, true);
    return std::string(P.str());
  }
  bool inRoot(SourceLocation L) {
    std::string f = fileOf(L);
    std::string r = Root;
    if (!r.empty() && r.back() != '/') r += '/';
    return f.compare(0, r.size(), r) == 0 &&
           f.find("/_build/") == std::string::npos;
  }
  int fileIndex(const std::string &f) {
    auto it = FileIdx.find(f);
    if (it != FileIdx.end()) return it->second;
    int i = (int)Files.size();
    Files.push_back(f);
    return FileIdx[f] = i;
  }
  json::Array loc(SourceLocation L) {
    json::Array a;
    if (L.isInvalid()) return a;
    SourceLocation E = SM.getExpansionLoc(L);
    a.push_back(fileIndex(fileOf(E)));
    a.push_back((int64_t)SM.getExpansionLineNumber(E));
    a.push_back((int64_t)SM.getExpansionColumnNumber(E));
    return a;
  }

  std::string typeStr(QualType T) {
    if (T.isNull()) return "";
    return T.getAsString(PP);
  }
  std::string canonStr(QualType T) {
    if (T.isNull()) return "";
    return T.getCanonicalType().getAsString(PP);
  }
  void putType(json::Object &o, QualType T) {
    if (T.isNull()) return;
    std::string t = typeStr(T), c = canonStr(T);
    o["t"] = t;
    if (c != t) o["ct"] = c;
    QualType CT = T.getCanonicalType();
    if (CT->isReferenceType()) CT = CT.getNonReferenceType();
    if (CT->isIntegralOrEnumerationType() && !CT->isDependentType() &&
        !CT->isIncompleteType()) {
      o["w"] = (int64_t)Ctx.getIntWidth(CT);
      o["sg"] = CT->isSignedIntegerOrEnumerationType();
    }
  }

  std::string mangled(const FunctionDecl *FD) {
    if (!FD) return "";
    bool unsafe = FD->isDependentContext() || FD->getType()->isDependentType() ||
                  FD->getReturnType()->isUndeducedType() ||
                  FD->getTemplatedKind() == FunctionDecl::TK_FunctionTemplate;
    if (!unsafe)
      for (auto *P : FD->parameters())
        if (P->getType()->isDependentType() || P->getType()->isUndeducedType()) unsafe = true;
    if (unsafe) return "?" + FD->getQualifiedNameAsString();
    std::string s = NameGen.getName(FD);
    if (s.empty()) s = FD->getNameAsString();
    return s;
  }

  std::string qname(const NamedDecl *D) {
    if (!D) return "";
    std::string s;
    llvm::raw_string_ostream os(s);
    D->printQualifiedName(os, PP);
    os.flush();
    return s;
  }

  // Register a callee in the table and return its key.
  std::string calleeKey(const FunctionDecl *FD) {
    if (!FD) return "";
    std::string key = mangled(FD);
    if (Callees.get(key)) return key;
    json::Object o;
    o["q"] = qname(FD);
    o["name"] = FD->getNameAsString();
    o["ret"] = canonStr(FD->getReturnType());
    json::Array ps;
    for (auto *P : FD->parameters()) ps.push_back(canonStr(P->getType()));
    o["params"] = std::move(ps);
    o["variadic"] = FD->isVariadic();
    const FunctionDecl *Def = nullptr;
    bool hasBody = FD->hasBody(Def);
    o["has_body"] = hasBody;
    SourceLocation L = hasBody && Def ? Def->getLocation() : FD->getLocation();
    o["in_repo"] = inRoot(L);
    o["file"] = fileOf(L);
    o["line"] = (int64_t)SM.getExpansionLineNumber(SM.getExpansionLoc(L));
    if (auto *FPT = FD->getType()->getAs<FunctionProtoType>()) {
      auto EST = FPT->getExceptionSpecType();
      if (EST != EST_Unevaluated && EST != EST_Uninstantiated && EST != EST_Unparsed &&
          EST != EST_DependentNoexcept)
        o["noexcept"] = FPT->isNothrow();
    }
    if (auto *M = dyn_cast<CXXMethodDecl>(FD)) {
      o["method"] = true;
      o["const"] = M->isConst();
      o["virtual"] = M->isVirtual();
      o["pure"] = M->isPure();
      o["static"] = M->isStatic();
      o["class"] = qname(M->getParent());
      json::Array ov;
      for (auto *O : M->overridden_methods()) ov.push_back(mangled(O));
      o["overrides"] = std::move(ov);
      if (isa<CXXConstructorDecl>(M)) o["ctor"] = true;
      if (isa<CXXDestructorDecl>(M)) o["dtor"] = true;
    }
    if (FD->isOverloadedOperator())
      o["operator"] = getOperatorSpelling(FD->getOverloadedOperator());
    Callees[key] = std::move(o);
    return key;
  }

  // ---- expression / statement tree -------------------------------------
  json::Value node(const Stmt *S) {
    if (!S) return nullptr;
    json::Object o;
    int64_t id = NextStmt++;
    StmtIds[S] = id;
    o["i"] = id;
    o["k"] = S->getStmtClassName();
    o["l"] = loc(S->getBeginLoc());
    if (S->getBeginLoc().isMacroID()) {
      // name of the outermost macro this came from
      SourceLocation L = S->getBeginLoc();
      while (L.isMacroID()) {
        SourceLocation Up = SM.getImmediateMacroCallerLoc(L);
        if (!Up.isMacroID()) break;
        L = Up;
      }
      llvm::StringRef MN = Lexer::getImmediateMacroName(L, SM, Ctx.getLangOpts());
      if (!MN.empty()) o["m"] = MN.str();
    }
    json::Array kids;
    bool kidsDone = false;

    if (auto *E = dyn_cast<Expr>(S)) {
      putType(o, E->getType());
      if (E->isLValue()) o["lv"] = true;
      if (!E->isValueDependent() && !E->isTypeDependent() &&
          E->getType()->isIntegralOrEnumerationType() &&
          !isa<IntegerLiteral>(E) && !isa<CharacterLiteral>(E) &&
          !isa<CXXBoolLiteralExpr>(E)) {
        Expr::EvalResult R;
        if (E->EvaluateAsInt(R, Ctx, Expr::SE_NoSideEffects))
          o["cv"] = R.Val.getInt().getExtValue();
      }
      if (!E->isValueDependent() && !E->isTypeDependent() && E->getType()->isPointerType() &&
          E->isNullPointerConstant(Ctx, Expr::NPC_ValueDependentIsNotNull) != Expr::NPCK_NotNull)
        o["null"] = true;
    }

    if (auto *DRE = dyn_cast<DeclRefExpr>(S)) {
      const ValueDecl *D = DRE->getDecl();
      o["d"] = declId(D);
      o["n"] = D->getNameAsString();
      o["q"] = qname(D);
      o["dk"] = D->getDeclKindName();
      if (auto *VD = dyn_cast<VarDecl>(D)) {
        if (VD->hasGlobalStorage()) o["g"] = true;
        if (VD->isStaticLocal()) o["sl"] = true;
      }
      if (auto *FD = dyn_cast<FunctionDecl>(D)) o["fn"] = calleeKey(FD);
      if (auto *EC = dyn_cast<EnumConstantDecl>(D))
        o["v"] = EC->getInitVal().getExtValue();
    } else if (auto *ME = dyn_cast<MemberExpr>(S)) {
      const ValueDecl *D = ME->getMemberDecl();
      o["d"] = declId(D);
      o["n"] = D->getNameAsString();
      o["q"] = qname(D);
      o["dk"] = D->getDeclKindName();
      o["arrow"] = ME->isArrow();
      if (auto *FD = dyn_cast<FunctionDecl>(D)) o["fn"] = calleeKey(FD);
    } else if (auto *IL = dyn_cast<IntegerLiteral>(S)) {
      o["v"] = IL->getValue().getLimitedValue();
    } else if (auto *CL = dyn_cast<CharacterLiteral>(S)) {
      o["v"] = (int64_t)CL->getValue();
    } else if (auto *BL = dyn_cast<CXXBoolLiteralExpr>(S)) {
      o["v"] = BL->getValue() ? 1 : 0;
    } else if (auto *SL = dyn_cast<StringLiteral>(S)) {
      if (SL->getCharByteWidth() == 1) o["s"] = latin1(SL->getBytes());
    } else if (auto *FL = dyn_cast<FloatingLiteral>(S)) {
      o["v"] = FL->getValueAsApproximateDouble();
    } else if (auto *UO = dyn_cast<UnaryOperator>(S)) {
      o["op"] = UnaryOperator::getOpcodeStr(UO->getOpcode()).str();
      if (UO->isPostfix()) o["postfix"] = true;
    } else if (auto *BO = dyn_cast<BinaryOperator>(S)) {
      o["op"] = BO->getOpcodeStr().str();
      if (auto *CAO = dyn_cast<CompoundAssignOperator>(BO)) {
        json::Object tmp;
        putType(tmp, CAO->getComputationResultType());
        o["comp"] = std::move(tmp);
      }
    } else if (auto *CE = dyn_cast<CastExpr>(S)) {
      o["ck"] = CE->getCastKindName();
    } else if (auto *UE = dyn_cast<UnaryExprOrTypeTraitExpr>(S)) {
      o["op"] = UE->getKind() == UETT_SizeOf ? "sizeof" : "other";
      if (UE->isArgumentType()) o["arg_t"] = canonStr(UE->getArgumentType());
    }

    if (auto *CE = dyn_cast<CallExpr>(S)) {
      const FunctionDecl *FD = CE->getDirectCallee();
      if (FD) {
        o["fn"] = calleeKey(FD);
        o["q"] = qname(FD);
      }
      if (auto *MC = dyn_cast<CXXMemberCallExpr>(CE)) {
        if (auto *MD = MC->getMethodDecl()) {
          bool virt = MD->isVirtual();
          if (auto *ME = dyn_cast<MemberExpr>(MC->getCallee()->IgnoreParens()))
            if (ME->hasQualifier()) virt = false;
          o["virt"] = virt;
        }
      }
      if (auto *OC = dyn_cast<CXXOperatorCallExpr>(CE))
        o["op"] = getOperatorSpelling(OC->getOperator());
    } else if (auto *CC = dyn_cast<CXXConstructExpr>(S)) {
      o["fn"] = calleeKey(CC->getConstructor());
      o["q"] = qname(CC->getConstructor());
      o["cls"] = qname(CC->getConstructor()->getParent());
      if (CC->isElidable()) o["elidable"] = true;
    } else if (auto *NE = dyn_cast<CXXNewExpr>(S)) {
      o["alloc_t"] = canonStr(NE->getAllocatedType());
      if (NE->isArray()) o["array"] = true;
    } else if (auto *TE = dyn_cast<CXXThrowExpr>(S)) {
      if (const Expr *Op = TE->getSubExpr()) {
        QualType T = Op->getType();
        o["thrown_t"] = canonStr(T);
        if (T->isPointerType()) o["thrown_ptr"] = true;
        QualType RT = T->isPointerType() ? T->getPointeeType() : T;
        if (auto *RD = RT->getAsCXXRecordDecl()) {
          o["thrown_cls"] = qname(RD);
          json::Array anc;
          if (RD->hasDefinition()) {
            std::set<const CXXRecordDecl *> seen;
            std::vector<const CXXRecordDecl *> work{RD->getDefinition()};
            while (!work.empty()) {
              auto *R = work.back();
              work.pop_back();
              if (!R || !seen.insert(R).second) continue;
              anc.push_back(qname(R));
              if (!R->hasDefinition()) continue;
              // a handler for a base class matches only through public inheritance
              for (auto &B : R->getDefinition()->bases())
                if (B.getAccessSpecifier() == AS_public)
                  if (auto *BR = B.getType()->getAsCXXRecordDecl()) work.push_back(BR);
            }
          }
          o["thrown_anc"] = std::move(anc);
        }
      } else {
        o["rethrow"] = true;
      }
    } else if (auto *CS = dyn_cast<CXXCatchStmt>(S)) {
      if (CS->getExceptionDecl()) {
        o["caught_t"] = canonStr(CS->getCaughtType());
        QualType T = CS->getCaughtType().getNonReferenceType();
        if (auto *RD = T->getAsCXXRecordDecl()) o["caught_cls"] = qname(RD);
        o["d"] = declId(CS->getExceptionDecl());
        o["n"] = CS->getExceptionDecl()->getNameAsString();
      } else {
        o["catch_all"] = true;
      }
    } else if (auto *DS = dyn_cast<DeclStmt>(S)) {
      for (auto *D : DS->decls()) {
        if (auto *VD = dyn_cast<VarDecl>(D)) {
          kids.push_back(varDeclNode(VD));
        } else if (auto *NDl = dyn_cast<NamedDecl>(D)) {
          json::Object d;
          d["i"] = NextStmt++;
          d["k"] = std::string("Decl:") + D->getDeclKindName();
          d["n"] = NDl->getNameAsString();
          d["l"] = loc(D->getLocation());
          kids.push_back(std::move(d));
        }
      }
      kidsDone = true;
    } else if (auto *LE = dyn_cast<LambdaExpr>(S)) {
      o["fn"] = calleeKey(LE->getCallOperator());
      json::Array caps;
      for (auto &C : LE->captures()) {
        json::Object c;
        if (C.capturesVariable()) {
          c["d"] = declId(C.getCapturedVar());
          c["n"] = C.getCapturedVar()->getNameAsString();
          c["t"] = canonStr(C.getCapturedVar()->getType());
        } else if (C.capturesThis()) {
          c["this"] = true;
        }
        c["byref"] = C.getCaptureKind() == LCK_ByRef;
        caps.push_back(std::move(c));
      }
      o["captures"] = std::move(caps);
      if (LE->getCaptureDefault() != LCD_None)
        o["capture_default"] = LE->getCaptureDefault() == LCD_ByRef ? "&" : "=";
      for (auto *I : LE->capture_inits()) kids.push_back(node(I));
      kidsDone = true;
      PendingLambdas.push_back(LE);
    } else if (auto *Case = dyn_cast<CaseStmt>(S)) {
      Expr::EvalResult R;
      if (Case->getLHS() && !Case->getLHS()->isValueDependent() &&
          Case->getLHS()->EvaluateAsInt(R, Ctx))
        o["v"] = R.Val.getInt().getExtValue();
      if (Case->getRHS()) {
        Expr::EvalResult R2;
        if (Case->getRHS()->EvaluateAsInt(R2, Ctx))
          o["v2"] = R2.Val.getInt().getExtValue();
      }
    } else if (auto *IS = dyn_cast<IfStmt>(S)) {
      // children order in clang: init, condvar, cond, then, else (nulls kept)
      json::Object parts;
      kids.clear();
      auto add = [&](const char *name, const Stmt *C) {
        if (!C) return;
        parts[name] = (int64_t)kids.size();
        kids.push_back(node(C));
      };
      add("init", IS->getInit());
      if (IS->getConditionVariable()) add("condvar", IS->getConditionVariableDeclStmt());
      add("cond", IS->getCond());
      add("then", IS->getThen());
      add("else", IS->getElse());
      o["parts"] = std::move(parts);
      if (IS->isConstexpr()) o["constexpr"] = true;
      kidsDone = true;
    } else if (auto *FS = dyn_cast<ForStmt>(S)) {
      json::Object parts;
      auto add = [&](const char *name, const Stmt *C) {
        if (!C) return;
        parts[name] = (int64_t)kids.size();
        kids.push_back(node(C));
      };
      add("init", FS->getInit());
      add("cond", FS->getCond());
      add("inc", FS->getInc());
      add("body", FS->getBody());
      o["parts"] = std::move(parts);
      kidsDone = true;
    } else if (auto *WS = dyn_cast<WhileStmt>(S)) {
      json::Object parts;
      auto add = [&](const char *name, const Stmt *C) {
        if (!C) return;
        parts[name] = (int64_t)kids.size();
        kids.push_back(node(C));
      };
      add("cond", WS->getCond());
      add("body", WS->getBody());
      o["parts"] = std::move(parts);
      kidsDone = true;
    } else if (auto *RF = dyn_cast<CXXForRangeStmt>(S)) {
      json::Object parts;
      auto add = [&](const char *name, const Stmt *C) {
        if (!C) return;
        parts[name] = (int64_t)kids.size();
        kids.push_back(node(C));
      };
      add("init", RF->getInit());
      add("range", RF->getRangeStmt());
      add("begin", RF->getBeginStmt());
      add("end", RF->getEndStmt());
      add("cond", RF->getCond());
      add("inc", RF->getInc());
      add("loopvar", RF->getLoopVarStmt());
      add("body", RF->getBody());
      o["parts"] = std::move(parts);
      kidsDone = true;
    } else if (auto *ILE = dyn_cast<InitListExpr>(S)) {
      // use the semantic form
      if (ILE->isSyntacticForm() && ILE->getSemanticForm()) {
        // fallthrough: children() of the syntactic form are fine, but semantic
        // form carries the resolved field order; export that instead.
        const InitListExpr *Sem = ILE->getSemanticForm();
        for (auto *C : Sem->inits()) kids.push_back(node(C));
        kidsDone = true;
      }
    } else if (auto *GS = dyn_cast<GotoStmt>(S)) {
      o["label"] = GS->getLabel()->getNameAsString();
    } else if (auto *LS = dyn_cast<LabelStmt>(S)) {
      o["label"] = LS->getName();
    }

    if (!kidsDone)
      for (const Stmt *C : S->children()) kids.push_back(node(C));
    if (!kids.empty()) o["c"] = std::move(kids);
    return std::move(o);
  }

  json::Value varDeclNode(const VarDecl *VD) {
    json::Object d;
    d["i"] = NextStmt++;
    d["k"] = "VarDecl";
    d["d"] = declId(VD);
    d["n"] = VD->getNameAsString();
    d["l"] = loc(VD->getLocation());
    putType(d, VD->getType());
    if (VD->isStaticLocal()) d["sl"] = true;
    if (VD->getType().isConstQualified()) d["const"] = true;
    if (VD->hasInit()) {
      json::Array k;
      k.push_back(node(VD->getInit()));
      d["c"] = std::move(k);
    }
    if (auto *DD = dyn_cast<DecompositionDecl>(VD)) {
      json::Array bs;
      for (auto *B : DD->bindings()) {
        json::Object b;
        b["d"] = declId(B);
        b["n"] = B->getNameAsString();
        bs.push_back(std::move(b));
      }
      d["bindings"] = std::move(bs);
    }
    return std::move(d);
  }

  // ---- CFG ---------------------------------------------------------------
  json::Value cfg(const FunctionDecl *FD, const Stmt *Body) {
    CFG::BuildOptions BO;
    BO.setAllAlwaysAdd();
    BO.AddImplicitDtors = true;
    BO.AddTemporaryDtors = false;
    BO.AddInitializers = true;
    BO.AddEHEdges = false;
    BO.PruneTriviallyFalseEdges = true;
    std::unique_ptr<CFG> G = CFG::buildCFG(FD, const_cast<Stmt *>(Body), &Ctx, BO);
    if (!G) return nullptr;
    json::Object o;
    o["entry"] = (int64_t)G->getEntry().getBlockID();
    o["exit"] = (int64_t)G->getExit().getBlockID();
    json::Array blocks;
    for (const CFGBlock *B : *G) {
      json::Object b;
      b["id"] = (int64_t)B->getBlockID();
      json::Array elems;
      for (const CFGElement &E : *B) {
        if (auto CS = E.getAs<CFGStmt>()) {
          auto it = StmtIds.find(CS->getStmt());
          if (it != StmtIds.end()) elems.push_back(it->second);
          else {
            json::Object x;
            x["k"] = "unmapped";
            x["cls"] = CS->getStmt()->getStmtClassName();
            elems.push_back(std::move(x));
          }
        } else if (auto CI = E.getAs<CFGInitializer>()) {
          json::Object x;
          x["k"] = "init";
          const CXXCtorInitializer *I = CI->getInitializer();
          if (I->getAnyMember()) x["member"] = I->getAnyMember()->getNameAsString();
          else if (I->isBaseInitializer())
            x["base"] = canonStr(QualType(I->getBaseClass(), 0));
          auto it = StmtIds.find(I->getInit());
          if (it != StmtIds.end()) x["node"] = it->second;
          elems.push_back(std::move(x));
        } else if (auto AD = E.getAs<CFGAutomaticObjDtor>()) {
          json::Object x;
          x["k"] = "dtor";
          x["d"] = declId(AD->getVarDecl());
          x["n"] = AD->getVarDecl()->getNameAsString();
          x["t"] = canonStr(AD->getVarDecl()->getType());
          elems.push_back(std::move(x));
        } else if (E.getAs<CFGImplicitDtor>()) {
          json::Object x;
          x["k"] = "dtor_other";
          elems.push_back(std::move(x));
        }
      }
      b["e"] = std::move(elems);
      if (const Stmt *T = B->getTerminatorStmt()) {
        auto it = StmtIds.find(T);
        if (it != StmtIds.end()) b["term"] = it->second;
        b["termk"] = T->getStmtClassName();
      }
      if (const Stmt *C = B->getTerminatorCondition(false)) {
        auto it = StmtIds.find(C);
        if (it != StmtIds.end()) b["cond"] = it->second;
      }
      if (const Stmt *L = B->getLabel()) {
        auto it = StmtIds.find(L);
        if (it != StmtIds.end()) b["label"] = it->second;
        b["labelk"] = L->getStmtClassName();
      }
      json::Array succs, usuccs;
      for (auto I = B->succ_begin(); I != B->succ_end(); ++I) {
        const CFGBlock *R = I->getReachableBlock();
        const CFGBlock *U = I->getPossiblyUnreachableBlock();
        succs.push_back(R ? (int64_t)R->getBlockID() : (int64_t)-1);
        usuccs.push_back(R ? (int64_t)R->getBlockID()
                           : (U ? (int64_t)U->getBlockID() : (int64_t)-1));
      }
      b["s"] = std::move(succs);
      b["su"] = std::move(usuccs);
      if (B->hasNoReturnElement()) b["noreturn"] = true;
      blocks.push_back(std::move(b));
    }
    o["blocks"] = std::move(blocks);
    return std::move(o);
  }

  // ---- functions ---------------------------------------------------------
  void emitFunction(const FunctionDecl *FD, const FunctionDecl *Parent) {
    if (!FD || !FD->doesThisDeclarationHaveABody()) return;
    if (FD->isDependentContext()) return;
    if (!inRoot(FD->getLocation())) return;
    if (!EmittedFns.insert(FD).second) return;
    const Stmt *Body = FD->getBody();
    if (!Body) return;

    StmtIds.clear();
    NextStmt = 0;
    std::vector<const LambdaExpr *> savedPending;
    savedPending.swap(PendingLambdas);

    json::Object f;
    std::string key = calleeKey(FD);
    f["key"] = key;
    f["q"] = qname(FD);
    f["name"] = FD->getNameAsString();
    f["l"] = loc(FD->getLocation());
    f["ret"] = canonStr(FD->getReturnType());
    if (Parent) f["parent"] = mangled(Parent);
    if (FD->isTemplateInstantiation()) f["instantiation"] = true;
    json::Array ps;
    for (auto *P : FD->parameters()) {
      json::Object p;
      p["d"] = declId(P);
      p["n"] = P->getNameAsString();
      putType(p, P->getType());
      ps.push_back(std::move(p));
    }
    f["params"] = std::move(ps);
    if (auto *M = dyn_cast<CXXMethodDecl>(FD)) {
      f["class"] = qname(M->getParent());
      f["const"] = M->isConst();
      f["virtual"] = M->isVirtual();
      if (M->getParent()->isLambda()) f["lambda"] = true;
    }
    if (auto *C = dyn_cast<CXXConstructorDecl>(FD)) {
      json::Array inits;
      for (auto *I : C->inits()) {
        json::Object x;
        if (I->getAnyMember()) {
          x["member"] = I->getAnyMember()->getNameAsString();
          x["d"] = declId(I->getAnyMember());
        } else if (I->isBaseInitializer())
          x["base"] = canonStr(QualType(I->getBaseClass(), 0));
        else if (I->isDelegatingInitializer())
          x["delegating"] = true;
        x["written"] = I->isWritten();
        x["init"] = node(I->getInit());
        inits.push_back(std::move(x));
      }
      f["inits"] = std::move(inits);
    }
    f["body"] = node(Body);
    f["cfg"] = cfg(FD, Body);
    f["nnodes"] = NextStmt;
    Functions.push_back(std::move(f));

    std::vector<const LambdaExpr *> mine;
    mine.swap(PendingLambdas);
    PendingLambdas.swap(savedPending);
    for (auto *LE : mine) emitLambda(LE, FD);
  }

  void emitLambda(const LambdaExpr *LE, const FunctionDecl *Parent) {
    const CXXMethodDecl *Op = LE->getCallOperator();
    if (!Op) return;
    // a generic lambda's call operator is a template; skip the pattern
    if (Op->isDependentContext()) return;
    emitFunction(Op, Parent);
  }

  void emitRecord(const CXXRecordDecl *RD) {
    if (!RD || !RD->isThisDeclarationADefinition()) return;
    if (RD->isDependentContext() || RD->isLambda()) return;
    if (!inRoot(RD->getLocation())) return;
    if (!EmittedRecs.insert(RD).second) return;
    json::Object r;
    r["q"] = qname(RD);
    r["l"] = loc(RD->getLocation());
    json::Array bases;
    for (auto &B : RD->bases())
      if (auto *BR = B.getType()->getAsCXXRecordDecl()) bases.push_back(qname(BR));
    r["bases"] = std::move(bases);
    json::Array ms;
    for (auto *M : RD->methods()) {
      if (M->isImplicit()) continue;
      ms.push_back(calleeKey(M));
    }
    r["methods"] = std::move(ms);
    json::Array fs;
    for (auto *F : RD->fields()) {
      json::Object x;
      x["n"] = F->getNameAsString();
      x["d"] = declId(F);
      putType(x, F->getType());
      fs.push_back(std::move(x));
    }
    r["fields"] = std::move(fs);
    Records.push_back(std::move(r));
  }

  // C structs (the C units have no CXXRecordDecls): name, location and fields in declaration order
  void emitCRecord(const RecordDecl *RD) {
    if (!RD || !RD->isThisDeclarationADefinition()) return;
    if (!inRoot(RD->getLocation())) return;
    json::Object r;
    r["q"] = RD->getNameAsString();
    r["l"] = loc(RD->getLocation());
    r["bases"] = json::Array();
    r["methods"] = json::Array();
    json::Array fs;
    for (auto *F : RD->fields()) {
      json::Object x;
      x["n"] = F->getNameAsString();
      x["d"] = declId(F);
      putType(x, F->getType());
      fs.push_back(std::move(x));
    }
    r["fields"] = std::move(fs);
    Records.push_back(std::move(r));
  }

  void emitGlobal(const VarDecl *VD) {
    if (!VD->hasGlobalStorage()) return;
    if (VD->isStaticLocal()) {
      // handled where declared (VarDecl node with sl); also list here
    }
    if (!inRoot(VD->getLocation())) return;
    if (VD->getDeclContext()->isDependentContext()) return;
    const VarDecl *Def = VD->getDefinition();
    if (Def && Def != VD) return;  // only the defining declaration (or a pure extern)
    if (!EmittedGlobals.insert(VD).second) return;
    StmtIds.clear();
    NextStmt = 0;
    std::vector<const LambdaExpr *> savedPending;
    savedPending.swap(PendingLambdas);
    json::Object g;
    g["d"] = declId(VD);
    g["q"] = qname(VD);
    g["n"] = VD->getNameAsString();
    g["l"] = loc(VD->getLocation());
    putType(g, VD->getType());
    g["const"] = VD->getType().isConstQualified() ||
                 (VD->getType()->isArrayType() &&
                  Ctx.getBaseElementType(VD->getType()).isConstQualified());
    g["constexpr"] = VD->isConstexpr();
    g["static_local"] = VD->isStaticLocal();
    g["is_def"] = VD->isThisDeclarationADefinition() != VarDecl::DeclarationOnly;
    if (VD->hasInit() && !VD->getInit()->isValueDependent()) g["init"] = node(VD->getInit());
    Globals.push_back(std::move(g));
    std::vector<const LambdaExpr *> mine;
    mine.swap(PendingLambdas);
    PendingLambdas.swap(savedPending);
    for (auto *LE : mine) emitLambda(LE, nullptr);
  }

  void emitEnum(const EnumDecl *ED) {
    if (!ED->isThisDeclarationADefinition()) return;
    if (!inRoot(ED->getLocation())) return;
    if (!EmittedEnums.insert(ED).second) return;
    json::Object e;
    e["q"] = qname(ED);
    e["l"] = loc(ED->getLocation());
    json::Array cs;
    for (auto *C : ED->enumerators()) {
      json::Object c;
      c["n"] = C->getNameAsString();
      c["v"] = C->getInitVal().getExtValue();
      cs.push_back(std::move(c));
    }
    e["consts"] = std::move(cs);
    Enums.push_back(std::move(e));
  }
};

class Visitor : public RecursiveASTVisitor<Visitor> {
public:
  Exporter &X;
  explicit Visitor(Exporter &X) : X(X) {}
  bool shouldVisitTemplateInstantiations() const { return true; }
  bool shouldVisitImplicitCode() const { return false; }

  bool VisitFunctionDecl(FunctionDecl *FD) {
    if (auto *M = dyn_cast<CXXMethodDecl>(FD))
      if (M->getParent()->isLambda()) return true;  // emitted with its parent
    // register every repo-declared function in the callee table
    if (X.inRoot(FD->getLocation()) && !FD->isDependentContext()) X.calleeKey(FD);
    X.emitFunction(FD, nullptr);
    return true;
  }
  bool VisitCXXRecordDecl(CXXRecordDecl *RD) {
    X.emitRecord(RD);
    return true;
  }
  bool VisitRecordDecl(RecordDecl *RD) {
    if (!isa<CXXRecordDecl>(RD)) X.emitCRecord(RD);
    return true;
  }
  bool VisitVarDecl(VarDecl *VD) {
    if (VD->hasGlobalStorage() && !isa<ParmVarDecl>(VD)) X.emitGlobal(VD);
    return true;
  }
  bool VisitEnumDecl(EnumDecl *ED) {
    X.emitEnum(ED);
    return true;
  }
};

class Consumer : public ASTConsumer {
public:
  std::string InFile;
  explicit Consumer(llvm::StringRef F) : InFile(F.str()) {}
  void HandleTranslationUnit(ASTContext &Ctx) override {
    if (Ctx.getDiagnostics().hasErrorOccurred()) {
      llvm::errs() << "bt-facts: errors in " << InFile << "\n";
    }
    Exporter X(Ctx);
    Visitor V(X);
    V.TraverseDecl(Ctx.getTranslationUnitDecl());
    json::Object top;
    top["unit"] = InFile;
    top["errors"] = Ctx.getDiagnostics().hasErrorOccurred();
    top["files"] = std::move(X.Files);
    top["functions"] = std::move(X.Functions);
    top["records"] = std::move(X.Records);
    top["globals"] = std::move(X.Globals);
    top["enums"] = std::move(X.Enums);
    top["callees"] = std::move(X.Callees);
    std::error_code EC;
    if (OutFile == "-") {
      llvm::outs() << json::Value(std::move(top)) << "\n";
    } else {
      llvm::raw_fd_ostream OS(OutFile, EC);
      if (EC) {
        llvm::errs() << "bt-facts: cannot write " << OutFile << "\n";
        return;
      }
      OS << json::Value(std::move(top)) << "\n";
    }
  }
};

class Action : public ASTFrontendAction {
public:
  std::unique_ptr<ASTConsumer> CreateASTConsumer(CompilerInstance &, llvm::StringRef F) override {
    return std::make_unique<Consumer>(F);
  }
};

}  // namespace

int main(int argc, const char **argv) {
  auto Exp = CommonOptionsParser::create(argc, argv, Cat);
  if (!Exp) {
    llvm::errs() << Exp.takeError();
    return 2;
  }
  CommonOptionsParser &OP = Exp.get();
  ClangTool Tool(OP.getCompilations(), OP.getSourcePathList());
  return Tool.run(newFrontendActionFactory<Action>().get());
}
