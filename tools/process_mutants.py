#!/usr/bin/env python3
"""process_mutants.py <src prefix, e.g. /tmp/mut5-> <id offset> <prop> [<prop> ...]
For each property P and i in 1,2: confirm <prefix>P/i with eval_mutant.py, import it as seeded/P-<i+offset>
and record which checks report it (matrix.py)."""
import json, os, subprocess, sys
V = os.path.dirname(os.path.dirname(os.path.abspath(__file__)))
prefix, off = sys.argv[1], int(sys.argv[2])
ids = []
for p in sys.argv[3:]:
    for i in (1, 2):
        src = "%s%s/%d" % (prefix, p, i)
        if not os.path.exists(os.path.join(src, "patch.diff")):
            print("missing", src)
            continue
        sid = "%s-%d" % (p, i + off)
        ev = "/var/tmp/ev-%s.json" % sid
        out = subprocess.run([sys.executable, os.path.join(V, "tools", "eval_mutant.py"), src], stdout=subprocess.PIPE).stdout
        open(ev, "wb").write(out)
        try:
            d = json.loads(out)
        except Exception:
            print(sid, "eval failed:", out[-200:])
            continue
        ok = d.get("base_suite") == "39/39 passed" and d.get("base_demo_rc") == 0 and \
            d.get("mut_suite") == "39/39 passed" and d.get("mut_demo_rc") not in (0, None)
        print(sid, "confirmed" if ok else "NOT CONFIRMED %s" % {k: d.get(k) for k in ("base_suite", "base_demo_rc", "mut_suite", "mut_demo_rc")},
              "caught_by", d.get("caught_by"), "broken", d.get("broken"), flush=True)
        if ok:
            subprocess.run([sys.executable, os.path.join(V, "tools", "import_mutant.py"), src, sid, p, ev], check=True, stdout=subprocess.DEVNULL)
            ids.append(sid)
if ids:
    subprocess.run([sys.executable, os.path.join(V, "tools", "matrix.py")] + ids)
