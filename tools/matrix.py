#!/usr/bin/env python3
"""Run every claimed check against every seeded change (checks only) and
record which checks report it.  usage: matrix.py [ids...]"""
import json, os, subprocess, sys
from concurrent.futures import ThreadPoolExecutor
V = os.path.dirname(os.path.dirname(os.path.abspath(__file__)))
ids = sys.argv[1:] or sorted(os.listdir(os.path.join(V, "seeded")))
def one(sid):
    p = subprocess.run([sys.executable, os.path.join(V, "tools", "eval_mutant.py"), os.path.join(V, "seeded", sid), "--checks-only"],
                       stdout=subprocess.PIPE, stderr=subprocess.PIPE)
    try:
        r = json.loads(p.stdout.decode())
    except Exception:
        return sid, {"error": p.stdout.decode()[-300:] + p.stderr.decode()[-300:]}
    return sid, r
out = {}
with ThreadPoolExecutor(4) as ex:
    for sid, r in ex.map(one, ids):
        out[sid] = r
        mp = os.path.join(V, "seeded", sid, "meta.json")
        if os.path.exists(mp) and "checks" in r:
            m = json.load(open(mp))
            m["detected_by"] = {p: [x.strip() for x in c["reports"][:2]] for p, c in r["checks"].items() if c["rc"] == 1}
            m["analysis_broken"] = [p for p, c in r["checks"].items() if c["rc"] not in (0, 1)]
            json.dump(m, open(mp, "w"), indent=1)
        own = sid.split("-")[0]
        print("%-7s caught_by=%s%s broken=%s %s" % (sid, r.get("caught_by"), "" if own in (r.get("caught_by") or []) else "  (NOT by own property)", r.get("broken"), r.get("error", "")), flush=True)
