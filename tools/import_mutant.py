#!/usr/bin/env python3
"""import_mutant.py <src dir> <seeded id> <property> <eval json>: copy a confirmed
seeded change into /verif/seeded/<id>/ with meta.json."""
import json, os, shutil, sys
src, sid, prop, evj = sys.argv[1:5]
dst = os.path.join(os.path.dirname(os.path.dirname(os.path.abspath(__file__))), "seeded", sid)
os.makedirs(dst, exist_ok=True)
for f in ("patch.diff", "demo.sh", "README.md"):
    shutil.copy(os.path.join(src, f), os.path.join(dst, f))
ev = json.load(open(evj))
assert ev.get("base_suite") == "39/39 passed" and ev.get("base_demo_rc") == 0, ev
assert ev.get("mut_suite") == "39/39 passed" and ev.get("mut_demo_rc") not in (0, None), ev
readme = open(os.path.join(src, "README.md")).read()
meta = {
    "id": sid,
    "breaks_property": prop,
    "needs_to_manifest": readme.strip().split("\n\n")[0][:600],
    "written_by": "independent sub-agent given only the property text and a scratch worktree",
    "confirmed": {
        "what_i_ran": "tools/eval_mutant.py: scratch worktree of /repo HEAD; cmake+ninja build; ctest (39 tests); demo.sh "
                      "against the unmodified and the patched build",
        "base_suite": ev["base_suite"], "base_demo_rc": ev["base_demo_rc"],
        "patched_suite": ev["mut_suite"], "patched_demo_rc": ev["mut_demo_rc"],
        "patched_demo_tail": ev.get("mut_demo_tail"),
    },
}
json.dump(meta, open(os.path.join(dst, "meta.json"), "w"), indent=1)
print("imported", sid)
