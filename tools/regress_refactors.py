#!/usr/bin/env python3
"""Run tools/eval_refactor.py over every refactors/<id> (or the ids given), N at a time.
Prints one line per rewrite: alarms (false alarms: must be empty) and undecided checks."""
import json, os, subprocess, sys
from concurrent.futures import ThreadPoolExecutor
V = os.path.dirname(os.path.dirname(os.path.abspath(__file__)))
ids = sys.argv[1:] or sorted(os.listdir(os.path.join(V, "refactors")))
def one(i):
    p = subprocess.run([sys.executable, os.path.join(V, "tools", "eval_refactor.py"), os.path.join(V, "refactors", i)],
                       stdout=subprocess.PIPE, stderr=subprocess.DEVNULL)
    try:
        d = json.loads(p.stdout)
    except Exception:
        return i, {"error": p.stdout[-200:].decode(errors="replace")}
    return i, d
alarms = undecided = 0
with ThreadPoolExecutor(max_workers=int(os.environ.get("BTV_JOBS", "5"))) as ex:
    for i, d in ex.map(one, ids):
        a, b = d.get("alarms") or {}, d.get("broken") or {}
        alarms += bool(a); undecided += bool(b)
        print(i, "alarms", a, "undecided", {k: [x[:160] for x in v[:2]] for k, v in b.items()}, d.get("error", ""), flush=True)
print("TOTAL rewrites=%d with_alarm=%d with_undecided=%d" % (len(ids), alarms, undecided))
