#!/usr/bin/env python3
"""Confirm a candidate seeded change and run the checks against it.

usage: eval_mutant.py <dir with patch.diff + demo.sh> [--props C01,C07,...] [--keep <seeded-id>]

Steps (all in scratch space under /var/tmp, removed afterwards):
  1. worktree of /repo HEAD, build, suite, demo.sh  -> must pass
  2. apply patch.diff, build, suite -> must pass; demo.sh -> must fail
  3. run ./check <P> --root <worktree> for every claimed property (or --props)
Prints a JSON summary."""
import json
import os
import shutil
import subprocess
import sys
import tempfile

VERIF = os.path.dirname(os.path.dirname(os.path.abspath(__file__)))


def sh(cmd, cwd=None, timeout=1800):
    p = subprocess.run(cmd, shell=True, cwd=cwd, stdout=subprocess.PIPE, stderr=subprocess.STDOUT, timeout=timeout)
    return p.returncode, p.stdout.decode(errors="replace")


def build_and_test(wt):
    rc, out = sh("cmake -S . -B _b -G Ninja -DCMAKE_BUILD_TYPE=RelWithDebInfo >/dev/null && cmake --build _b 2>&1 | tail -3", cwd=wt)
    if rc != 0:
        return False, "build failed: " + out[-500:]
    rc, out = sh("ctest --test-dir _b -j8 --timeout 900 2>&1", cwd=wt)
    ok = "100% tests passed, 0 tests failed out of 39" in out
    return ok, ("39/39 passed" if ok else out.strip().splitlines()[-8:])


def main():
    d = os.path.abspath(sys.argv[1])
    props = None
    if "--props" in sys.argv:
        props = sys.argv[sys.argv.index("--props") + 1].split(",")
    if props is None:
        m = json.load(open(os.path.join(VERIF, "MANIFEST.json")))
        props = [c["property_id"] for c in m["checks"]]
    res = {"dir": d}
    wt = tempfile.mkdtemp(prefix="btv-ev-", dir="/var/tmp")
    os.rmdir(wt)
    try:
        rc, out = sh("git -C /repo worktree add -q --detach %s HEAD" % wt)
        if rc != 0:
            res["error"] = out
            return res
        demo = os.path.join(d, "demo.sh")
        if "--skip-base" not in sys.argv and "--checks-only" not in sys.argv:
            ok, info = build_and_test(wt)
            res["base_suite"] = info
            rc, out = sh("sh %s %s/_b" % (demo, wt), cwd=wt)
            res["base_demo_rc"] = rc
        rc, out = sh("git apply %s" % os.path.join(d, "patch.diff"), cwd=wt)
        if rc != 0:
            res["error"] = "patch does not apply: " + out
            return res
        if "--checks-only" not in sys.argv:
            ok, info = build_and_test(wt)
            res["mut_suite"] = info
            rc, out = sh("sh %s %s/_b" % (demo, wt), cwd=wt)
            res["mut_demo_rc"] = rc
            res["mut_demo_tail"] = out.strip().splitlines()[-3:]
        shutil.rmtree(os.path.join(wt, "_b"), ignore_errors=True)
        checks = {}
        for p in props:
            rc, out = sh("./check %s --root %s" % (p, wt), cwd=VERIF)
            lines = [l for l in out.splitlines() if l.startswith("  R-") or l.startswith("ANALYSIS")]
            checks[p] = {"rc": rc, "reports": lines[:6]}
        res["checks"] = checks
        res["caught_by"] = [p for p, c in checks.items() if c["rc"] == 1]
        res["broken"] = [p for p, c in checks.items() if c["rc"] not in (0, 1)]
    finally:
        sh("git -C /repo worktree remove --force %s" % wt)
        shutil.rmtree(wt, ignore_errors=True)
    return res


if __name__ == "__main__":
    r = main()
    print(json.dumps(r, indent=1))
