#!/usr/bin/env python3
# Build a single-sided HFE (v1) image with ISO/IBM FM tracks holding an
# Acorn-DFS style catalogue and recognisable per-sector payloads, optionally
# with damage applied to the FM cell stream.
import struct, sys

def crc16(data, crc=0xFFFF):
    for b in data:
        crc ^= b << 8
        for _ in range(8):
            crc = ((crc << 1) ^ 0x1021) & 0xFFFF if crc & 0x8000 else (crc << 1) & 0xFFFF
    return crc

class Fm:
    # self.bits is the FM cell stream: clock, data, clock, data ...
    def __init__(self):
        self.bits = []
    def byte(self, d, clock=0xFF):
        for i in range(7, -1, -1):
            self.bits += [(clock >> i) & 1, (d >> i) & 1]
    def bytes_(self, bs):
        for b in bs:
            self.byte(b)

def sector_payload(t, s):
    line = ("T%02dS%02d " % (t, s)).encode()
    return (line * 40)[:256]

def build_track(t, spt, marks):
    # marks records the cell offsets of interesting places on the track
    m = Fm()
    m.bytes_([0xFF] * 16)
    for s in range(spt):
        m.bytes_([0x00] * 6)
        m.byte(0xFE, clock=0xC7)
        idf = bytes([0xFE, t, 0, s, 1])
        m.bytes_(idf[1:] + struct.pack(">H", crc16(idf)))
        m.bytes_([0xFF] * 11)
        m.bytes_([0x00] * 6)
        marks[(t, s, 'mark')] = len(m.bits)
        m.byte(0xFB, clock=0xC7)
        marks[(t, s, 'data')] = len(m.bits)
        data = PAYLOAD[(t, s)]
        m.bytes_(data + struct.pack(">H", crc16(b"\xFB" + data)))
        m.bytes_([0xFF] * 21)
    m.bytes_([0xFF] * 40)
    return m.bits

def pack_hfe_side(cells):
    # Each FM cell occupies two raw HFE bits (the reader samples the second
    # one); raw bits are stored least-significant-bit first in each byte.
    raw = []
    for c in cells:
        raw += [0, c]
    raw += [0] * (-len(raw) % 8)
    out = bytearray()
    for i in range(0, len(raw), 8):
        v = 0
        for k, b in enumerate(raw[i:i+8]):
            v |= b << k
        out.append(v)
    return bytes(out)

PAYLOAD = {}
def make_payloads(tracks, spt):
    for t in range(tracks):
        for s in range(spt):
            PAYLOAD[(t, s)] = sector_payload(t, s)
    total = tracks * spt
    # Acorn DFS catalogue: one file $.DATA from sector 2 to the end of the disc.
    s0 = bytearray(256); s1 = bytearray(256)
    s0[0:8] = b"C06DEMO "
    s0[8:15] = b"DATA   "; s0[15] = ord('$')
    s1[0:4] = b"    "
    s1[4] = 0; s1[5] = 8              # one file
    s1[6] = (total >> 8) & 3; s1[7] = total & 0xFF
    length = (total - 2) * 256
    s1[12] = length & 0xFF; s1[13] = (length >> 8) & 0xFF
    s1[14] = ((length >> 16) & 3) << 4
    s1[15] = 2
    PAYLOAD[(0, 0)] = bytes(s0); PAYLOAD[(0, 1)] = bytes(s1)

def image(tracks, spt, damage):
    """damage(t, cells, marks) may modify the FM cell list of track t in place."""
    make_payloads(tracks, spt)
    sides = []
    for t in range(tracks):
        marks = {}
        cells = build_track(t, spt, marks)
        if damage: damage(t, cells, marks)
        sides.append(pack_hfe_side(cells))
    hdr = bytearray(b"\xFF" * 512)
    hdr[0:8] = b"HXCPICFE"
    hdr[8] = 0                  # format revision
    hdr[9] = tracks
    hdr[10] = 1                 # sides
    hdr[11] = 2                 # ISOIBM_FM_ENCODING
    hdr[12:14] = struct.pack("<H", 250)
    hdr[14:16] = struct.pack("<H", 300)
    hdr[16] = 7                 # generic Shugart
    hdr[17] = 1
    hdr[18:20] = struct.pack("<H", 1)   # track list at block 1
    hdr[20] = 0xFF              # write allowed
    hdr[21] = 0xFF              # single step
    hdr[22] = 0xFF; hdr[23] = 0xFF; hdr[24] = 0xFF; hdr[25] = 0xFF  # no alternative track 0 encoding
    lut = bytearray(b"\xFF" * 512)
    body = b""
    block = 2
    for t, side0 in enumerate(sides):
        side0 += b"\0" * (-len(side0) % 256)
        inter = b""
        for i in range(0, len(side0), 256):
            inter += side0[i:i+256] + b"\0" * 256
        lut[4*t:4*t+4] = struct.pack("<HH", block, len(inter))
        body += inter
        block += len(inter) // 512
    return bytes(hdr) + bytes(lut) + body


TRACKS, SPT = 3, 10
def dmg_mark(t, cells, marks):
    # destroy the data address mark of sector 8 on every track: flip one clock cell of the mark byte
    at = marks[(t, 8, 'mark')]
    cells[at + 2*2] ^= 1      # a clock cell of the 0xFB/0xC7 mark
open('good.hfe','wb').write(image(TRACKS, SPT, None))
open('bad.hfe','wb').write(image(TRACKS, SPT, dmg_mark))
