import sys
exec(open('/tmp/c06work/gen2.py').read().split('if __name__ == "__main__":')[0])
def dmg(t, cells, marks):
    # kill the data address mark of sector 8 on every track (flip one clock cell)
    cells[marks[(t, 8, 'mark')] + 4] ^= 1
open('probe.hfe','wb').write(image(3,10,dmg))
