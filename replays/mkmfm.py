import struct,sys
def crc16(data, crc=0xFFFF):
    for b in data:
        crc ^= b<<8
        for _ in range(8):
            crc = ((crc<<1)^0x1021)&0xFFFF if crc&0x8000 else (crc<<1)&0xFFFF
    return crc
class Bits:
    def __init__(s): s.b=[]; s.prev=0
    def byte(s,v):
        for i in range(7,-1,-1):
            d=(v>>i)&1; c=0 if (s.prev or d) else 1
            s.b+= [c,d]; s.prev=d
    def sync_a1(s):   # 0x4489
        for i in range(15,-1,-1): s.b.append((0x4489>>i)&1)
        s.prev=1
    def out(s):
        bs=s.b+[0]*((-len(s.b))%8); o=bytearray()
        for i in range(0,len(bs),8):
            v=0
            for k in range(8): v=(v<<1)|bs[i+k]
            o.append(v)
        return bytes(o)
def track(cyl, head, sectors, corrupt=None):
    t=Bits()
    for _ in range(40): t.byte(0x4E)
    for r,data in enumerate(sectors):
        for _ in range(12): t.byte(0x00)
        for _ in range(3): t.sync_a1()
        idf=bytes([0xFE,cyl,head,r,1]); c=crc16(b'\xa1\xa1\xa1'+idf)
        for v in idf+bytes([c>>8,c&255]): t.byte(v)
        for _ in range(22): t.byte(0x4E)
        for _ in range(12): t.byte(0x00)
        for _ in range(3): t.sync_a1()
        blk=bytes([0xFB])+data; c=crc16(b'\xa1\xa1\xa1'+blk)
        if corrupt==r: c^=1
        for v in blk+bytes([c>>8,c&255]): t.byte(v)
        for _ in range(24): t.byte(0x4E)
    for _ in range(60): t.byte(0x4E)
    return t.out()
def image(ntracks, spt, img, corrupt=None):
    tracks=[]
    for c in range(ntracks):
        secs=[img[(c*spt+r)*256:(c*spt+r+1)*256] for r in range(spt)]
        tracks.append(track(c,0,secs, corrupt[1] if corrupt and corrupt[0]==c else None))
    hdr=b'HXCMFM\0'+struct.pack('<HBHHB',ntracks,1,300,250,4)+struct.pack('<I',0x13)
    off=0x13+11*ntracks; lst=b''; body=b''
    for c,t in enumerate(tracks):
        lst+=struct.pack('<HBII',c,0,len(t),off+len(body)); body+=t
    return hdr+lst+body
ntr,spt=3,18; tot=ntr*spt
img=bytearray(tot*256)
img[0:8]=b'MFMTEST '
s1=256; img[s1+5]=8; img[s1+6]=(tot>>8)&3; img[s1+7]=tot&255
img[8:15]=b'DATA   '; img[15]=ord('$')
start,length=17,4*256
img[s1+8+4]=length&255; img[s1+8+5]=length>>8; img[s1+8+6]=0; img[s1+8+7]=start
for s in range(start,start+4): img[s*256:(s+1)*256]=(b'SECTOR %02d ....\n'%s)*16
open('good.mfm','wb').write(image(ntr,spt,bytes(img)))
open('bad.mfm','wb').write(image(ntr,spt,bytes(img),corrupt=(1,0)))   # damage track 1 record 0 (= lba 18)
open('ref.sdd','wb').write(bytes(img))
