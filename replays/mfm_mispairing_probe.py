import sys; sys.path.insert(0, __import__('os').path.dirname(__import__('os').path.abspath(__file__)))
from flux_gen import *
spt=18; tracks=3
sectors=[sector_payload(i) for i in range(tracks*spt)]
s0,s1=make_catalog('C06',[('X','$',52,256)],54)
sectors[0]=s0; sectors[1]=s1
tb,l = build_tracks(sectors,3,18,False)
for pos in (l[2][16]['datasync'], l[2][17]['idsync']):
    for i in range(pos, pos+48): tb[2][i] = 0
write_hxcmfm('p.mfm', tb)
