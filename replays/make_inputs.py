#!/usr/bin/env python3
"""Triage aid, NOT part of any check: re-creates the concrete inputs with which
the defects listed in DESIGN.md section 5 were reproduced against the real
binaries.  Usage: make_inputs.py OUTDIR ; then see the printed command lines.
Nothing here is consulted by the static checks."""
import os, struct, sys, gzip

def dfs_image(entries, total=800, title=b'TITLE   ', nsectors=None):
    """entries: (name, dir, load, exec, length, start) in catalogue order."""
    s0 = bytearray(256); s1 = bytearray(256)
    s0[0:8] = title
    s1[4] = 1; s1[5] = 8*len(entries); s1[6] = (total >> 8) & 3; s1[7] = total & 0xff
    for i, (name, d, load, exe, length, start) in enumerate(entries):
        p = 8*(i+1)
        s0[p:p+7] = name.ljust(7).encode('latin1'); s0[p+7] = ord(d)
        s1[p:p+2] = struct.pack('<H', load & 0xffff)
        s1[p+2:p+4] = struct.pack('<H', exe & 0xffff)
        s1[p+4:p+6] = struct.pack('<H', length & 0xffff)
        s1[p+6] = ((start >> 8) & 3) | (((load >> 16) & 3) << 2) \
                  | (((length >> 16) & 3) << 4) | (((exe >> 16) & 3) << 6)
        s1[p+7] = start & 0xff
    img = bytearray((nsectors or total)*256)
    img[0:256] = s0; img[256:512] = s1
    return img

def bbc_le_line(n, body):
    b = body + b'\r'
    return bytes([len(b)+3, n & 255, n >> 8]) + b

def bbc_be_prog(total_out):
    """6502 program whose --listo 0 listing is exactly total_out bytes."""
    out = b''; produced = 0; n = 10
    while total_out - produced > 200:
        body = b'A'*94; out += bytes([0x0D, n >> 8, n & 255, len(body)+4]) + body
        produced += 100; n += 10
    k = total_out - produced - 6
    out += bytes([0x0D, n >> 8, n & 255, k+4]) + b'B'*k
    return out + b'\x0d\xff'

def main(out):
    os.makedirs(out, exist_ok=True)
    w = lambda name, data: open(os.path.join(out, name), 'wb').write(bytes(data))
    notes = []
    # 4  C09: truncated little-endian program prints stale text
    l1 = bbc_le_line(10, b'\xf1"HELLO WORLD AAAA"'); l2 = bbc_le_line(20, b'\xf1"BYE"xxxxxxxxxxxxx')
    full = l1 + l2 + b'\x00\xff\xff'
    w('le_full.bbc', full); w('le_trunc.bbc', full[:len(l1)+3+6])
    notes.append('C09: bbcbasic_to_text --dialect Z80 --listo 0 le_trunc.bbc   (second line is completed from the first)')
    # 5  C11: 4097-byte listing to /dev/full exits 0
    w('p4097.bbc', bbc_be_prog(4097))
    notes.append('C11: bbcbasic_to_text --dialect 6502 --listo 0 p4097.bbc >/dev/full ; echo $?   (0)')
    # 20 C09: byte 0x7F accepted in 6502
    w('t7f.bbc', b'\x0d\x00\x0a\x06\xf1\x7f\x0d\xff')
    notes.append('C09: bbcbasic_to_text --dialect 6502 t7f.bbc ; echo $?   (0, DEL passed through)')
    # 6  C07: throw new in Catalog::Catalog
    s2 = bytearray([0xAA]*8) + bytearray(248)
    img = dfs_image([], total=400, nsectors=2); w('abort.ssd', img + s2)
    notes.append('C07: dfs --file abort.ssd cat   (SIGABRT, BadFileSystem* thrown)')
    # 7  C07: HxC MFM track list without terminator -> endless loop ; 8: 2 GiB allocation
    h = lambda tracks: b'HXCMFM\0' + struct.pack('<HBHHB', tracks, 1, 300, 250, 4) + struct.pack('<I', 0x13)
    w('hang.mfm', h(2) + struct.pack('<HBII', 0, 0, 0, 0x30))
    w('alloc.mfm', h(1) + struct.pack('<HBII', 0, 0, 0x7fffff00, 0x30))
    notes.append('C07: timeout 5 dfs --file hang.mfm cat ; echo $?   (124)')
    notes.append('C07: /usr/bin/time -v dfs --file alloc.mfm cat   (2 GiB RSS)')
    # 9  C07: HFE header with zero tracks (assertion-enabled build aborts, NDEBUG build reads an empty optional)
    hdr = bytearray(512); hdr[0:8] = b'HXCPICFE'; hdr[9] = 0; hdr[10] = 1; hdr[11] = 2
    w('zerotracks.hfe', bytes(hdr) + bytes(512))
    notes.append('C07: <assert-enabled build>/dfs --file zerotracks.hfe cat   (SIGABRT)')
    # 13 C17: see replay note (patch byte 0x10F of the Opus 8-volume test image to 36)
    notes.append('C17: zcat testdata/opus-ddos-80t-ds-dd-vols-ABCDEFGH.sdd.gz >o.sdd; printf "\\x24" | dd of=o.sdd bs=1 seek=271 conv=notrunc; dfs --file o.sdd type :0A.L.VOL-A   (prints volume B)')
    # 14 C13: Watford disc with a file at sector 0x102
    img = dfs_image([('K', '$', 0, 0, 256, 0x102)])
    img[512:520] = bytes([0xAA]*8); img[768+6] = (800 >> 8) & 3; img[768+7] = 800 & 0xff
    w('watford102.ssd', img)
    notes.append('C13: dfs --file watford102.ssd cat   (shown as Acorn "FM", not Watford)')
    # 16 C02: sign extension clobbers bit 16
    w('signext.ssd', dfs_image([('J', '$', 0x20000, 0x2ABCD, 5, 2)]))
    notes.append("C02: dfs --file signext.ssd info '*'   (FF0000 FFABCD instead of FE0000 FEABCD)")
    # 17 C12: path traversal
    img = dfs_image([('../x', '$', 0x1900, 0x8023, 5, 2)]); img[512:517] = b'PWNED'
    w('traverse.ssd', img)
    notes.append('C12: mkdir out; dfs --file traverse.ssd extract-files out/   (creates ./x and ./x.inf)')
    # 18 C10: hints taken from the name including .gz
    img = dfs_image([], total=350, title=b'HINT    ', nsectors=630)
    w('hint.sdd', img); open(os.path.join(out, 'hint.sdd.gz'), 'wb').write(gzip.compress(bytes(img)))
    notes.append('C10: dfs --file hint.sdd cat | head -1 ; dfs --file hint.sdd.gz cat | head -1   (MFM vs FM)')
    notes.append("C15: dfs --file signext.ssd info '^'   (Unmatched [)")
    notes.append('C11: dfs --file signext.ssd info "*" >/dev/full ; echo $?   (0)')
    notes.append('C07: dfs --file signext.ssd show-titles 5 ; echo $?   (1, silent)')
    notes.append('C08: bbcbasic_to_text --dump-token-maps   (SIGSEGV) ; bbcbasic_to_text -D - >/dev/full   (1, silent)')
    notes.append('C06: python3 mkmfm.py  ->  good.mfm / bad.mfm ; dfs --file bad.mfm type --binary DATA   (sectors 19,20,21 for 18,19,20; status 0)')
    print('\n'.join(notes))

if __name__ == '__main__':
    main(sys.argv[1] if len(sys.argv) > 1 else 'replay_inputs')
