#!/usr/bin/env python3
"""Generator for small HFE (FM/MFM) and HxC-MFM disc images holding an
Acorn DFS file system, with hooks to damage the track bit-streams."""
import struct, sys

def crc16(data, crc=0xFFFF):
    for b in data:
        crc ^= b << 8
        for _ in range(8):
            crc = ((crc << 1) ^ 0x1021) & 0xFFFF if crc & 0x8000 else (crc << 1) & 0xFFFF
    return crc

# ---------------------------------------------------------------- DFS
def make_catalog(title, files, total_sectors):
    """files: list of (name, dir, start_sector, length)."""
    s0 = bytearray(256); s1 = bytearray(256)
    t = title.ljust(12, '\0').encode()
    s0[0:8] = t[0:8]; s1[0:4] = t[8:12]
    s1[4] = 0                      # cycle
    s1[5] = 8 * len(files)
    s1[6] = (total_sectors >> 8) & 3
    s1[7] = total_sectors & 0xFF
    for i, (name, d, start, length) in enumerate(files):
        p = 8 + 8 * i
        s0[p:p+7] = name.ljust(7).encode()
        s0[p+7] = ord(d)
        s1[p+0:p+2] = struct.pack('<H', 0)        # load
        s1[p+2:p+4] = struct.pack('<H', 0)        # exec
        s1[p+4:p+6] = struct.pack('<H', length & 0xFFFF)
        s1[p+6] = ((start >> 8) & 3) | (((length >> 16) & 3) << 4)
        s1[p+7] = start & 0xFF
    return bytes(s0), bytes(s1)

def sector_payload(lba):
    """Recognisable, address-specific contents for the sector at LBA."""
    line = ('SECTOR %04d ' % lba).encode()
    return (line * 32)[:255] + b'\n'

def make_disc(tracks, spt, title='C06'):
    """Returns list of sectors (bytes) indexed by LBA.  One file per
    track (except track 0, which holds the catalogue plus file T0)."""
    total = tracks * spt
    sectors = [sector_payload(i) for i in range(total)]
    files = []
    # DFS wants catalogue entries in descending start-sector order.
    for t in range(tracks - 1, 0, -1):
        files.append(('T%d' % t, '$', t * spt, spt * 256))
    files.append(('T0', '$', 2, (spt - 2) * 256))
    s0, s1 = make_catalog(title, files, total)
    sectors[0] = s0; sectors[1] = s1
    return sectors

# ---------------------------------------------------------------- FM
def fm_byte(data, clock=0xFF):
    out = []
    for i in range(7, -1, -1):
        out.append((clock >> i) & 1); out.append((data >> i) & 1)
    return out

def fm_track(cyl, head, secs, size_code=1, order=None, dam=0xFB):
    """secs: dict record -> bytes.  Returns (bits, layout) where layout maps
    record -> dict(id=(start,end), idmark=pos, dam=pos, data=(start,end)) in
    cooked-bit positions."""
    bits = []; layout = {}
    def put(bs, clock=0xFF):
        for b in bs: bits.extend(fm_byte(b, clock))
    put([0xFF] * 20)
    for rec in (order or sorted(secs)):
        lay = {}
        put([0x00] * 6)
        lay['idmark'] = len(bits)
        put([0xFE], clock=0xC7)
        idf = bytes([cyl, head, rec, size_code])
        c = crc16(b'\xFE' + idf)
        lay['id'] = (len(bits), None)
        put(idf + bytes([c >> 8, c & 0xFF]))
        lay['id'] = (lay['id'][0], len(bits))
        put([0xFF] * 11)
        put([0x00] * 6)
        lay['dam'] = len(bits)
        put([dam], clock=0xC7)
        d = secs[rec]
        c = crc16(bytes([dam]) + d)
        lay['data'] = (len(bits), None)
        put(d + bytes([c >> 8, c & 0xFF]))
        lay['data'] = (lay['data'][0], len(bits))
        put([0xFF] * 10)
        layout[rec] = lay
    put([0xFF] * 40)
    return bits, layout

# ---------------------------------------------------------------- MFM
def mfm_encode(data_bits_prev, byte):
    out = []; prev = data_bits_prev
    for i in range(7, -1, -1):
        d = (byte >> i) & 1
        out.append(0 if (prev or d) else 1); out.append(d)
        prev = d
    return out, prev

def mfm_track(cyl, head, secs, size_code=1, order=None, dam=0xFB):
    bits = []; layout = {}
    state = {'prev': 0}
    def put(bs):
        for b in bs:
            o, state['prev'] = mfm_encode(state['prev'], b)
            bits.extend(o)
    def sync():
        for _ in range(3):
            bits.extend([(0x4489 >> i) & 1 for i in range(15, -1, -1)])
        state['prev'] = 1
    put([0x4E] * 40)
    for rec in (order or sorted(secs)):
        lay = {}
        put([0x00] * 12)
        lay['idsync'] = len(bits)
        sync()
        lay['idmark'] = len(bits)
        idf = bytes([0xFE, cyl, head, rec, size_code])
        c = crc16(b'\xA1\xA1\xA1' + idf)
        put([0xFE]); s = len(bits)
        put(idf[1:] + bytes([c >> 8, c & 0xFF]))
        lay['id'] = (s, len(bits))
        put([0x4E] * 22)
        put([0x00] * 12)
        lay['datasync'] = len(bits)
        sync()
        lay['dam'] = len(bits)
        d = secs[rec]
        c = crc16(b'\xA1\xA1\xA1' + bytes([dam]) + d)
        put([dam]); s = len(bits)
        put(d + bytes([c >> 8, c & 0xFF]))
        lay['data'] = (s, len(bits))
        put([0x4E] * 24)
        layout[rec] = lay
    put([0x4E] * 80)
    return bits, layout

# ---------------------------------------------------------------- containers
def pack_lsb_first(bits):
    out = bytearray((len(bits) + 7) // 8)
    for i, b in enumerate(bits):
        if b: out[i >> 3] |= 1 << (i & 7)
    return bytes(out)

def pack_msb_first(bits):
    out = bytearray((len(bits) + 7) // 8)
    for i, b in enumerate(bits):
        if b: out[i >> 3] |= 0x80 >> (i & 7)
    return bytes(out)

def write_hfe(path, track_bits, fm):
    """track_bits: list (per track) of cooked bit lists; single sided, HFE v1."""
    ntracks = len(track_bits)
    hdr = bytearray(b'\xFF' * 512)
    hdr[0:8] = b'HXCPICFE'
    hdr[8] = 0; hdr[9] = ntracks; hdr[10] = 1
    hdr[11] = 2 if fm else 0
    hdr[12:14] = struct.pack('<H', 250); hdr[14:16] = struct.pack('<H', 300)
    hdr[16] = 7; hdr[17] = 1
    hdr[18:20] = struct.pack('<H', 1)
    hdr[20] = 0xFF; hdr[21] = 0xFF
    hdr[22] = 0xFF; hdr[23] = 0xFF; hdr[24] = 0xFF; hdr[25] = 0xFF
    blobs = []
    for bits in track_bits:
        if fm:
            raw = []
            for b in bits: raw.append(0); raw.append(b)
        else:
            raw = list(bits)
        side0 = pack_lsb_first(raw)
        if len(side0) % 256: side0 += b'\x00' * (256 - len(side0) % 256)
        blob = bytearray()
        for i in range(0, len(side0), 256):
            blob += side0[i:i+256] + b'\x00' * 256
        blobs.append(bytes(blob))
    lut = bytearray(b'\xFF' * 512)
    pos = 2
    body = bytearray()
    for i, blob in enumerate(blobs):
        assert len(blob) < 65536 and len(blob) % 512 == 0
        lut[4*i:4*i+4] = struct.pack('<HH', pos, len(blob))
        pos += len(blob) // 512
        body += blob
    with open(path, 'wb') as f:
        f.write(bytes(hdr) + bytes(lut) + bytes(body))

def write_hxcmfm(path, track_bits):
    ntracks = len(track_bits)
    hdr = b'HXCMFM\0' + struct.pack('<HBHHB', ntracks, 1, 300, 250, 4) + struct.pack('<I', 0x13)
    assert len(hdr) == 0x13
    datas = [pack_msb_first(b) for b in track_bits]
    pos = 0x13 + 11 * ntracks
    lst = b''
    for i, d in enumerate(datas):
        lst += struct.pack('<HBII', i, 0, len(d), pos)
        pos += len(d)
    with open(path, 'wb') as f:
        f.write(hdr + lst + b''.join(datas))

# ---------------------------------------------------------------- helpers
def build_tracks(sectors, tracks, spt, fm):
    out = []; lays = []
    for t in range(tracks):
        secs = {r: sectors[t * spt + r] for r in range(spt)}
        b, l = (fm_track if fm else mfm_track)(t, 0, secs)
        out.append(b); lays.append(l)
    return out, lays
