"""C12 - dfs writes only where it was told to and never alters an image.

R-C12-1  write-effect census: the complete set of call sites that can create
         or modify a file (ofstream/fstream/filebuf, fopen/freopen/open/creat,
         tmpfile/mkstemp, rename/remove/unlink/mkdir/..., system/popen/exec,
         std::filesystem) equals the confirmed table; read-side opens carry no
         write mode.  Thorough tier: the linked program's undefined external
         symbols contain no file-modifying entry point outside the table.
R-C12-2  path confinement: bytes that come from the catalogue (name,
         directory, full_name) reach the path argument of a file-creating call
         only through a sanitiser that removes '/'.
"""
import json
import os

from ..runner import RuleResult
from ..facts import AnalysisBroken
from ..model import strip, strip_all, walk, show, notpl, is_call, call_args, call_receiver
from .. import flow
from ..flow import folded, Guards

EXPLANATION = (
    "Static decision of the structural part of C12 for every catalogue and command: (1) a who-may-create census - "
    "every call site in the dfs program that can create, open for writing, rename or delete a file is enumerated "
    "and must be one of the five confirmed sites (three ofstreams in the extract commands, tmpfile() and a "
    "read-only fopen in the gzip reader), and every read-side open has no write/trunc/append mode, hence no "
    "command but the two extract commands creates files and no image is opened for writing; (2) a taint analysis "
    "from catalogue bytes to the path arguments of those sites, broken only by a function that replaces '/'.  "
    "Not decided: that the destination directory itself is not the image file (runtime).")
ASSUMPTIONS = ["without '/', a relative name cannot leave the directory it is appended to ('.' and '..' name "
               "directories, which cannot be opened for writing)",
               "the C/C++ library entry points that can create or modify files are those tabulated"]

CREATING_FUNCS = {
    "fopen", "fopen64", "freopen", "open", "open64", "openat", "creat", "creat64", "tmpfile", "tmpfile64", "mkstemp",
    "mkostemp", "mkdtemp", "mktemp", "tmpnam", "rename", "renameat", "remove", "unlink", "unlinkat", "mkdir", "mkdirat",
    "rmdir", "truncate", "ftruncate", "chmod", "fchmod", "chown", "link", "symlink", "linkat", "symlinkat", "system",
    "popen", "fork", "vfork", "execl", "execlp", "execle", "execv", "execvp", "execve", "posix_spawn", "mkfifo",
    "mknod", "utime", "utimes", "fdopen", "dup2",
}
FS_MODIFIERS = {"create_directory", "create_directories", "remove", "remove_all", "rename", "copy", "copy_file",
                "copy_symlink", "resize_file", "permissions", "create_symlink", "create_directory_symlink",
                "create_hard_link", "last_write_time", "current_path"}
WRITE_STREAM_CLASSES = ("std::basic_ofstream", "std::basic_fstream", "std::ofstream", "std::fstream")
READ_STREAM_CLASSES = ("std::basic_ifstream", "std::ifstream")
OPENMODE_WRITE_BITS = 1 | 16 | 32   # app | out | trunc  (libstdc++ _Ios_Openmode)

# Confirmed table (DESIGN 3/C12): file, function (suffix), kind, reason
ALLOWED_SITES = [
    ("dfs/cmd_extract_files.cc", "create_inf_file", "ofstream", "the .inf file beside each extracted file"),
    ("dfs/cmd_extract_files.cc", "CommandExtractFiles::invoke", "ofstream", "the extracted file body"),
    ("dfs/cmd_extract_unused.cc", "write_span", "ofstream", "one file per unused span"),
    ("dfs/img_gzfile.cc", "open_temporary_file", "tmpfile", "anonymous temporary file holding decompressed data"),
    ("dfs/img_gzfile.cc", "write_decompressed_data", "fopen:r", "the .gz image, opened read-only"),
]


def creation_sites(prog):
    """Yield (fn, node, kind, path_arg) for every call site that can create or modify a file."""
    for fn in prog.functions.values():
        for n in fn.walk():
            k = n.get("k")
            if k in ("CXXConstructExpr", "CXXTemporaryObjectExpr"):
                cls = notpl(n.get("cls") or "")
                if cls in WRITE_STREAM_CLASSES and n.get("c"):
                    yield fn, n, "ofstream", n["c"][0]
                elif cls in READ_STREAM_CLASSES and len(n.get("c", [])) >= 2:
                    mode = folded(n["c"][1])
                    if mode is None or (mode & OPENMODE_WRITE_BITS):
                        yield fn, n, "ifstream-with-write-mode", n["c"][0]
            elif k == "CXXMemberCallExpr":
                callee = strip(n["c"][0])
                if callee and callee.get("n") == "open" and callee.get("c"):
                    obj = strip_all(callee["c"][0])
                    t = notpl((obj.get("ct") or obj.get("t") or "").replace("const ", ""))
                    if t.startswith(("std::basic_ofstream", "std::basic_fstream", "std::basic_filebuf")):
                        yield fn, n, "ofstream", (n["c"][1] if len(n["c"]) > 1 else None)
                    elif t.startswith("std::basic_ifstream") and len(n["c"]) > 2:
                        mode = folded(n["c"][2])
                        if mode is None or (mode & OPENMODE_WRITE_BITS):
                            yield fn, n, "ifstream-with-write-mode", n["c"][1]
            elif k in ("CallExpr",):
                q = notpl(n.get("q") or "")
                if q.startswith("std::filesystem") and q.split("::")[-1] in FS_MODIFIERS:
                    yield fn, n, "std::filesystem::" + q.split("::")[-1], None
                    continue
                base = q.split("::")[-1] if q.startswith("std::") or "::" not in q else None
                if base in CREATING_FUNCS:
                    a = call_args(n)
                    if base in ("fopen", "fopen64", "freopen", "fdopen") and len(a) >= 2:
                        m = strip_all(a[1])
                        mode = m.get("s") if m is not None and m.get("k") == "StringLiteral" else None
                        kind = "fopen:r" if mode and mode[0] == "r" and "+" not in mode else "fopen:" + str(mode)
                        yield fn, n, kind, a[0]
                    else:
                        yield fn, n, base, (a[0] if a else None)


def rule_census(prog, fixture=False):
    r = RuleResult("R-C12-1", "every call site that can create, modify, rename or delete a file is one of the "
                   "confirmed sites; no stream that reads an image is opened with a write mode",
                   floor=0 if fixture else 5)
    seen = set()
    for fn, n, kind, path in creation_sites(prog):
        key = "%s::%s::%s" % (fn.relfile(), fn.qn, kind)
        ok = False
        why = ""
        for f, fsuffix, k, reason in ALLOWED_SITES:
            # granularity: the source file of the two extract commands / the gzip reader, and the kind of
            # call; which function of that file does it is free to change (path confinement is R-C12-2's job)
            if fn.relfile() == f and kind == k:
                ok, why = True, reason
                seen.add((f, k))
        if fixture and kind in ("ofstream",) and fn.qn.endswith("allowed_writer"):
            ok, why = True, "fixture"
        r.add(key, fn.loc(n), ok, why if ok else
              "%s in %s can create or modify a file but is not one of the confirmed write sites: a command other than "
              "extract-files/extract-unused could create files, or an input could be altered" % (kind, fn.qn))
    if not fixture:
        for f, fsuffix, k, reason in ALLOWED_SITES:
            if (f, k) not in seen:
                # fewer write sites cannot break the property; but the table is then out of date
                r.undecided.append("confirmed write site %s (%s) no longer found: re-confirm the table" % (f, k))
    return r


# ---------------------------------------------------------------- R-C12-2
SOURCE_METHODS = {"DFS::CatalogEntry::name", "DFS::CatalogEntry::directory", "DFS::CatalogEntry::full_name"}
CLEAN_METHODS = {"size", "length", "empty", "compare", "find", "rfind", "c_str_len", "capacity"}


def _slash_free(fn, g, e, at):
    """The character expression e can never be '/' when evaluated at node `at`."""
    e = strip_all(e)
    if e is None:
        return False
    v = folded(e)
    if v is not None:
        return v != ord("/")
    if e.get("k") == "ConditionalOperator":
        c = strip_all(e["c"][0])
        a, b = strip_all(e["c"][1]), strip_all(e["c"][2])
        if c.get("k") == "BinaryOperator" and c.get("op") in ("==", "!="):
            l, r = strip_all(c["c"][0]), strip_all(c["c"][1])
            var = l if folded(r) == ord("/") else (r if folded(l) == ord("/") else None)
            if var is not None:
                same_a = flow.same_expr(a, var)
                same_b = flow.same_expr(b, var)
                if c["op"] == "==":       # var == '/' ? X : var
                    return same_b and _slash_free(fn, g, a, at)
                return same_a and _slash_free(fn, g, b, at)  # var != '/' ? var : X
        return _slash_free(fn, g, a, at) and _slash_free(fn, g, b, at)
    # guarded by a dominating test  e != '/'
    for l, rel, r in (g.cmps(at) or []):
        if rel == "!=" and flow.same_expr(l, e) and folded(r) == ord("/"):
            return True
    return False


def _sanitiser_functions(prog):
    """Functions returning a string that cannot contain '/': the returned local is
    either a copy of the argument to which std::replace(.., '/', c) (c != '/') is
    applied, or is built only from characters proven not to be '/'."""
    out = set()
    for f in prog.functions.values():
        if "basic_string" not in (f.raw.get("ret") or ""):
            continue
        rets = [n for n in f.walk() if n.get("k") == "ReturnStmt" and n.get("c")]
        if len(rets) != 1:
            continue
        rv = strip_all(rets[0]["c"][0])
        if rv is None or rv.get("k") != "DeclRefExpr" or rv.get("dk") != "Var":
            continue
        rid = rv.get("d")
        replaced = False
        for n in f.walk():
            if n.get("k") == "CallExpr" and notpl(n.get("q") or "") == "std::replace":
                a = call_args(n)
                if len(a) == 4 and folded(a[2]) == ord("/") and folded(a[3]) not in (None, ord("/")) and \
                        all(any(x.get("k") == "DeclRefExpr" and x.get("d") == rid for x in walk(a[i])) for i in (0, 1)):
                    replaced = True
        # every other way content gets into the result must be slash-free
        g = None
        ok = True
        tainted_init = False
        for n in f.walk():
            if n.get("k") == "VarDecl" and n.get("d") == rid and n.get("c"):
                init = strip_all(n["c"][0])
                if init is not None and not (init.get("k") in ("CXXConstructExpr",) and not init.get("c")):
                    tainted_init = True     # constructed from something (e.g. the parameter)
            if n.get("k") == "CXXMemberCallExpr":
                cal = strip(n["c"][0])
                if cal and cal.get("c") and strip_all(cal["c"][0]).get("d") == rid:
                    nm = cal.get("n")
                    if nm in ("push_back",):
                        g = g or flow.Guards(f)
                        if not _slash_free(f, g, n["c"][1], n):
                            ok = False
                    elif nm in ("append", "assign", "insert", "operator+=", "replace"):
                        ok = False
            if n.get("k") == "CXXOperatorCallExpr" and n.get("op") in ("+=", "=") and len(n["c"]) == 3 and \
                    strip_all(n["c"][1]).get("d") == rid:
                g = g or flow.Guards(f)
                if not _slash_free(f, g, n["c"][2], n):
                    ok = False
        if replaced and ok:
            out.add(f.key)
        elif ok and not tainted_init and not replaced:
            # built from scratch out of slash-free characters only
            if any(n.get("k") == "CXXMemberCallExpr" and (strip(n["c"][0]) or {}).get("n") == "push_back" for n in f.walk()):
                out.add(f.key)
    return out


class NameTaint:
    def __init__(self, prog, sanitisers=True):
        self.prog = prog
        # sanitisers=False: plain provenance ("is built from catalogue names at all")
        self.san = _sanitiser_functions(prog) if sanitisers else set()
        self.t_decl = set()
        self.t_param = set()
        self.t_ret = set()
        self.t_field = set()
        self._solve()

    def dkey(self, f, d):
        return (f.unit["unit"], d)

    def tainted(self, f, e, depth=0):
        e = strip_all(e)
        if e is None or depth > 40:
            return False
        k = e.get("k")
        if k == "DeclRefExpr":
            return e.get("dk") in ("Var", "ParmVar", "Binding") and self.dkey(f, e["d"]) in self.t_decl
        if k == "MemberExpr":
            if e.get("dk") == "Field" and notpl(e.get("q") or "") in self.t_field:
                return True
            return bool(e.get("c")) and self.tainted(f, e["c"][0], depth + 1)
        if is_call(e):
            q = notpl(e.get("q") or "")
            if q in SOURCE_METHODS:
                return True
            if e.get("fn") in self.san:
                return False
            if e.get("fn") in self.t_ret:
                return True
            if e.get("k") == "CXXMemberCallExpr":
                callee = strip(e["c"][0])
                if callee and callee.get("n") in CLEAN_METHODS:
                    return False
            # library / unknown functions: result derives from arguments and receiver
            if not self.prog.by_key.get(e.get("fn") or ""):
                return any(self.tainted(f, c, depth + 1) for c in e.get("c", []))
            return False
        if k in ("StringLiteral", "IntegerLiteral", "CharacterLiteral"):
            return False
        return any(self.tainted(f, c, depth + 1) for c in e.get("c", []))

    def _solve(self):
        prog = self.prog
        changed = True
        rounds = 0
        while changed and rounds < 60:
            changed = False
            rounds += 1
            for f in prog.functions.values():
                for i, p in enumerate(f.params):
                    if (f.key, i) in self.t_param and self.dkey(f, p["d"]) not in self.t_decl:
                        self.t_decl.add(self.dkey(f, p["d"]))
                        changed = True
                for n in f.walk():
                    k = n.get("k")
                    if k == "VarDecl" and n.get("c") and self.dkey(f, n["d"]) not in self.t_decl:
                        if self.tainted(f, n["c"][0]):
                            self.t_decl.add(self.dkey(f, n["d"]))
                            changed = True
                    elif k == "CXXForRangeStmt":
                        pass
                    elif (k in ("BinaryOperator", "CompoundAssignOperator") and n.get("op") in flow.ASSIGN_OPS) or \
                            (k == "CXXOperatorCallExpr" and n.get("op") in flow.ASSIGN_OPS and len(n["c"]) == 3):
                        lhs, rhs = (n["c"][0], n["c"][1]) if k != "CXXOperatorCallExpr" else (n["c"][1], n["c"][2])
                        if self.tainted(f, rhs):
                            t = strip_all(lhs)
                            if t.get("k") == "DeclRefExpr" and self.dkey(f, t["d"]) not in self.t_decl:
                                self.t_decl.add(self.dkey(f, t["d"]))
                                changed = True
                            elif t.get("k") == "MemberExpr" and t.get("dk") == "Field" and notpl(t.get("q")) not in self.t_field:
                                self.t_field.add(notpl(t.get("q")))
                                changed = True
                    elif k == "CXXMemberCallExpr":
                        callee = strip(n["c"][0])
                        if callee and callee.get("n") in ("push_back", "append", "assign", "insert", "operator+=") and callee.get("c"):
                            if any(self.tainted(f, a) for a in n["c"][1:]):
                                t = strip_all(callee["c"][0])
                                if t.get("k") == "DeclRefExpr" and self.dkey(f, t["d"]) not in self.t_decl:
                                    self.t_decl.add(self.dkey(f, t["d"]))
                                    changed = True
                    if k == "ReturnStmt" and n.get("c") and f.key not in self.t_ret and f.key not in self.san:
                        if self.tainted(f, n["c"][0]):
                            self.t_ret.add(f.key)
                            changed = True
                    if is_call(n) and n.get("fn") and n.get("k") != "CXXOperatorCallExpr":
                        keys = prog.overriders(n["fn"]) if n.get("virt") else {n["fn"]}
                        for i, a in enumerate(call_args(n)):
                            if self.tainted(f, a):
                                for kk in keys:
                                    if (kk, i) not in self.t_param and prog.by_key.get(kk) and kk not in self.san:
                                        self.t_param.add((kk, i))
                                        changed = True


def rule_path_confinement(prog, fixture=False):
    r = RuleResult("R-C12-2", "bytes from the catalogue (file name, directory) reach the path of a created file "
                   "only through a function that replaces every '/'", floor=0 if fixture else 3)
    t = NameTaint(prog)
    r.info["sanitisers"] = sorted(notpl(prog.callees[k]["q"]) for k in t.san if k in prog.callees)
    for fn, n, kind, path in creation_sites(prog):
        if path is None or kind.startswith("fopen:r") or kind == "tmpfile":
            continue
        key = "%s::%s::%s(%s)" % (fn.relfile(), fn.qn, kind, show(path)[:50])
        bad = t.tainted(fn, path)
        r.add(key, fn.loc(n), not bad, "path is built from the destination directory and sanitised/derived names only"
              if not bad else
              "the path `%s` contains bytes taken from the catalogue without passing through a '/'-removing "
              "sanitiser: a file named e.g. ../x is created outside the destination directory" % show(path))
    return r


# ---------------------------------------------------------------- R-C12-3
IDENTITY_CALLS = ("std::filesystem::equivalent", "stat", "fstat", "lstat", "stat64", "fstat64")


def _checks_identity(prog, f, depth=0, seen=None):
    """Does f (or a repo function it calls) compare file identities?"""
    seen = seen if seen is not None else set()
    if f.uid in seen or depth > 4:
        return False
    seen.add(f.uid)
    for n in f.walk():
        if n.get("k") in ("CallExpr", "CXXMemberCallExpr"):
            q = notpl(n.get("q") or "")
            if q in IDENTITY_CALLS or q.endswith("::equivalent"):
                return True
            for t in prog.call_targets(f, n):
                if _checks_identity(prog, t, depth + 1, seen):
                    return True
    return False


def _image_extensions(prog):
    """Extensions the image loader recognises: string literals compared with == in
    the function that selects the image-file class."""
    exts = set()
    for f in prog.functions.values():
        if not f.relfile().endswith("img_load.cc"):
            continue
        for n in f.walk():
            if n.get("k") == "CXXOperatorCallExpr" and n.get("op") == "==":
                for o in n["c"][1:]:
                    for x in walk(o):
                        if x.get("k") == "StringLiteral" and x.get("s") and len(x["s"]) <= 4 and x["s"].isalnum():
                            exts.add(x["s"])
    return exts


def _constant_suffix(prog, fn, e, depth=0):
    """A string literal with which the value of e certainly ends, or None."""
    e = strip_all(e)
    if e is None or depth > 5:
        return None
    k = e.get("k")
    if k == "StringLiteral":
        return e.get("s") or None
    if k in ("CXXConstructExpr", "CXXTemporaryObjectExpr", "CXXFunctionalCastExpr", "CXXBindTemporaryExpr") and e.get("c"):
        args = [c for c in e["c"] if (strip(c) or {}).get("k") != "CXXDefaultArgExpr"]
        if len(args) == 1:
            return _constant_suffix(prog, fn, args[0], depth + 1)
        return None
    if k == "CXXOperatorCallExpr" and e.get("op") == "+" and len(e["c"]) == 3:
        return _constant_suffix(prog, fn, e["c"][2], depth + 1)
    if k == "DeclRefExpr" and e.get("dk") == "Var" and "[" in (e.get("t") or ""):
        # a char array filled by exactly one s(n)printf with a literal format
        import re
        fills = []
        for n in fn.walk():
            if n.get("k") == "CallExpr" and notpl(n.get("q") or "").split("::")[-1] in ("snprintf", "sprintf"):
                a = call_args(n)
                if a and (strip_all(a[0]) or {}).get("d") == e.get("d"):
                    fills.append(n)
            elif any(d == e.get("d") for d, _ in flow.written_decls(n)):
                return None
        if len(fills) != 1:
            return None
        call = fills[0]
        a = call_args(call)
        is_n = notpl(call.get("q") or "").endswith("snprintf")
        fmt = strip_all(a[2 if is_n else 1]) if len(a) > (2 if is_n else 1) else None
        if fmt is None or fmt.get("k") != "StringLiteral":
            return None
        text = fmt.get("s") or ""
        convs = list(re.finditer(r"%[-0 +#]*\d*(?:\.\d+)?([a-zA-Z%]+)", text))
        if any(c.group(1) not in ("d", "u", "x", "X", "i", "o", "c", "%") for c in convs):
            return None
        if is_n and not _format_fits(fn, call, e.get("d")):
            return None   # could be truncated: the end of the text is not certain
        if not is_n:
            longest = len(re.sub(r"%[-0 +#]*\d*(?:\.\d+)?[a-zA-Z%]+", "", text)) + 22 * len(convs)
            m = re.search(r"\[(\d+)\]", e.get("t") or "")
            if not m or longest + 1 > int(m.group(1)):
                return None
        tail = text[convs[-1].end():] if convs else text
        return tail or None
    if k == "DeclRefExpr" and e.get("dk") in ("Var", "ParmVar"):
        written = False
        appends = []
        for n in fn.walk():
            for d, _ in flow.written_decls(n):
                if d == e.get("d"):
                    written = True
                    if n.get("k") == "CXXOperatorCallExpr" and n.get("op") == "+=" and len(n["c"]) == 3:
                        appends.append(n["c"][2])
                    elif n.get("k") == "CXXMemberCallExpr" and (strip(n["c"][0]) or {}).get("n") in ("append", "operator+=") and len(n["c"]) == 2:
                        appends.append(n["c"][1])
                    else:
                        appends.append(None)
        if written and len(appends) == 1 and appends[0] is not None:
            # a single `v += tail` : v ends in whatever tail ends in
            return _constant_suffix(prog, fn, appends[0], depth + 1)
        if written:
            return None
        for n in fn.walk():
            if n.get("k") == "VarDecl" and n.get("d") == e.get("d") and n.get("c"):
                return _constant_suffix(prog, fn, n["c"][0], depth + 1)
        if e.get("dk") == "ParmVar":
            idx = [i for i, p in enumerate(fn.params) if p["d"] == e["d"]]
            sufs = set()
            for g in prog.functions.values():
                for c in g.walk():
                    if c.get("k") in ("CallExpr", "CXXMemberCallExpr") and fn in prog.call_targets(g, c):
                        a = call_args(c)
                        if idx and idx[0] < len(a):
                            sufs.add(_constant_suffix(prog, g, a[idx[0]], depth + 1))
            if len(sufs) == 1:
                return sufs.pop()
        return None
    if k in ("CallExpr", "CXXMemberCallExpr"):
        callee = strip(e["c"][0]) if e.get("c") else None
        # ss.str() of a local stream whose last insertion is a literal
        if k == "CXXMemberCallExpr" and callee and callee.get("n") == "str" and callee.get("c"):
            obj = strip_all(callee["c"][0])
            last = None
            for n in fn.walk():
                if n.get("k") == "CXXOperatorCallExpr" and n.get("op") == "<<" and len(n["c"]) == 3:
                    root = n
                    while True:
                        l = strip_all(root["c"][1])
                        if l is not None and l.get("k") == "CXXOperatorCallExpr" and l.get("op") == "<<":
                            root = l
                        else:
                            break
                    if l is not None and obj is not None and l.get("d") == obj.get("d"):
                        p = fn.parent(n)
                        while p is not None and p.get("k") in ("ImplicitCastExpr", "ExprWithCleanups"):
                            p = fn.parent(p)
                        if p is None or not (p.get("k") == "CXXOperatorCallExpr" and p.get("op") == "<<"):
                            last = n   # outermost insertion of a statement; later statements override
            if last is not None:
                return _constant_suffix(prog, fn, last["c"][2], depth + 1)
            return None
        ts = prog.call_targets(fn, e)
        if len(ts) == 1:
            rets = [n for n in ts[0].walk() if n.get("k") == "ReturnStmt" and n.get("c")]
            sufs = {_constant_suffix(prog, ts[0], r_["c"][0], depth + 1) for r_ in rets}
            if len(sufs) == 1:
                return sufs.pop()
    return None


def rule_not_an_input(prog, fixture=False):
    r = RuleResult("R-C12-3", "a file is created under a name taken from the command line or the catalogue only "
                   "after it was shown not to be one of the image files being read (a dominating file-identity "
                   "test on that path, or an exclusive create): otherwise opening it truncates the input",
                   floor=0 if fixture else 3)
    exts = _image_extensions(prog) or ({"ssd", "gz"} if fixture else set())
    if not exts and not fixture:
        raise AnalysisBroken("cannot find the image-file extensions the loader compares against")
    r.info["image_extensions"] = sorted(exts)
    prov = None
    for fn, n, kind, path in creation_sites(prog):
        if path is None or kind.startswith("fopen:r") or kind == "tmpfile":
            continue
        key = "%s::%s::%s(%s)" % (fn.relfile(), fn.qn, kind, show(path)[:50])
        ok, why = False, ""
        if kind.startswith("fopen:") and "x" in kind[6:]:
            ok, why = True, "exclusive create"
        if not ok:
            suf = _constant_suffix(prog, fn, path)
            if suf and "." in suf and "/" not in suf:
                ext = suf.rsplit(".", 1)[1]
                if exts and ext not in exts:
                    ok, why = True, "the name always ends in %r, which the image loader does not accept" % suf
        if not ok:
            g = Guards(fn)
            for atom, truth in (g.truths(n) or []):
                a = strip_all(atom)
                if a is None or not is_call(a):
                    continue
                q = notpl(a.get("q") or "")
                direct = q in IDENTITY_CALLS or q.endswith("::equivalent")
                via = any(_checks_identity(prog, t) for t in prog.call_targets(fn, a))
                if direct or via:
                    ok, why = True, "dominated by the identity test %s" % show(a)[:60]
        if not ok:
            # only a name the *image* chooses (built from catalogue names) can be made to coincide with the image
            # file; a name whose tail this rule cannot fold and that does not come from the catalogue is not decided
            prov = prov or NameTaint(prog, sanitisers=False)
            if not prov.tainted(fn, path):
                r.undecided.append("%s: cannot tell what `%s` ends in, and it is not built from catalogue names" %
                                   (fn.loc(n), show(path)))
                continue
        r.add(key, fn.loc(n), ok, why if ok else
              "`%s` is opened for writing (truncating) without any test that it is not one of the image files "
              "being read: an image stored in the destination directory under the name of one of its own files "
              "is destroyed" % show(path))
    return r


# ---------------------------------------------------------------- R-C12-4
def _ends_with_slash_states(fn, g, d):
    """Forward must-analysis: 'the string variable d certainly ends in a slash' per CFG block entry."""
    cfg = fn.cfg

    def is_slash(e):
        e = strip_all(e)
        if e is None:
            return False
        if folded(e) == 47:
            return True
        return e.get("k") == "StringLiteral" and (e.get("s") or "").endswith("/")

    def transfer(st, x):
        k = x.get("k")
        if k == "CXXMemberCallExpr":
            cal = strip(x["c"][0])
            if cal and cal.get("c") and (strip_all(cal["c"][0]) or {}).get("d") == d:
                nm = cal.get("n")
                if nm in ("push_back", "append", "operator+=") and len(x["c"]) > 1:
                    return is_slash(x["c"][-1])
                if nm in flow.MUTATORS:
                    return False
        if k == "CXXOperatorCallExpr" and x.get("op") in ("+=", "=") and len(x["c"]) == 3 and \
                (strip_all(x["c"][1]) or {}).get("d") == d:
            return is_slash(x["c"][2]) if x["op"] == "+=" else False
        if k == "DeclStmt" and any(v.get("d") == d for v in x.get("c", [])):
            return False
        if k == "CallExpr" and notpl(x.get("q") or "") == "std::move" and \
                any((strip_all(a) or {}).get("d") == d for a in call_args(x)):
            return False      # a moved-from string is empty (or anything)
        return st

    def edge_gen(p, s_):
        for k in g.edge_facts.get((p, s_), ()):
            f = g.rep.get(k)
            if f is None or f[0] != "C" or f[2] != "==":
                continue
            for a, b in ((f[1], f[3]), (f[3], f[1])):
                x = strip_all(a)
                if folded(b) == 47 and x is not None and x.get("k") == "CXXMemberCallExpr":
                    cal = strip(x["c"][0])
                    if cal and cal.get("n") == "back" and cal.get("c") and (strip_all(cal["c"][0]) or {}).get("d") == d:
                        return True
        return False
    out = {b: True for b in cfg.blocks}
    inn = {b: True for b in cfg.blocks}
    reach = cfg.reachable()
    changed = True
    while changed:
        changed = False
        for b in cfg.blocks:
            if b not in reach:
                continue        # dead code constrains nothing
            preds = [p for p in cfg.pred[b] if p in reach]
            if b == cfg.entry or not preds:
                i = False
            else:
                i = all(out[p] or edge_gen(p, b) for p in preds)
            st = i
            for e in cfg.blocks[b]["e"]:
                x = fn.nodes.get(e) if isinstance(e, int) else None
                if x is not None:
                    st = transfer(st, x)
            if i != inn[b] or st != out[b]:
                inn[b], out[b] = i, st
                changed = True

    def at(node):
        pos = g.position(node)
        if pos is None:
            return None
        st = inn[pos[0]]
        for e in cfg.blocks[pos[0]]["e"][:pos[1]]:
            x = fn.nodes.get(e) if isinstance(e, int) else None
            if x is not None:
                st = transfer(st, x)
        return st
    return at


def rule_directory_separator(prog, fixture=False):
    r = RuleResult("R-C12-4", "where an output path is formed from the destination directory given on the command "
                   "line, the directory string certainly ends in '/' (tested with back() == '/' or a '/' appended on "
                   "every path): otherwise the leaf name is glued onto the last component and the file lands in the "
                   "parent directory", floor=0 if fixture else 2)
    for fn in prog.functions.values():
        # local strings initialised from the argument vector
        dests = []
        for v in fn.walk():
            if v.get("k") == "VarDecl" and v.get("c") and "basic_string" in (v.get("ct") or v.get("t") or ""):
                if any(x.get("k") == "DeclRefExpr" and x.get("dk") == "ParmVar" and x.get("n") == "args" for x in walk(v["c"][0])):
                    dests.append(v)
        for v in dests:
            g = Guards(fn)
            at = _ends_with_slash_states(fn, g, v["d"])
            k = 0
            for n in fn.walk():
                use = False
                if n.get("k") == "CXXOperatorCallExpr" and n.get("op") == "+" and len(n["c"]) == 3 and \
                        (strip_all(n["c"][1]) or {}).get("d") == v["d"]:
                    use = True
                elif n.get("k") in ("CallExpr", "CXXMemberCallExpr") and prog.call_targets(fn, n) and \
                        any((strip_all(a) or {}).get("d") == v["d"] or
                            ((strip_all(a) or {}).get("k") == "CallExpr" and notpl((strip_all(a) or {}).get("q") or "") == "std::move" and
                             any((strip_all(y) or {}).get("d") == v["d"] for y in call_args(strip_all(a))))
                            for a in call_args(n)):
                    use = True
                if not use:
                    continue
                st = at(n)
                if st is None:
                    continue
                k += 1
                key = "%s::%s::%s#%d" % (fn.relfile(), fn.qn, v["n"], k)
                r.add(key, fn.loc(n), bool(st), "directory ends in '/'" if st else
                      "`%s` is used to form an output path on a path where it need not end in '/': a destination "
                      "whose last character is taken for a separator (or no separator is added) makes the files land "
                      "beside the destination directory, not inside it" % v["n"])
    return r


# ---------------------------------------------------------------- R-C12-5
BOUNDED_FILLS = {"snprintf": 0, "vsnprintf": 0, "strncpy": 0, "strncat": 0, "memcpy": 0, "sprintf": 0, "strcpy": 0,
                 "strcat": 0, "strlcpy": 0, "strlcat": 0}


def _buffers_behind(prog, fn, e, depth=0, seen=None):
    """(function, char-array declaration id, name) triples for fixed-size char buffers from which the string
    value of e is made (through constructors, +, locals, c_str()/data() and helper functions' returns)."""
    seen = seen if seen is not None else set()
    e = strip_all(e)
    if e is None or depth > 6 or (fn.uid, id(e)) in seen:
        return []
    seen.add((fn.uid, id(e)))
    k = e.get("k")
    out = []
    if k == "DeclRefExpr" and e.get("dk") in ("Var", "ParmVar"):
        t = e.get("ct") or e.get("t") or ""
        if "[" in t and "char" in t:
            return [(fn, e["d"], e.get("n"))]
        for n in fn.walk():
            if n.get("k") == "VarDecl" and n.get("d") == e.get("d") and n.get("c"):
                out += _buffers_behind(prog, fn, n["c"][0], depth + 1, seen)
            if n.get("k") in ("BinaryOperator", "CXXOperatorCallExpr") and n.get("op") in ("=", "+=") and n.get("c"):
                ops = n["c"][-2:]
                if (strip_all(ops[0]) or {}).get("d") == e.get("d"):
                    out += _buffers_behind(prog, fn, ops[1], depth + 1, seen)
        return out
    if k in ("CallExpr", "CXXMemberCallExpr"):
        callee = strip(e["c"][0]) if e.get("c") else None
        if k == "CXXMemberCallExpr" and callee is not None and callee.get("n") in ("c_str", "data", "str", "substr") and callee.get("c"):
            return _buffers_behind(prog, fn, callee["c"][0], depth + 1, seen)
        for t in prog.call_targets(fn, e):
            for r_ in t.walk():
                if r_.get("k") == "ReturnStmt" and r_.get("c"):
                    out += _buffers_behind(prog, t, r_["c"][0], depth + 1, seen)
        return out
    if k in ("CXXConstructExpr", "CXXTemporaryObjectExpr", "CXXFunctionalCastExpr", "CXXBindTemporaryExpr",
             "CXXOperatorCallExpr", "ConditionalOperator", "BinaryOperator"):
        for c in e.get("c", []):
            out += _buffers_behind(prog, fn, c, depth + 1, seen)
    return out


def _format_fits(fn, call, d):
    """snprintf(buf, n, "literal with %d/%u/%x/%c only", ...) whose longest possible output fits the array buf."""
    import re
    a = call_args(call)
    fmt = strip_all(a[2]) if len(a) > 2 else None
    if fmt is None or fmt.get("k") != "StringLiteral":
        return False
    text = fmt.get("s") or ""
    convs = list(re.finditer(r"%[-0 +#]*(\d*)(?:\.\d+)?(l{0,2}|z|h{0,2})([a-zA-Z%])", text))
    longest = len(re.sub(r"%[-0 +#]*\d*(?:\.\d+)?(?:l{0,2}|z|h{0,2})[a-zA-Z%]", "", text))
    ai = 3
    for c in convs:
        if c.group(3) not in ("d", "u", "x", "X", "i", "o", "c", "%"):
            return False
        width = int(c.group(1)) if c.group(1) else 0
        if c.group(3) == "%":
            longest += 1
            continue
        aw = ((strip(a[ai]) or {}).get("w") or 64) if ai < len(a) else 64
        ai += 1
        digits = {"d": (aw * 3 + 9) // 10 + 1, "i": (aw * 3 + 9) // 10 + 1, "u": (aw * 3 + 9) // 10, "o": (aw + 2) // 3,
                  "x": (aw + 3) // 4, "X": (aw + 3) // 4, "c": 1}[c.group(3)]
        longest += max(width, digits)
    size = None
    for v in fn.walk():
        if v.get("k") == "VarDecl" and v.get("d") == d:
            m = re.search(r"\[(\d+)\]", v.get("t") or v.get("ct") or "")
            if m:
                size = int(m.group(1))
    return size is not None and longest + 1 <= size


def rule_bounded_names(prog, fixture=False):
    r = RuleResult("R-C12-5", "no output file name passes through a fixed-size character buffer that can cut it "
                   "short: a truncated path names a different file (in an ancestor of the destination); a bounded "
                   "fill is acceptable only where its result is compared with the buffer size", floor=0 if fixture else 3)
    for fn, n, kind, path in creation_sites(prog):
        if path is None or kind.startswith("fopen:r") or kind == "tmpfile":
            continue
        key = "%s::%s::%s(%s)" % (fn.relfile(), fn.qn, kind, show(path)[:50])
        bufs = _buffers_behind(prog, fn, path)
        probs = []
        for bf, d, nm in bufs:
            for c in bf.walk():
                if c.get("k") != "CallExpr":
                    continue
                base = notpl(c.get("q") or "").split("::")[-1]
                a = call_args(c)
                if base not in BOUNDED_FILLS or not a or (strip_all(a[0]) or {}).get("d") != d:
                    continue
                p_ = bf.parent(c)
                while p_ is not None and p_.get("k") in ("ImplicitCastExpr", "ParenExpr", "ExprWithCleanups"):
                    p_ = bf.parent(p_)
                used = p_ is not None and p_.get("k") in ("BinaryOperator", "VarDecl", "IfStmt", "ConditionalOperator", "ReturnStmt") \
                    and not (p_.get("k") == "BinaryOperator" and p_.get("op") == ",")
                if base in ("snprintf", "vsnprintf", "strlcpy", "strlcat") and used:
                    continue
                if base == "snprintf" and _format_fits(bf, c, d):
                    continue        # every conversion is of bounded width and the whole text fits the buffer
                probs.append("%s: %s() fills the %s `%s` and its result is not examined" % (bf.loc(c), base,
                             (bf.node_by_decl(d) or {}).get("t", "buffer") if hasattr(bf, "node_by_decl") else "buffer", nm))
        r.add(key, fn.loc(n), not probs,
              "no fixed-size buffer on the way" if not bufs else ("bounded fills are checked" if not probs else
              "the name `%s` is assembled in a fixed-size buffer: %s - a destination path longer than the buffer is "
              "silently cut and the file is created somewhere else" % (show(path)[:40], "; ".join(probs[:2]))))
    return r


def rule_ir_census(ctx):
    """Thorough tier: file-modifying entry points among the linked program's
    undefined external symbols must be explainable by the confirmed table."""
    r = RuleResult("R-C12-1/ir", "the linked dfs program references no file-creating library entry point beyond "
                   "those behind the confirmed sites", floor=5)
    cache = ctx.cache_dir(want_ir=True)
    syms = json.load(open(os.path.join(cache, "ir", "dfs.undef.json")))
    allowed = {"tmpfile", "fopen"}
    for s in syms:
        base = s
        if base in CREATING_FUNCS:
            r.add("ir::" + base, "dfs (linked IR)", base in allowed, "explained by the confirmed table" if base in allowed
                  else "the linked program references %s(), which can create or modify files" % base)
        elif "basic_ofstream" in s or "basic_fstream" in s or "basic_filebuf" in s and "open" in s:
            r.add("ir::" + s[:60], "dfs (linked IR)", True, "stream class behind the three confirmed ofstream sites",
                  nontrivial=False)
        elif "filesystem" in s:
            r.add("ir::" + s[:60], "dfs (linked IR)", False, "std::filesystem entry point referenced")
    r.add("ir::symbols", "dfs (linked IR)", True, "%d undefined external symbols examined" % len(syms))
    return r


def run(ctx):
    prog = ctx.prog("dfs", "N")
    res = [rule_census(prog), rule_path_confinement(prog), rule_not_an_input(prog), rule_directory_separator(prog),
           rule_bounded_names(prog)]
    if ctx.tier == "thorough":
        res.append(rule_ir_census(ctx))
    return res


SELFTESTS = [
    (rule_census, ["c12_bad.cc"], ["c12_good.cc"], "sneaky"),
    (rule_path_confinement, ["c12_bad.cc"], ["c12_good.cc"], "ofstream"),
    (rule_not_an_input, ["c12_in_bad.cc"], ["c12_in_good.cc"], "write_body"),
    (rule_directory_separator, ["c12_in_bad.cc"], ["c12_in_good.cc"], "dest_dir"),
    (rule_bounded_names, ["c12_buf_bad.cc"], ["c12_buf_good.cc"], "write_span"),
]
