"""C09 - truncated / ill-formed programs are rejected, nothing is invented.

R-C09-1  the int result of getc/fgetc is compared with EOF before any other
         use (no byte is fabricated from EOF); on the EOF edge the function
         leaves without decoding further, and returns true only under an
         enumerated clean-end justification
R-C09-2  a short fread never reaches the line decoder: the branch on
         `nread < len` leaves the function with a failure on its short edge
         and dominates every decode_line call
R-C09-3  mutable static state census: the only written objects with static
         storage are line buffers filled by fread (hence freshly read, R-C09-2)
R-C09-4  no failure is dropped: bool results of the decoding functions are
         never discarded, and the exit status variable is sticky (every
         assignment after initialisation stores a non-zero constant)
R-C09-5  a byte the token table declares unassigned stays unassigned
         (table/override contradiction)
"""
from ..runner import RuleResult
from ..facts import AnalysisBroken
from ..model import strip, strip_all, walk, show, notpl, is_call, call_args
from .. import flow
from ..flow import Guards, canon, folded, same_expr, atomise
from . import c07

EXPLANATION = (
    "Static decision of the structural root causes behind C09, for every input and truncation point: EOF is tested "
    "before a getc result is used; a short fread cannot reach the line decoder (so no stale buffer content is "
    "ever printed); the only mutable static state is the fread-filled line buffers; decoding failures always reach "
    "the exit status, which is sticky across input files; and no token the table declares unassigned is made "
    "valid by a later override.  The prefix property itself (output of a truncated file is a prefix of the intact "
    "listing) is a runtime relation and is not decided beyond these causes.")
ASSUMPTIONS = ["C stdio semantics of getc/fgetc/fread return values"]

GETC = {"getc", "fgetc", "getchar", "_IO_getc", "getc_unlocked", "fgetc_unlocked"}
INPUTS = GETC | {"fread"}
DECODERS = {"decode_line"}


def _callee(n):
    return notpl(n.get("q") or "") if n.get("k") == "CallExpr" else None


def _input_functions(prog):
    return [f for f in prog.functions.values() if any(_callee(n) in INPUTS for n in f.walk())]


def _always_false_functions(prog):
    """Repo functions all of whose returns are the constant false (diagnostic helpers)."""
    out = set()
    for f in prog.functions.values():
        rs = [n for n in f.walk() if n.get("k") == "ReturnStmt"]
        if rs and all(r.get("c") and folded(r["c"][0]) == 0 for r in rs):
            out.add(f.key)
    return out


def _is_failure_return(prog, fn, ret, falsefns):
    if not ret.get("c"):
        return False
    e = strip_all(ret["c"][0])
    if folded(e) == 0:
        return True
    if e.get("k") == "CallExpr" and e.get("fn") in falsefns:
        return True
    return False


def rule_eof_before_use(prog, fixture=False):
    r = RuleResult("R-C09-1", "a getc/fgetc result is compared with EOF before any other use; on the EOF edge "
                   "the function leaves without reading or decoding further, returning true only when nothing "
                   "was consumed yet or the end-of-program marker was already recognised", floor=0 if fixture else 8)
    falsefns = _always_false_functions(prog)
    for fn in _input_functions(prog):
        g = Guards(fn)
        cfg = fn.cfg
        # variables assigned from getc
        sites = []
        for n in fn.walk():
            if n.get("k") == "BinaryOperator" and n.get("op") == "=":
                rhs = strip_all(n["c"][1])
                if rhs is not None and _callee(rhs) in GETC:
                    tgt = strip_all(n["c"][0])
                    if tgt.get("k") == "DeclRefExpr":
                        sites.append((n, tgt["d"], tgt["n"]))
            elif n.get("k") == "VarDecl" and n.get("c"):
                rhs = strip_all(n["c"][0])
                if rhs is not None and _callee(rhs) in GETC:
                    sites.append((n, n["d"], n["n"]))
        vars_ = {}
        for n, d, nm in sites:
            vars_.setdefault(d, nm)
        # (a) every read of the variable is an EOF comparison or dominated by `v != EOF`
        for d, nm in vars_.items():
            uses = 0
            bad = None
            for u in fn.walk():
                if u.get("k") != "DeclRefExpr" or u.get("d") != d:
                    continue
                p = fn.parent(u)
                # skip the assignment target itself
                if p is not None and p.get("k") == "BinaryOperator" and p.get("op") == "=" and strip_all(p["c"][0]) is u:
                    continue
                # the comparison with EOF
                q = p
                while q is not None and q.get("k") in ("ImplicitCastExpr", "ParenExpr"):
                    q = fn.parent(q)
                if q is not None and q.get("k") == "BinaryOperator" and q.get("op") in ("==", "!="):
                    other = q["c"][1] if _contains(q["c"][0], u) else q["c"][0]
                    if folded(other) == -1:
                        continue
                uses += 1
                cs = g.cmps(u)
                if cs is None:
                    continue
                ok = any(rel == "!=" and strip_all(l).get("k") == "DeclRefExpr" and strip_all(l).get("d") == d
                         and folded(rr) == -1 for l, rel, rr in cs)
                if not ok and bad is None:
                    bad = u
            key = "%s::%s::%s" % (fn.relfile(), fn.qn, nm)
            r.add(key, fn.loc(bad) if bad is not None else "%s:%d" % (fn.relfile(), fn.line), bad is None,
                  ("%d uses, all after the EOF test" % uses) if bad is None else
                  "`%s` (a getc result) is used before it has been compared with EOF: at end of file the value "
                  "EOF is treated as a data byte (0xFF)" % nm)
        # (b) EOF edges leave the function; return true needs a justification
        for bid in cfg.reachable():
            b = cfg.blocks[bid]
            if b.get("cond") is None or len(cfg.succ[bid]) != 2:
                continue
            cond = fn.nodes.get(b["cond"])
            for outcome, succ in ((True, cfg.succ[bid][0]), (False, cfg.succ[bid][1])):
                if succ < 0:
                    continue
                eofvar = None
                for f in atomise(cond, outcome):
                    if f[0] == "C" and f[2] == "==" and folded(f[3]) == -1:
                        l = strip_all(f[1])
                        if l.get("k") == "DeclRefExpr" and l.get("d") in vars_:
                            eofvar = l
                if eofvar is None:
                    continue
                key = "%s::%s::eof-edge@%s" % (fn.relfile(), fn.qn, _ordinal(fn, cond))
                # explore from succ until returns; flag decoding/input calls
                problem = None
                seen, st = set(), [succ]
                rets = []
                while st and problem is None:
                    x = st.pop()
                    if x in seen or x < 0:
                        continue
                    seen.add(x)
                    for n in flow.element_nodes(fn, x):
                        c = _callee(n)
                        if c in INPUTS or c in DECODERS:
                            problem = "after end of input was seen the function goes on to call %s (%s)" % (c, fn.loc(n))
                            break
                        if n.get("k") == "ReturnStmt":
                            rets.append(n)
                    if x == cfg.exit:
                        continue
                    if any(n.get("k") == "ReturnStmt" for n in flow.element_nodes(fn, x)):
                        continue
                    st.extend(cfg.succ[x])
                if problem is None:
                    for ret in rets:
                        if _is_failure_return(prog, fn, ret, falsefns):
                            continue
                        # clean end: needs a justification among the facts at the return
                        just = _clean_end_justified(fn, g, ret)
                        if not just:
                            problem = "end of input leads to a success return (%s) without a clean-end justification " \
                                      "(nothing consumed yet / end marker already recognised)" % fn.loc(ret)
                r.add(key, fn.loc(cond), problem is None, problem or "EOF edge leaves the function with a failure "
                      "or a justified clean end")
    return r


def _contains(root, node):
    return any(x is node for x in walk(root))


def _ordinal(fn, node):
    k = 0
    for n in fn.walk():
        if n is node:
            return k
        if n.get("k") == node.get("k"):
            k += 1
    return k


def _is_nothing_consumed_flag(fn, g, ref):
    """A bool local that starts true and is only ever set to false, each time after a
    byte has successfully been read (a `!= EOF` fact holds there)."""
    did = ref.get("d")
    init_true = False
    for v in fn.walk():
        if v.get("k") == "VarDecl" and v.get("d") == did:
            init_true = bool(v.get("c")) and folded(v["c"][0]) == 1
    if not init_true:
        return False
    for n in fn.walk():
        if n.get("k") in ("BinaryOperator", "CompoundAssignOperator") and n.get("op") in flow.ASSIGN_OPS and \
                strip_all(n["c"][0]).get("d") == did:
            if not (n.get("op") == "=" and folded(n["c"][1]) == 0):
                return False
            cs = g.cmps(n) or []
            if not any(rel == "!=" and folded(rr) == -1 for l, rel, rr in cs):
                return False
    return True


def _clean_end_justified(fn, g, ret):
    fs = g.at(ret)
    if fs is None:
        return True
    for k in fs:
        # `empty` still true: not a single byte was consumed
        if k[0] == "T" and k[2] is True:
            n = strip_all(g.rep[k][1])
            if n.get("k") == "DeclRefExpr" and _is_nothing_consumed_flag(fn, g, n):
                return "nothing consumed"
            if n.get("k") == "CallExpr" and _callee(n) == "expect_char":
                return "end marker recognised"
        if k[0] == "C" and k[2] == "==":
            f = g.rep[k]
            for a, b in ((f[1], f[3]), (f[3], f[1])):
                if folded(b) == 0xFF and strip_all(a).get("k") == "DeclRefExpr":
                    return "0xFF marker byte recognised"
    return None


def rule_short_fread(prog, fixture=False):
    r = RuleResult("R-C09-2", "for every fread into a line buffer, the branch on `nread < len` returns a failure "
                   "on its short edge, and every later decode_line call is dominated by the other edge",
                   floor=0 if fixture else 2)
    falsefns = _always_false_functions(prog)
    for fn in _input_functions(prog):
        cfg = fn.cfg
        dom = None
        for n in fn.walk():
            rhs = None
            var = None
            if n.get("k") == "BinaryOperator" and n.get("op") == "=":
                rhs = strip_all(n["c"][1])
                t = strip_all(n["c"][0])
                var = t.get("d") if t.get("k") == "DeclRefExpr" else None
            elif n.get("k") == "VarDecl" and n.get("c"):
                rhs = strip_all(n["c"][0])
                var = n["d"]
            if rhs is None or _callee(rhs) != "fread":
                continue
            args = call_args(rhs)
            if len(args) < 4:
                continue
            size, count = args[1], args[2]
            want = count if folded(size) == 1 else (size if folded(count) == 1 else None)
            key = "%s::%s::fread(%s)" % (fn.relfile(), fn.qn, show(args[0]))
            if var is None or want is None:
                r.add(key, fn.loc(n), False, "fread result is not kept, so a short read cannot be detected")
                continue
            # find the branch
            found = None
            for bid in cfg.reachable():
                b = cfg.blocks[bid]
                if b.get("cond") is None or len(cfg.succ[bid]) != 2:
                    continue
                cond = fn.nodes.get(b["cond"])
                for outcome, si in ((True, 0), (False, 1)):
                    for f in atomise(cond, outcome):
                        if f[0] != "C":
                            continue
                        l, rel, rr = f[1], f[2], f[3]
                        if strip_all(rr).get("k") == "DeclRefExpr" and strip_all(rr).get("d") == var:
                            l, rel, rr = rr, flow.SWAP[rel], l
                        ls = strip_all(l)
                        if ls.get("k") == "DeclRefExpr" and ls.get("d") == var and rel in ("<", "!=") and same_expr(rr, want):
                            found = (bid, cfg.succ[bid][si], cfg.succ[bid][1 - si])
            if found is None:
                r.add(key, fn.loc(n), False, "no branch compares the fread result with the requested length %s" % show(want))
                continue
            bid, short_s, full_s = found
            # short edge: every path must return a failure before decoding/reading more
            problem = None
            seen, st = set(), [short_s]
            while st and problem is None:
                x = st.pop()
                if x in seen or x < 0:
                    continue
                seen.add(x)
                if x == cfg.exit:
                    continue
                ret_here = False
                for e in flow.element_nodes(fn, x):
                    c = _callee(e)
                    if c in DECODERS or c in INPUTS:
                        problem = "after a short read the function can still reach %s (%s): the rest of the line " \
                                  "would be taken from whatever the buffer held before" % (c, fn.loc(e))
                        break
                    if e.get("k") == "ReturnStmt":
                        ret_here = True
                        if not _is_failure_return(prog, fn, e, falsefns):
                            problem = "a short read can end in a success return (%s)" % fn.loc(e)
                if not ret_here:
                    st.extend(cfg.succ[x])
            # dominance of decode_line calls reachable from the fread
            if problem is None:
                dom = dom or cfg.dominators()
                for e in fn.walk():
                    if _callee(e) in DECODERS:
                        pos = fn.where().get(e["i"])
                        if pos and full_s >= 0 and full_s not in dom.get(pos[0], set()) and \
                                flow.block_paths_reach(cfg, fn.where().get(rhs["i"], (bid,))[0], {pos[0]}):
                            if not _passes_uses_buffer(e, args[0]):
                                continue
                            problem = "decode_line (%s) is not dominated by the full-read edge of the length check" % fn.loc(e)
            r.add(key, fn.loc(n), problem is None, problem or "short edge returns failure; decode_line only on the full-read edge")
    return r


def _passes_uses_buffer(call, buf):
    b = strip_all(buf)
    return any(x.get("k") == "DeclRefExpr" and x.get("d") == b.get("d") for a in call_args(call) for x in walk(a))


def rule_static_state(prog, fixture=False):
    r = RuleResult("R-C09-3", "objects with static storage that the program writes are only line buffers filled "
                   "by fread; nothing else can carry data from one input file to the next",
                   floor=0 if fixture else 2)
    # collect non-const statics: globals + static locals
    statics = {}
    for gid, gl in prog.globals.items():
        if gl.get("const") or gl.get("constexpr"):
            continue
        statics[(gl["q"], gid)] = gl
    written = {}
    for fn in prog.functions.values():
        for n in fn.walk():
            tgt = None
            how = None
            if n.get("k") in ("BinaryOperator", "CompoundAssignOperator") and n.get("op") in flow.ASSIGN_OPS:
                tgt, how = n["c"][0], "assignment"
            elif n.get("k") == "UnaryOperator" and n.get("op") in ("++", "--"):
                tgt, how = n["c"][0], n["op"]
            elif n.get("k") == "CallExpr":
                c = _callee(n)
                for i, a in enumerate(call_args(n)):
                    s = strip_all(a)
                    # address of / array decay of a static passed to a function taking non-const pointer
                    base = s
                    if base is not None and base.get("k") == "UnaryOperator" and base.get("op") == "&":
                        base = strip_all(base["c"][0])
                    if base is not None and base.get("k") == "DeclRefExpr" and (base.get("g") or base.get("sl")):
                        info = prog.callees.get(n.get("fn"), {})
                        ps = info.get("params", [])
                        pt = ps[i] if i < len(ps) else ""
                        if "*" in pt and "const" not in pt.split("*")[0]:
                            written.setdefault(base.get("q") or base.get("n"), []).append(("passed to %s" % c, fn, n, c, i))
            if tgt is not None:
                x = strip_all(tgt)
                while x is not None and x.get("k") in ("ArraySubscriptExpr", "MemberExpr", "UnaryOperator"):
                    x = strip_all(x["c"][0]) if x.get("c") else None
                if x is not None and x.get("k") == "DeclRefExpr" and (x.get("g") or x.get("sl")):
                    written.setdefault(x.get("q") or x.get("n"), []).append((how, fn, n, None, None))
    for (q, gid), gl in sorted(statics.items()):
        ws = written.get(q, [])
        key = "static::%s" % gid.split("|")[0] + ("@" + gid.split("|")[1].split("/")[-1].split(":")[0])
        where = gid.split("|")[1]
        if not ws:
            r.add(key, where, True, "never written", nontrivial=False)
            continue
        ok = all(w[3] == "fread" and w[4] == 0 for w in ws)
        r.add(key, where, ok, "written only by fread (destination buffer)" if ok else
              "mutable static state `%s` is written by %s in %s: data can leak from one input file into the next" %
              (q, ws[0][0], ws[0][1].qn))
    return r


def rule_failures_propagate(prog, fixture=False):
    r = RuleResult("R-C09-4", "bool results of functions on the decoding path are never discarded, and the exit "
                   "status variable only ever moves to a non-zero constant", floor=0 if fixture else 10)
    # functions on the decoding path: reachable from decode_file, plus decode_file itself
    roots = [f for f in prog.functions.values() if f.qn in ("decode_file",)]
    if not roots and not fixture:
        raise AnalysisBroken("anchor decode_file not found")
    onpath = set()
    st = list(roots)
    while st:
        f = st.pop()
        if f.uid in onpath:
            continue
        onpath.add(f.uid)
        for n in f.walk():
            if n.get("k") == "CallExpr" and n.get("fn"):
                st.extend(prog.resolve(f, n["fn"]))
            if n.get("k") == "DeclRefExpr" and n.get("dk") == "Function" and n.get("fn"):
                st.extend(prog.resolve(f, n["fn"]))
    boolfns = set(f.key for f in prog.functions.values() if f.uid in onpath and f.raw.get("ret") in ("_Bool", "bool"))
    for fn in prog.functions.values():
        k = 0
        for n in fn.walk():
            if n.get("k") != "CallExpr":
                continue
            tgt_keys = set()
            if n.get("fn") in boolfns:
                tgt_keys.add(n["fn"])
            elif not n.get("fn"):
                # call through a function pointer: callee expression type returns bool
                ce = strip(n["c"][0]) if n.get("c") else None
                if ce is not None and "_Bool (" in (ce.get("ct") or ce.get("t") or "") and fn.uid in onpath:
                    tgt_keys.add("<indirect>")
            if not tgt_keys:
                continue
            k += 1
            p = fn.parent(n)
            while p is not None and p.get("k") in ("ParenExpr", "ImplicitCastExpr"):
                p = fn.parent(p)
            discarded = p is None or p.get("k") in ("CompoundStmt", "IfStmt", "ForStmt", "WhileStmt", "DoStmt",
                                                    "CaseStmt", "DefaultStmt", "LabelStmt", "SwitchStmt") and \
                not (p.get("k") == "IfStmt" and _contains(p["c"][p["parts"]["cond"]], n)) and \
                not (p.get("k") in ("WhileStmt", "ForStmt") and "cond" in p.get("parts", {}) and _contains(p["c"][p["parts"]["cond"]], n))
            if p is not None and p.get("k") == "CStyleCastExpr" and p.get("t") == "void":
                discarded = True
            name = notpl(n.get("q") or "indirect")
            key = "%s::%s::%s#%d" % (fn.relfile(), fn.qn, name, k)
            r.add(key, fn.loc(n), not discarded, "result used" if not discarded else
                  "the bool result of %s is discarded: a decoding failure would not reach the exit status" % name)
    # sticky exit status
    for fn in prog.functions.values():
        if fn.qn not in ("wrapped_main", "main"):
            continue
        status_vars = {}
        for n in fn.walk():
            if n.get("k") == "ReturnStmt" and n.get("c"):
                e = strip_all(n["c"][0])
                if e.get("k") == "DeclRefExpr" and e.get("dk") == "Var":
                    status_vars[e["d"]] = e["n"]
        for d, nm in status_vars.items():
            for n in fn.walk():
                if n.get("k") in ("BinaryOperator", "CompoundAssignOperator") and n.get("op") in flow.ASSIGN_OPS:
                    t = strip_all(n["c"][0])
                    if t.get("k") == "DeclRefExpr" and t.get("d") == d:
                        vs = c07.value_set(prog, fn, n["c"][1]) if n.get("op") == "=" else None
                        key = "%s::%s::%s=%s" % (fn.relfile(), fn.qn, nm, show(n["c"][1])[:40])
                        ok = vs is not None and 0 not in vs
                        r.add(key, fn.loc(n), ok, "stores a non-zero constant" if ok else
                              "`%s` can be set back to 0 here (%s): a failure on an earlier input file is forgotten" %
                              (nm, show(n)))
    return r


# ---------------------------------------------------------------- R-C09-5
def rule_table_contradiction(prog, fixture=False):
    r = RuleResult("R-C09-5", "a token byte that base_map declares unassigned (BAD) for a dialect is not made "
                   "valid by a later unconditional override in build_mapping", floor=0 if fixture else 3)
    table = None
    for gid, gl in prog.globals.items():
        if gl["n"] == "base_map" and gl.get("init"):
            table = gl
    bm = prog.fn("build_mapping", required=not fixture)
    if table is None or not bm:
        if fixture:
            return r
        raise AnalysisBroken("anchors base_map / build_mapping not found")
    bm = bm[0]
    rows = {}
    for row in strip_all(table["init"]).get("c", []):
        row = strip_all(row)
        cs = row.get("c", [])
        if len(cs) < 2:
            continue
        tok = folded(cs[0])
        cols = []
        for e in strip_all(cs[1]).get("c", []):
            s = strip_all(e)
            if s is None:
                cols.append(None)
            elif s.get("k") == "StringLiteral":
                cols.append(("str", s.get("s")))
            elif s.get("k") == "DeclRefExpr":
                cols.append(("sym", s.get("n")))
            else:
                cols.append(("?", show(s)))
        if tok is not None:
            rows[tok] = cols        # later rows win, as in the loop
    dialects = prog.enums.get("Dialect")
    if not dialects:
        raise AnalysisBroken("enum Dialect not found")
    dvals = {}
    for c in dialects["consts"]:
        # skip count/alias enumerators (NUM_*, MIN_*, LAST_*): keep the first name of each value
        if c["n"].startswith(("NUM_", "MIN_", "MAX_", "LAST_")) or c["v"] in dvals.values():
            continue
        dvals[c["n"]] = c["v"]
    dparam = bm.params[0]["d"]
    # base_dialect per dialect: interpret `base_dialect = X` under `dialect == Y` tests
    base_var = None
    for n in bm.walk():
        if n.get("k") == "VarDecl" and n.get("n") == "base_dialect":
            base_var = n["d"]

    def eval_cond(e, dval):
        e = strip_all(e)
        k = e.get("k")
        if k == "BinaryOperator" and e.get("op") in ("||", "&&"):
            a, b = eval_cond(e["c"][0], dval), eval_cond(e["c"][1], dval)
            if a is None or b is None:
                return None
            return (a or b) if e["op"] == "||" else (a and b)
        if k == "BinaryOperator" and e.get("op") in ("==", "!="):
            l, rr = strip_all(e["c"][0]), strip_all(e["c"][1])
            for a, b in ((l, rr), (rr, l)):
                if a.get("k") == "DeclRefExpr" and a.get("d") == dparam and folded(b) is not None:
                    res = (dval == folded(b))
                    return res if e["op"] == "==" else (not res)
        return None

    def base_of(dval):
        val = dval
        for n in bm.walk():
            if n.get("k") == "IfStmt":
                c = eval_cond(n["c"][n["parts"]["cond"]], dval)
                if c:
                    for x in walk(n["c"][n["parts"]["then"]]):
                        if x.get("k") == "BinaryOperator" and x.get("op") == "=" and \
                                strip_all(x["c"][0]).get("d") == base_var and folded(x["c"][1]) is not None:
                            return folded(x["c"][1])
        return val
    # overrides: top-level statements `m->base[K] = E` (optionally under `if (cond on dialect)`)
    top = bm.body.get("c", [])
    seen_loop = False
    for st in top:
        if st.get("k") in ("ForStmt",):
            seen_loop = True
            continue
        if not seen_loop:
            continue
        guard = None
        asg = st
        if st.get("k") == "IfStmt" and "else" not in st.get("parts", {}):
            guard = st["c"][st["parts"]["cond"]]
            asg = st["c"][st["parts"]["then"]]
            if asg.get("k") == "CompoundStmt" and len(asg.get("c", [])) == 1:
                asg = asg["c"][0]
        asg = strip_all(asg)
        if asg is None or asg.get("k") != "BinaryOperator" or asg.get("op") != "=":
            continue
        lhs = strip_all(asg["c"][0])
        if lhs.get("k") != "ArraySubscriptExpr":
            continue
        arr = strip_all(lhs["c"][0])
        if arr.get("k") != "MemberExpr" or arr.get("n") != "base":
            continue
        K = folded(lhs["c"][1])
        if K is None or K not in rows:
            continue
        for dname, dval in sorted(dvals.items(), key=lambda kv: kv[1]):
            if guard is not None and not eval_cond(guard, dval):
                continue
            col = base_of(dval)
            cols = rows[K]
            if col is None or col >= len(cols) or cols[col] != ("sym", "invalid"):
                continue
            # value assigned under this dialect
            e = strip_all(asg["c"][1])
            while e is not None and e.get("k") == "ConditionalOperator":
                c = eval_cond(e["c"][0], dval)
                if c is None:
                    break
                e = strip_all(e["c"][1] if c else e["c"][2])
            still_invalid = e is not None and e.get("k") == "DeclRefExpr" and e.get("n") == "invalid"
            key = "basic/tokens.c::build_mapping::token0x%02X/%s" % (K, dname)
            r.add(key, bm.loc(asg), still_invalid, "stays unassigned" if still_invalid else
                  "base_map declares byte 0x%02X unassigned (BAD) for dialect %s, but the override `%s` makes it "
                  "a valid token (%s): such a byte outside a string is listed instead of rejected" %
                  (K, dname, show(asg)[:60], show(e)))
    # every BAD cell that no override touches counts as a (trivially) consistent instance
    nbad = sum(1 for cols in rows.values() for c in cols if c == ("sym", "invalid"))
    r.add("basic/tokens.c::base_map::BAD-cells", "basic/tokens.c", True, "%d BAD cells in %d rows" % (nbad, len(rows)))
    return r


def run(ctx):
    prog = ctx.prog("basic", "N")
    return [rule_eof_before_use(prog), rule_short_fread(prog), rule_static_state(prog),
            rule_failures_propagate(prog), rule_table_contradiction(prog)]


SELFTESTS = [
    (rule_eof_before_use, ["c09_bad.c"], ["c09_good.c"], "ch"),
    (rule_short_fread, ["c09_bad.c"], ["c09_good.c"], "fread"),
    (rule_static_state, ["c09_bad.c"], ["c09_good.c"], "carry"),
    (rule_failures_propagate, ["c09_bad.c"], ["c09_good.c"], "exitval"),
]
