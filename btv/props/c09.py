"""C09 - truncated / ill-formed programs are rejected, nothing is invented.

R-C09-1  the int result of getc/fgetc is compared with EOF before any other
         use (no byte is fabricated from EOF); on the EOF edge the function
         leaves without decoding further, and returns true only under an
         enumerated clean-end justification
R-C09-2  a short fread never reaches the line decoder: the branch on
         `nread < len` leaves the function with a failure on its short edge
         and dominates every decode_line call
R-C09-3  mutable static state census: the only written objects with static
         storage are line buffers filled by fread (hence freshly read, R-C09-2)
R-C09-4  no failure is dropped: bool results of the decoding functions are
         never discarded, and the exit status variable is sticky (every
         assignment after initialisation stores a non-zero constant)
R-C09-5  a byte the token table declares unassigned stays unassigned
         (table/override contradiction)
"""
from ..runner import RuleResult
from ..facts import AnalysisBroken
from ..model import strip, strip_all, walk, show, notpl, is_call, call_args
from .. import flow
from ..flow import Guards, canon, folded, same_expr, atomise
from . import c07

EXPLANATION = (
    "Static decision of the structural root causes behind C09, for every input and truncation point: EOF is tested "
    "before a getc result is used; a short fread cannot reach the line decoder (so no stale buffer content is "
    "ever printed); the only mutable static state is the fread-filled line buffers; decoding failures always reach "
    "the exit status, which is sticky across input files; and no token the table declares unassigned is made "
    "valid by a later override.  The prefix property itself (output of a truncated file is a prefix of the intact "
    "listing) is a runtime relation and is not decided beyond these causes.")
ASSUMPTIONS = ["C stdio semantics of getc/fgetc/fread return values"]

GETC = {"getc", "fgetc", "getchar", "_IO_getc", "getc_unlocked", "fgetc_unlocked"}
INPUTS = GETC | {"fread"}
DECODERS = {"decode_line"}


def _callee(n):
    return notpl(n.get("q") or "") if n.get("k") == "CallExpr" else None


def _input_functions(prog):
    return [f for f in prog.functions.values() if any(_callee(n) in INPUTS for n in f.walk())]


def _always_false_functions(prog):
    """Repo functions all of whose returns are the constant false (diagnostic helpers)."""
    out = set()
    for f in prog.functions.values():
        rs = [n for n in f.walk() if n.get("k") == "ReturnStmt"]
        if rs and all(r.get("c") and folded(r["c"][0]) == 0 for r in rs):
            out.add(f.key)
    return out


def _is_failure_return(prog, fn, ret, falsefns):
    if not ret.get("c"):
        return False
    e = strip_all(ret["c"][0])
    if folded(e) == 0:
        return True
    if e.get("k") == "CallExpr" and e.get("fn") in falsefns:
        return True
    return False


def rule_eof_before_use(prog, fixture=False):
    r = RuleResult("R-C09-1", "a getc/fgetc result is compared with EOF before any other use; on the EOF edge "
                   "the function leaves without reading or decoding further, returning true only when nothing "
                   "was consumed yet or the end-of-program marker was already recognised", floor=0 if fixture else 8)
    falsefns = _always_false_functions(prog)
    for fn in _input_functions(prog):
        g = Guards(fn)
        cfg = fn.cfg
        # variables assigned from getc
        sites = []
        for n in fn.walk():
            if n.get("k") == "BinaryOperator" and n.get("op") == "=":
                rhs = strip_all(n["c"][1])
                if rhs is not None and _callee(rhs) in GETC:
                    tgt = strip_all(n["c"][0])
                    if tgt.get("k") == "DeclRefExpr":
                        sites.append((n, tgt["d"], tgt["n"]))
            elif n.get("k") == "VarDecl" and n.get("c"):
                rhs = strip_all(n["c"][0])
                if rhs is not None and _callee(rhs) in GETC:
                    sites.append((n, n["d"], n["n"]))
        vars_ = {}
        for n, d, nm in sites:
            vars_.setdefault(d, nm)
        # (0) the variable is wide enough to tell EOF from every byte value: it has (at least) the width of int
        for d, nm in vars_.items():
            decl = None
            for v in fn.walk():
                if v.get("k") == "VarDecl" and v.get("d") == d:
                    decl = v
            for p_ in fn.params:
                if p_["d"] == d:
                    decl = p_
            w = (decl or {}).get("w")
            if decl is not None and w is not None:
                okw = w >= 32
                r.add("%s::%s::%s:width" % (fn.relfile(), fn.qn, nm), fn.loc(decl) if decl.get("l") else
                      "%s:%d" % (fn.relfile(), fn.line), okw, "int-sized" if okw else
                      "`%s` receives a getc result but is only %d bits wide (%s): the data byte 0xFF and EOF become "
                      "indistinguishable, so a program byte is taken for end of file (or EOF for data)" %
                      (nm, w, decl.get("t")))
        # (a) every read of the variable is an EOF comparison or dominated by `v != EOF`
        for d, nm in vars_.items():
            uses = 0
            bad = None
            for u in fn.walk():
                if u.get("k") != "DeclRefExpr" or u.get("d") != d:
                    continue
                p = fn.parent(u)
                # skip the assignment target itself
                if p is not None and p.get("k") == "BinaryOperator" and p.get("op") == "=" and strip_all(p["c"][0]) is u:
                    continue
                # the comparison with EOF
                q = p
                while q is not None and q.get("k") in ("ImplicitCastExpr", "ParenExpr"):
                    q = fn.parent(q)
                if q is not None and q.get("k") == "BinaryOperator" and q.get("op") in ("==", "!="):
                    other = q["c"][1] if _contains(q["c"][0], u) else q["c"][0]
                    if folded(other) == -1:
                        continue
                uses += 1
                cs = g.cmps(u)
                if cs is None:
                    continue
                ok = any(rel == "!=" and strip_all(l).get("k") == "DeclRefExpr" and strip_all(l).get("d") == d
                         and folded(rr) == -1 for l, rel, rr in cs)
                if not ok and bad is None:
                    bad = u
            key = "%s::%s::%s" % (fn.relfile(), fn.qn, nm)
            r.add(key, fn.loc(bad) if bad is not None else "%s:%d" % (fn.relfile(), fn.line), bad is None,
                  ("%d uses, all after the EOF test" % uses) if bad is None else
                  "`%s` (a getc result) is used before it has been compared with EOF: at end of file the value "
                  "EOF is treated as a data byte (0xFF)" % nm)
        # (b) EOF edges leave the function; return true needs a justification
        for bid in cfg.reachable():
            b = cfg.blocks[bid]
            if b.get("cond") is None or len(cfg.succ[bid]) != 2:
                continue
            cond = fn.nodes.get(b["cond"])
            for outcome, succ in ((True, cfg.succ[bid][0]), (False, cfg.succ[bid][1])):
                if succ < 0:
                    continue
                eofvar = None
                for f in atomise(cond, outcome):
                    if f[0] == "C" and f[2] == "==" and folded(f[3]) == -1:
                        l = strip_all(f[1])
                        if l.get("k") == "DeclRefExpr" and l.get("d") in vars_:
                            eofvar = l
                if eofvar is None:
                    continue
                key = "%s::%s::eof-edge@%s" % (fn.relfile(), fn.qn, _ordinal(fn, cond))
                # explore from succ until returns; flag decoding/input calls
                problem = None
                seen, st = set(), [succ]
                rets = []
                while st and problem is None:
                    x = st.pop()
                    if x in seen or x < 0:
                        continue
                    seen.add(x)
                    for n in flow.element_nodes(fn, x):
                        c = _callee(n)
                        if c in INPUTS or c in DECODERS:
                            problem = "after end of input was seen the function goes on to call %s (%s)" % (c, fn.loc(n))
                            break
                        if n.get("k") == "ReturnStmt":
                            rets.append(n)
                    if x == cfg.exit:
                        continue
                    if any(n.get("k") == "ReturnStmt" for n in flow.element_nodes(fn, x)):
                        continue
                    st.extend(cfg.succ[x])
                if problem is None:
                    for ret in rets:
                        if _is_failure_return(prog, fn, ret, falsefns):
                            continue
                        # clean end: needs a justification among the facts at the return
                        just = _clean_end_justified(fn, g, ret)
                        if isinstance(just, tuple):
                            # "nothing consumed yet" is only a justification if the flag is cleared before the
                            # next time it is consulted, on every path that consumed a byte
                            if _consumed_while_flag_set(prog, fn, just[1], ret, set(vars_)):
                                problem = "end of input leads to a success return (%s) justified by the flag `%s`, but " \
                                          "some path consumes input and comes back here without clearing the flag: a " \
                                          "file cut short there is accepted as complete" % (fn.loc(ret), just[2])
                            continue
                        if not just and not _consumed_while_flag_set(prog, fn, None, ret, set(vars_)):
                            continue        # no byte has been consumed on any path to this return: a clean end
                        if not just and _marker_consumed_on_all_paths(fn, ret):
                            continue        # every path here passed a successful expect_char
                        if not just:
                            # `return flag || always_false()`: success exactly when the nothing-consumed flag is set
                            re_ = strip_all(ret["c"][0])
                            if re_ is not None and re_.get("k") == "BinaryOperator" and re_.get("op") == "||":
                                l_, r_ = strip_all(re_["c"][0]), strip_all(re_["c"][1])
                                if l_ is not None and l_.get("k") == "DeclRefExpr" and _is_nothing_consumed_flag(fn, g, l_) and \
                                        r_ is not None and r_.get("k") == "CallExpr" and r_.get("fn") in falsefns:
                                    if not _consumed_while_flag_set(prog, fn, l_["d"], ret, set(vars_)):
                                        continue
                        if not just:
                            problem = "end of input leads to a success return (%s) without a clean-end justification " \
                                      "(nothing consumed yet / end marker already recognised)" % fn.loc(ret)
                r.add(key, fn.loc(cond), problem is None, problem or "EOF edge leaves the function with a failure "
                      "or a justified clean end")
    return r


def _contains(root, node):
    return any(x is node for x in walk(root))


def _ordinal(fn, node):
    k = 0
    for n in fn.walk():
        if n is node:
            return k
        if n.get("k") == node.get("k"):
            k += 1
    return k


def _is_nothing_consumed_flag(fn, g, ref):
    """A bool local that starts true and is only ever set to false, each time after a
    byte has successfully been read (a `!= EOF` fact holds there)."""
    did = ref.get("d")
    init_true = False
    for v in fn.walk():
        if v.get("k") == "VarDecl" and v.get("d") == did:
            init_true = bool(v.get("c")) and folded(v["c"][0]) == 1
    if not init_true:
        return False
    for n in fn.walk():
        if n.get("k") in ("BinaryOperator", "CompoundAssignOperator") and n.get("op") in flow.ASSIGN_OPS and \
                strip_all(n["c"][0]).get("d") == did:
            if not (n.get("op") == "=" and folded(n["c"][1]) == 0):
                return False
            cs = g.cmps(n) or []
            if not any(rel == "!=" and folded(rr) == -1 for l, rel, rr in cs):
                return False
    return True


def _consumed_while_flag_set(prog, fn, did, ret, getc_vars):
    """True if the return `ret` can be reached with the nothing-consumed flag `did` still set although a byte has
    been consumed: may-analysis over the CFG.  State (dirty, before): dirty = a byte may have been consumed since
    the flag was last cleared (or since entry); before = dirty as it was ahead of the most recent getc, which is
    what holds on that getc's EOF edge (a getc that returns EOF consumed nothing)."""
    cfg = fn.cfg
    reach = cfg.reachable()
    consuming = set()
    for f in prog.functions.values():
        if any(_callee(n) in INPUTS for n in f.walk()):
            consuming.add(f.key)

    def step(st, x):
        # "C": the flag has been cleared (it is never set again: _is_nothing_consumed_flag) - nothing to track
        c = _callee(x)
        if c in GETC:
            return {e if e == "C" else (True, e[0]) for e in st}
        if c in INPUTS or (x.get("k") == "CallExpr" and x.get("fn") in consuming):
            return {e if e == "C" else (True, True) for e in st}
        if did is not None and x.get("k") in ("BinaryOperator", "CompoundAssignOperator") and x.get("op") in flow.ASSIGN_OPS and \
                strip_all(x["c"][0]).get("d") == did:
            return {"C"}
        return st

    def edge(p, s, st):
        b = cfg.blocks[p]
        if b.get("cond") is None or len(cfg.succ[p]) != 2:
            return st
        cond = fn.nodes.get(b["cond"])
        outcome = True if cfg.succ[p][0] == s else False
        if cfg.succ[p][0] == cfg.succ[p][1]:
            return st
        for f in atomise(cond, outcome):
            if f[0] == "C" and f[2] == "==" and folded(f[3]) == -1:
                l = strip_all(f[1])
                if l.get("k") == "DeclRefExpr" and l.get("d") in getc_vars:
                    return {e if e == "C" else (e[1], e[1]) for e in st}
        return st
    inn = {b: set() for b in cfg.blocks}
    inn[cfg.entry] = {(False, False)}
    work = [cfg.entry]
    outs = {}
    while work:
        b = work.pop()
        st = set(inn[b])
        for x in flow.element_nodes(fn, b):
            st = step(st, x)
        outs[b] = st
        for s_ in cfg.succ[b]:
            if s_ < 0 or s_ not in reach:
                continue
            ns = edge(b, s_, st)
            if not ns <= inn[s_]:
                inn[s_] |= ns
                work.append(s_)
    where = fn.where()
    pos = where.get(ret["i"])
    if pos is None:
        return False
    st = set(inn[pos[0]])
    for e in cfg.blocks[pos[0]]["e"][:pos[1]]:
        x = fn.nodes.get(e) if isinstance(e, int) else None
        if x is not None:
            st = step(st, x)
    return any(e != "C" and e[0] for e in st)


def _marker_consumed_on_all_paths(fn, ret):
    """On every path from the function's entry to `ret` some expect_char call has returned true (the end marker, or
    part of it, was consumed).  May-analysis of (seen a successful expect_char?, known value of a loop counter): the
    counter's constant start decides the loop condition of the first pass, so a table-driven
    `for (i = 0; i < 2; ++i) if (!expect_char(f, marker[i])) return false;` is seen to run at least once."""
    from .c06 import _ceval, _NoValue
    cfg = fn.cfg
    counters = {}
    for lp in fn.walk():
        if lp.get("k") == "ForStmt" and "init" in lp.get("parts", {}):
            for v in walk(lp["c"][lp["parts"]["init"]]):
                if v.get("k") == "VarDecl" and v.get("c") and folded(v["c"][0]) is not None:
                    counters[v["d"]] = folded(v["c"][0])
    if not any(_callee(n) == "expect_char" for n in fn.walk()):
        return False

    def step(st, x):
        ok, iv = st
        if x.get("k") == "DeclStmt":
            for v in x.get("c", []):
                if v.get("k") == "VarDecl" and v.get("d") in counters:
                    iv = (v["d"], counters[v["d"]])
        if x.get("k") == "UnaryOperator" and x.get("op") in ("++", "--") and iv is not None and \
                (strip_all(x["c"][0]) or {}).get("d") == iv[0]:
            nv = iv[1] + (1 if x["op"] == "++" else -1)
            iv = (iv[0], nv) if abs(nv) < 64 else None
        elif x.get("k") in ("BinaryOperator", "CompoundAssignOperator") and x.get("op") in flow.ASSIGN_OPS and iv is not None and \
                (strip_all(x["c"][0]) or {}).get("d") == iv[0]:
            iv = None
        return {(ok, iv)}

    def edge(p, s_, st):
        ok, iv = st
        b = cfg.blocks[p]
        if b.get("cond") is None or len(cfg.succ[p]) != 2 or cfg.succ[p][0] == cfg.succ[p][1]:
            return {st}
        cond = fn.nodes.get(b["cond"])
        outcome = cfg.succ[p][0] == s_
        if iv is not None:
            try:
                v = _ceval(fn, cond, lambda e: e.get("k") == "DeclRefExpr" and e.get("d") == iv[0], iv[1])
                if bool(v) != outcome:
                    return set()
            except _NoValue:
                pass
        for f in atomise(cond, outcome):
            if f[0] == "T" and f[2] is True:
                a = strip_all(f[1])
                if a is not None and a.get("k") == "CallExpr" and _callee(a) == "expect_char":
                    ok = True
        return {(ok, iv)}
    inn, at = flow.may_states(fn, {(False, None)}, step, edge)
    sts = at(ret)
    return bool(sts) and all(ok for ok, _iv in sts)


def _clean_end_justified(fn, g, ret):
    fs = g.at(ret)
    if fs is None:
        return True
    for k in fs:
        # `empty` still true: not a single byte was consumed
        if k[0] == "T" and k[2] is True:
            n = strip_all(g.rep[k][1])
            if n.get("k") == "DeclRefExpr" and _is_nothing_consumed_flag(fn, g, n):
                return ("nothing consumed", n["d"], n.get("n"))
            if n.get("k") == "CallExpr" and _callee(n) == "expect_char":
                return "end marker recognised"
        if k[0] == "C" and k[2] == "==":
            f = g.rep[k]
            for a, b in ((f[1], f[3]), (f[3], f[1])):
                if folded(b) == 0xFF and strip_all(a).get("k") == "DeclRefExpr":
                    return "0xFF marker byte recognised"
    return None


def _fread_sites(prog):
    """(fn, fread call, result decl id or None, requested length expr, buffer expr)"""
    for fn in prog.functions.values():
        for n in fn.walk():
            if _callee(n) != "fread":
                continue
            args = call_args(n)
            if len(args) < 4:
                continue
            size, count = args[1], args[2]
            # fread(buf, 1, n, f): the result counts bytes.  The transposed form fread(buf, n, 1, f) returns 0 both for
            # a short read and for n == 0 (an empty line body), so it cannot be tested correctly
            want = count if folded(size) == 1 else None
            var = None
            p = fn.parent(n)
            while p is not None and p.get("k") in ("ImplicitCastExpr", "ParenExpr", "CStyleCastExpr"):
                p = fn.parent(p)
            if p is not None and p.get("k") == "BinaryOperator" and p.get("op") == "=" and strip_all(p["c"][1]) is n:
                t = strip_all(p["c"][0])
                var = t.get("d") if t.get("k") == "DeclRefExpr" else None
            elif p is not None and p.get("k") == "VarDecl":
                var = p["d"]
            yield fn, n, var, want, args[0]


def _short_read_branch(fn, call, var, want):
    """(block, short successor, full successor) of the branch comparing the fread result with the length."""
    cfg = fn.cfg

    def is_res0(e):
        e = strip_all(e)
        return e is call or (var is not None and e is not None and e.get("k") == "DeclRefExpr" and e.get("d") == var)
    # a bool that holds the comparison:  short_read = got < want;  ...  while (... && !short_read)
    flags = {}
    for n in fn.walk():
        tgt = rhs = None
        if n.get("k") == "BinaryOperator" and n.get("op") == "=":
            tgt, rhs = strip_all(n["c"][0]), strip_all(n["c"][1])
        elif n.get("k") == "VarDecl" and n.get("c"):
            tgt, rhs = {"k": "DeclRefExpr", "d": n["d"]}, strip_all(n["c"][0])
        if tgt is None or rhs is None or tgt.get("k") != "DeclRefExpr" or rhs.get("k") != "BinaryOperator":
            continue
        l, rel, rr = rhs["c"][0], rhs.get("op"), rhs["c"][1]
        if is_res0(rr) and rel in flow.SWAP:
            l, rel, rr = rr, flow.SWAP[rel], l
        if is_res0(l) and rel in ("<", "!=") and same_expr(rr, want):
            flags[tgt["d"]] = True          # true means short
        if is_res0(l) and rel in (">=", "==") and same_expr(rr, want):
            flags[tgt["d"]] = False         # true means full
    for fd, short_when_true in flags.items():
        if sum(1 for x in fn.walk() if x.get("k") != "VarDecl" and x.get("k") != "DeclStmt"
               for d_, _ in flow.written_decls(x) if d_ == fd) > 1:
            continue
        for bid in cfg.reachable():
            b = cfg.blocks[bid]
            if b.get("cond") is None or len(cfg.succ[bid]) != 2:
                continue
            cond = fn.nodes.get(b["cond"])
            cs = strip_all(cond)
            if cs is not None and cs.get("k") == "BinaryOperator" and cs.get("op") in ("&&", "||"):
                cond = cs["c"][1]       # clang ends the block of the right operand with the whole && / ||: what
                                        # decides this block's two exits is the right operand
            for outcome, si in ((True, 0), (False, 1)):
                for f in atomise(cond, outcome):
                    if f[0] == "T" and (strip_all(f[1]) or {}).get("d") == fd and f[2] is short_when_true:
                        return bid, cfg.succ[bid][si], cfg.succ[bid][1 - si]
    for bid in cfg.reachable():
        b = cfg.blocks[bid]
        if b.get("cond") is None or len(cfg.succ[bid]) != 2:
            continue
        cond = fn.nodes.get(b["cond"])
        for outcome, si in ((True, 0), (False, 1)):
            for f in atomise(cond, outcome):
                if f[0] != "C":
                    continue
                l, rel, rr = f[1], f[2], f[3]

                def is_res(e):
                    e = strip_all(e)
                    return e is call or (var is not None and e.get("k") == "DeclRefExpr" and e.get("d") == var)
                if is_res(rr):
                    l, rel, rr = rr, flow.SWAP[rel], l
                if is_res(l) and rel in ("<", "!=") and same_expr(rr, want):
                    return bid, cfg.succ[bid][si], cfg.succ[bid][1 - si]
    return None


def rule_short_fread(prog, fixture=False):
    r = RuleResult("R-C09-2", "for every fread into a line buffer, the branch on `result < requested length` "
                   "returns a failure on its short edge; every decode_line call is dominated by the full-read "
                   "edge, directly or through a reader helper that reports success only on that edge",
                   floor=0 if fixture else 1)
    falsefns = _always_false_functions(prog)
    readers = {}      # function key -> index of its buffer parameter, for helpers proven to fill it or fail
    sites = list(_fread_sites(prog))
    full_edges = {}   # fn.uid -> [(full successor block, buffer expr)]
    for fn, call, var, want, bufexpr in sites:
        cfg = fn.cfg
        key = "%s::%s::fread(%s)" % (fn.relfile(), fn.qn, show(bufexpr))
        if want is None:
            r.add(key, fn.loc(call), False, "fread's element size/count are not `1, length`: with the length as element size "
                  "the result is 0 for a short read *and* for a zero-length body (a line without tokens), so a "
                  "well-formed empty line is reported as premature end of file")
            continue
        br = _short_read_branch(fn, call, var, want)
        if br is None:
            r.add(key, fn.loc(call), False, "no branch compares the fread result with the requested length %s" % show(want))
            continue
        bid, short_s, full_s = br
        problem = None
        seen, st = set(), [short_s]
        while st and problem is None:
            x = st.pop()
            if x in seen or x < 0:
                continue
            seen.add(x)
            if x == cfg.exit:
                continue
            ret_here = False
            for e in flow.element_nodes(fn, x):
                c = _callee(e)
                if c in DECODERS or c in INPUTS:
                    problem = "after a short read the function can still reach %s (%s): the rest of the line " \
                              "would be taken from whatever the buffer held before" % (c, fn.loc(e))
                    break
                if e.get("k") == "ReturnStmt":
                    ret_here = True
                    if not _is_failure_return(prog, fn, e, falsefns):
                        problem = "a short read can end in a success return (%s)" % fn.loc(e)
            if not ret_here:
                st.extend(cfg.succ[x])
        r.add(key, fn.loc(call), problem is None, problem or "short edge returns failure")
        if problem is None:
            full_edges.setdefault(fn.uid, []).append((full_s, bufexpr, bid))
            # a reader helper: the buffer is a parameter and every success return lies on the full edge
            b = strip_all(bufexpr)
            if b.get("k") == "DeclRefExpr" and b.get("dk") == "ParmVar":
                idx = [i for i, p_ in enumerate(fn.params) if p_["d"] == b.get("d")]
                dom = cfg.dominators()
                ok_helper = bool(idx)
                for e in fn.walk():
                    if e.get("k") == "ReturnStmt" and not _is_failure_return(prog, fn, e, falsefns):
                        pos = fn.where().get(e["i"])
                        if not (pos and full_s in dom.get(pos[0], set())):
                            ok_helper = False
                if ok_helper:
                    readers[fn.key] = idx[0]
    # every decode_line call sees a freshly and fully read buffer
    for fn in prog.functions.values():
        g = None
        k = 0
        for e in fn.walk():
            if _callee(e) not in DECODERS:
                continue
            k += 1
            key = "%s::%s::decode_line#%d" % (fn.relfile(), fn.qn, k)
            pos = fn.where().get(e["i"])
            dom = fn.cfg.dominators()
            ok = False
            why = ""
            for full_s, bufexpr, bid in full_edges.get(fn.uid, []):
                if _passes_uses_buffer(e, bufexpr) and pos and full_s >= 0 and full_s in dom.get(pos[0], set()):
                    ok, why = True, "dominated by the full-read edge of fread"
            if not ok:
                g = g or Guards(fn)
                for bid2 in fn.cfg.reachable():
                    b2 = fn.cfg.blocks[bid2]
                    if b2.get("cond") is None or len(fn.cfg.succ[bid2]) != 2:
                        continue
                    cond = fn.nodes.get(b2["cond"])
                    for outcome, si in ((True, 0), (False, 1)):
                        for f in atomise(cond, outcome):
                            if f[0] == "T" and f[2] is True:
                                c = strip_all(f[1])
                                if c.get("k") == "CallExpr" and c.get("fn") in readers:
                                    a = call_args(c)
                                    bi = readers[c["fn"]]
                                    s_ = fn.cfg.succ[bid2][si]
                                    if bi < len(a) and _passes_uses_buffer(e, a[bi]) and pos and s_ in dom.get(pos[0], set()):
                                        ok, why = True, "dominated by the success of reader %s" % _callee(c)
            # decode_line on data that does not come from fread at all (e.g. tests) is out of scope:
            # only flag when some fread fills a buffer that this call receives
            feeds = any(_passes_uses_buffer(e, bx) for _, _, _, _, bx in [s for s in sites if s[0] is fn]) or \
                any(c2.get("k") == "CallExpr" and c2.get("fn") in readers and
                    readers[c2["fn"]] < len(call_args(c2)) and _passes_uses_buffer(e, call_args(c2)[readers[c2["fn"]]])
                    for c2 in fn.walk())
            if feeds or ok:
                r.add(key, fn.loc(e), ok, why if ok else
                      "decode_line is given a buffer that is not known to have been completely read: after a short "
                      "read it would decode stale data")
    return r


def _passes_uses_buffer(call, buf):
    b = strip_all(buf)
    return any(x.get("k") == "DeclRefExpr" and x.get("d") == b.get("d") for a in call_args(call) for x in walk(a))


def rule_static_state(prog, fixture=False):
    r = RuleResult("R-C09-3", "objects with static storage that the program writes are only line buffers filled "
                   "by fread; nothing else can carry data from one input file to the next",
                   floor=0 if fixture else 2)
    # collect non-const statics: globals + static locals
    statics = {}
    for gid, gl in prog.globals.items():
        if gl.get("const") or gl.get("constexpr"):
            continue
        statics[(gl["q"], gid)] = gl
    written = {}
    for fn in prog.functions.values():
        for n in fn.walk():
            tgt = None
            how = None
            if n.get("k") in ("BinaryOperator", "CompoundAssignOperator") and n.get("op") in flow.ASSIGN_OPS:
                tgt, how = n["c"][0], "assignment"
            elif n.get("k") == "UnaryOperator" and n.get("op") in ("++", "--"):
                tgt, how = n["c"][0], n["op"]
            elif n.get("k") == "CallExpr":
                c = _callee(n)
                for i, a in enumerate(call_args(n)):
                    s = strip_all(a)
                    # address of / array decay of a static passed to a function taking non-const pointer
                    base = s
                    if base is not None and base.get("k") == "UnaryOperator" and base.get("op") == "&":
                        base = strip_all(base["c"][0])
                    if base is not None and base.get("k") == "DeclRefExpr" and (base.get("g") or base.get("sl")):
                        info = prog.callees.get(n.get("fn"), {})
                        ps = info.get("params", [])
                        pt = ps[i] if i < len(ps) else ""
                        if "*" in pt and "const" not in pt.split("*")[0]:
                            written.setdefault(base.get("q") or base.get("n"), []).append(("passed to %s" % c, fn, n, c, i))
            if tgt is not None:
                x = strip_all(tgt)
                while x is not None and x.get("k") in ("ArraySubscriptExpr", "MemberExpr", "UnaryOperator"):
                    x = strip_all(x["c"][0]) if x.get("c") else None
                if x is not None and x.get("k") == "DeclRefExpr" and (x.get("g") or x.get("sl")):
                    written.setdefault(x.get("q") or x.get("n"), []).append((how, fn, n, None, None))
    for (q, gid), gl in sorted(statics.items()):
        ws = written.get(q, [])
        key = "static::%s" % gid.split("|")[0] + ("@" + gid.split("|")[1].split("/")[-1].split(":")[0])
        where = gid.split("|")[1]
        if not ws:
            r.add(key, where, True, "never written", nontrivial=False)
            continue
        ok = all((w[3] == "fread" and w[4] == 0) or _only_fread_destination(prog, w[1], w[2], w[4]) for w in ws)
        r.add(key, where, ok, "written only by fread (destination buffer)" if ok else
              "mutable static state `%s` is written by %s in %s: data can leak from one input file into the next" %
              (q, ws[0][0], ws[0][1].qn))
    return r


def _only_fread_destination(prog, caller, call, argidx):
    """The callee uses its parameter #argidx solely as the destination of fread."""
    if call is None or argidx is None or not call.get("fn"):
        return False
    ts = prog.resolve(caller, call["fn"])
    if not ts:
        return False
    for t in ts:
        if argidx >= len(t.params):
            return False
        pd = t.params[argidx]["d"]
        uses = 0
        for n in t.walk():
            if n.get("k") == "DeclRefExpr" and n.get("d") == pd:
                uses += 1
                par = t.parent(n)
                while par is not None and par.get("k") in ("ImplicitCastExpr", "ParenExpr", "CStyleCastExpr"):
                    par = t.parent(par)
                if not (par is not None and _callee(par) == "fread" and any(x is n for x in walk(call_args(par)[0]))):
                    return False
        if uses == 0:
            return False
    return True


def rule_failures_propagate(prog, fixture=False):
    r = RuleResult("R-C09-4", "bool results of functions on the decoding path are never discarded, and the exit "
                   "status variable only ever moves to a non-zero constant", floor=0 if fixture else 10)
    # functions on the decoding path: reachable from decode_file, plus decode_file itself
    roots = [f for f in prog.functions.values() if f.qn in ("decode_file",)]
    if not roots and not fixture:
        raise AnalysisBroken("anchor decode_file not found")
    onpath = set()
    st = list(roots)
    while st:
        f = st.pop()
        if f.uid in onpath:
            continue
        onpath.add(f.uid)
        for n in f.walk():
            if n.get("k") == "CallExpr" and n.get("fn"):
                st.extend(prog.resolve(f, n["fn"]))
            if n.get("k") == "DeclRefExpr" and n.get("dk") == "Function" and n.get("fn"):
                st.extend(prog.resolve(f, n["fn"]))
    boolfns = set(f.key for f in prog.functions.values() if f.uid in onpath and f.raw.get("ret") in ("_Bool", "bool"))
    for fn in prog.functions.values():
        k = 0
        for n in fn.walk():
            if n.get("k") != "CallExpr":
                continue
            tgt_keys = set()
            if n.get("fn") in boolfns:
                tgt_keys.add(n["fn"])
            elif not n.get("fn"):
                # call through a function pointer: callee expression type returns bool
                ce = strip(n["c"][0]) if n.get("c") else None
                if ce is not None and "_Bool (" in (ce.get("ct") or ce.get("t") or "") and fn.uid in onpath:
                    tgt_keys.add("<indirect>")
            if not tgt_keys:
                continue
            k += 1
            p = fn.parent(n)
            while p is not None and p.get("k") in ("ParenExpr", "ImplicitCastExpr"):
                p = fn.parent(p)
            discarded = p is None or p.get("k") in ("CompoundStmt", "IfStmt", "ForStmt", "WhileStmt", "DoStmt",
                                                    "CaseStmt", "DefaultStmt", "LabelStmt", "SwitchStmt") and \
                not (p.get("k") == "IfStmt" and _contains(p["c"][p["parts"]["cond"]], n)) and \
                not (p.get("k") in ("WhileStmt", "ForStmt") and "cond" in p.get("parts", {}) and _contains(p["c"][p["parts"]["cond"]], n))
            if p is not None and p.get("k") == "CStyleCastExpr" and p.get("t") == "void":
                discarded = True
            name = notpl(n.get("q") or "indirect")
            key = "%s::%s::%s#%d" % (fn.relfile(), fn.qn, name, k)
            r.add(key, fn.loc(n), not discarded, "result used" if not discarded else
                  "the bool result of %s is discarded: a decoding failure would not reach the exit status" % name)
    # sticky exit status
    for fn in prog.functions.values():
        if fn.qn not in ("wrapped_main", "main"):
            continue
        status_vars = {}
        for n in fn.walk():
            if n.get("k") == "ReturnStmt" and n.get("c"):
                e = strip_all(n["c"][0])
                if e.get("k") == "DeclRefExpr" and e.get("dk") == "Var":
                    status_vars[e["d"]] = e["n"]
        for d, nm in status_vars.items():
            for n in fn.walk():
                if n.get("k") in ("BinaryOperator", "CompoundAssignOperator") and n.get("op") in flow.ASSIGN_OPS:
                    t = strip_all(n["c"][0])
                    if t.get("k") == "DeclRefExpr" and t.get("d") == d:
                        vs = c07.value_set(prog, fn, n["c"][1]) if n.get("op") == "=" else None
                        key = "%s::%s::%s=%s" % (fn.relfile(), fn.qn, nm, show(n["c"][1])[:40])
                        ok = vs is not None and 0 not in vs
                        r.add(key, fn.loc(n), ok, "stores a non-zero constant" if ok else
                              "`%s` can be set back to 0 here (%s): a failure on an earlier input file is forgotten" %
                              (nm, show(n)))
    return r


# ---------------------------------------------------------------- R-C09-5
def rule_table_contradiction(prog, fixture=False):
    r = RuleResult("R-C09-5", "a token byte that base_map declares unassigned (BAD) for a dialect is not made "
                   "valid by a later unconditional override in build_mapping", floor=0 if fixture else 3)
    table = None
    for gid, gl in prog.globals.items():
        if gl["n"] == "base_map" and gl.get("init"):
            table = gl
    bm = prog.fn("build_mapping", required=not fixture)
    if table is None or not bm:
        if fixture:
            return r
        raise AnalysisBroken("anchors base_map / build_mapping not found")
    bm = bm[0]
    rows = {}
    for row in strip_all(table["init"]).get("c", []):
        row = strip_all(row)
        cs = row.get("c", [])
        if len(cs) < 2:
            continue
        tok = folded(cs[0])
        cols = []
        for e in strip_all(cs[1]).get("c", []):
            s = strip_all(e)
            if s is None:
                cols.append(None)
            elif s.get("k") == "StringLiteral":
                cols.append(("str", s.get("s")))
            elif s.get("k") == "DeclRefExpr":
                cols.append(("sym", s.get("n")))
            else:
                cols.append(("?", show(s)))
        if tok is not None:
            rows[tok] = cols        # later rows win, as in the loop
    dialects = prog.enums.get("Dialect")
    if not dialects:
        raise AnalysisBroken("enum Dialect not found")
    dvals = {}
    for c in dialects["consts"]:
        # skip count/alias enumerators (NUM_*, MIN_*, LAST_*): keep the first name of each value
        if c["n"].startswith(("NUM_", "MIN_", "MAX_", "LAST_")) or c["v"] in dvals.values():
            continue
        dvals[c["n"]] = c["v"]
    dparam = bm.params[0]["d"]
    # base_dialect per dialect: interpret `base_dialect = X` under `dialect == Y` tests
    base_var = None
    for n in bm.walk():
        if n.get("k") == "VarDecl" and n.get("n") == "base_dialect":
            base_var = n["d"]

    def eval_cond(e, dval):
        e = strip_all(e)
        k = e.get("k")
        if k == "BinaryOperator" and e.get("op") in ("||", "&&"):
            a, b = eval_cond(e["c"][0], dval), eval_cond(e["c"][1], dval)
            if a is None or b is None:
                return None
            return (a or b) if e["op"] == "||" else (a and b)
        if k == "BinaryOperator" and e.get("op") in ("==", "!="):
            l, rr = strip_all(e["c"][0]), strip_all(e["c"][1])
            for a, b in ((l, rr), (rr, l)):
                if a.get("k") == "DeclRefExpr" and a.get("d") == dparam and folded(b) is not None:
                    res = (dval == folded(b))
                    return res if e["op"] == "==" else (not res)
        return None

    def base_of(dval):
        val = dval
        for n in bm.walk():
            if n.get("k") == "IfStmt":
                c = eval_cond(n["c"][n["parts"]["cond"]], dval)
                if c:
                    for x in walk(n["c"][n["parts"]["then"]]):
                        if x.get("k") == "BinaryOperator" and x.get("op") == "=" and \
                                strip_all(x["c"][0]).get("d") == base_var and folded(x["c"][1]) is not None:
                            return folded(x["c"][1])
        return val
    # overrides: top-level statements `m->base[K] = E` (optionally under `if (cond on dialect)`)
    top = bm.body.get("c", [])
    seen_loop = False
    for st in top:
        if st.get("k") in ("ForStmt",):
            seen_loop = True
            continue
        if not seen_loop:
            continue
        guard = None
        asg = st
        if st.get("k") == "IfStmt" and "else" not in st.get("parts", {}):
            guard = st["c"][st["parts"]["cond"]]
            asg = st["c"][st["parts"]["then"]]
            if asg.get("k") == "CompoundStmt" and len(asg.get("c", [])) == 1:
                asg = asg["c"][0]
        asg = strip_all(asg)
        if asg is None or asg.get("k") != "BinaryOperator" or asg.get("op") != "=":
            continue
        lhs = strip_all(asg["c"][0])
        if lhs.get("k") != "ArraySubscriptExpr":
            continue
        arr = strip_all(lhs["c"][0])
        if arr.get("k") != "MemberExpr" or arr.get("n") != "base":
            continue
        K = folded(lhs["c"][1])
        if K is None or K not in rows:
            continue
        for dname, dval in sorted(dvals.items(), key=lambda kv: kv[1]):
            if guard is not None and not eval_cond(guard, dval):
                continue
            col = base_of(dval)
            cols = rows[K]
            if col is None or col >= len(cols) or cols[col] != ("sym", "invalid"):
                continue
            # value assigned under this dialect
            e = strip_all(asg["c"][1])
            while e is not None and e.get("k") == "ConditionalOperator":
                c = eval_cond(e["c"][0], dval)
                if c is None:
                    break
                e = strip_all(e["c"][1] if c else e["c"][2])
            still_invalid = e is not None and e.get("k") == "DeclRefExpr" and e.get("n") == "invalid"
            key = "basic/tokens.c::build_mapping::token0x%02X/%s" % (K, dname)
            r.add(key, bm.loc(asg), still_invalid, "stays unassigned" if still_invalid else
                  "base_map declares byte 0x%02X unassigned (BAD) for dialect %s, but the override `%s` makes it "
                  "a valid token (%s): such a byte outside a string is listed instead of rejected" %
                  (K, dname, show(asg)[:60], show(e)))
    # every BAD cell that no override touches counts as a (trivially) consistent instance
    nbad = sum(1 for cols in rows.values() for c in cols if c == ("sym", "invalid"))
    r.add("basic/tokens.c::base_map::BAD-cells", "basic/tokens.c", True, "%d BAD cells in %d rows" % (nbad, len(rows)))
    return r


# ---------------------------------------------------------------- R-C09-6
def _extension_handlers(prog):
    """Functions that expand a multi-byte token: they take the token cursor
    (const unsigned char **input, unsigned char *len) and deliver the expansion
    through a `const char **` out-parameter."""
    out = []
    for f in prog.functions.values():
        ts = [(p.get("t") or "").replace(" ", "") for p in f.params]
        cur = [p for p in f.params if (p.get("t") or "").replace(" ", "") == "constunsignedchar**"]
        ln = [p for p in f.params if (p.get("t") or "").replace(" ", "") in ("unsignedchar*", "size_t*", "unsignedlong*", "unsignedint*")]
        outp = [p for p in f.params if (p.get("t") or "").replace(" ", "") == "constchar**"]
        if cur and ln and outp:
            out.append((f, cur[0], ln[0]))
    return out


def _len_copies(f, ln):
    """Locals that are never-reassigned copies of *len taken at their declaration."""
    out = set()
    for v in f.walk():
        if v.get("k") == "VarDecl" and v.get("c"):
            i = strip_all(v["c"][0])
            if i is not None and i.get("k") == "UnaryOperator" and i.get("op") == "*" and (strip_all(i["c"][0]) or {}).get("d") == ln["d"] \
                    and not any(d_ == v["d"] for x in f.walk() for d_, _ in flow.written_decls(x)):
                out.add(v["d"])
    return out


def _byte_or_sentinel_helpers(prog):
    """Functions (cursor**, len*) that return a negative constant exactly where *len == 0 and a byte otherwise."""
    out = set()
    for f in prog.functions.values():
        lens = [p_ for p_ in f.params if (p_.get("ct") or p_.get("t") or "").replace(" ", "") == "unsignedchar*"]
        if not lens or f.body is None:
            continue
        g = Guards(f)
        neg = other = 0
        ok = True
        for n in f.walk():
            if n.get("k") != "ReturnStmt" or not n.get("c"):
                continue
            v = folded(n["c"][0])
            if v is not None and v < 0:
                neg += 1
                zero = any(rel == "==" and (folded(l) == 0 or folded(rr) == 0) and
                           any(x.get("k") == "UnaryOperator" and x.get("op") == "*" and (strip_all(x["c"][0]) or {}).get("d") == lens[0]["d"]
                               for side in (l, rr) for x in walk(side)) for l, rel, rr in (g.cmps(n) or []))
                zero = zero or any((not truth) and (strip_all(a) or {}).get("k") == "UnaryOperator" and (strip_all(a) or {}).get("op") == "*" and
                                   (strip_all((strip_all(a))["c"][0]) or {}).get("d") == lens[0]["d"] for a, truth in (g.truths(n) or []))
                if not zero:
                    ok = False
            elif v is None:
                other += 1
            else:
                ok = False
        if ok and neg and other:
            out.add(f.key)
    return out


def _sentinel_results(prog, f, helpers):
    """Locals of f that hold the result of a byte-or-sentinel helper."""
    out = set()
    for n in f.walk():
        tgt = rhs = None
        if n.get("k") == "VarDecl" and n.get("c"):
            tgt, rhs = n["d"], strip_all(n["c"][0])
        elif n.get("k") == "BinaryOperator" and n.get("op") == "=" and (strip_all(n["c"][0]) or {}).get("k") == "DeclRefExpr":
            tgt, rhs = strip_all(n["c"][0])["d"], strip_all(n["c"][1])
        if rhs is not None and rhs.get("k") == "CallExpr" and rhs.get("fn") in helpers:
            out.add(tgt)
    return out


def _len_positive_edge(g, ln, edge, copies=(), sentinels=()):
    for k in g.edge_facts.get(edge, ()):
        f = g.rep.get(k)
        if f is not None and f[0] == "C":
            for l, rel, r_ in ((f[1], f[2], f[3]), (f[3], flow.SWAP[f[2]], f[1])):
                a = strip_all(l)
                c = folded(r_)
                if a is not None and a.get("k") == "DeclRefExpr" and a.get("d") in sentinels and c is not None:
                    if (rel == ">=" and c >= 0) or (rel == ">" and c >= -1) or (rel == "!=" and c == -1):
                        return True     # the helper delivered a byte: one was there

    def is_len(a):
        if a is None:
            return False
        if a.get("k") == "UnaryOperator" and a.get("op") == "*" and (strip_all(a["c"][0]) or {}).get("d") == ln["d"]:
            return True
        return a.get("k") == "DeclRefExpr" and a.get("d") in copies
    for k in g.edge_facts.get(edge, ()):  # normalised facts established by taking this edge
        f = g.rep.get(k)
        if f is None:
            continue
        if f[0] == "T" and f[2] is True:
            a = strip_all(f[1])
            if is_len(a):
                return True
        if f[0] == "C":
            for l, rel, r in ((f[1], f[2], f[3]), (f[3], flow.SWAP[f[2]], f[1])):
                a = strip_all(l)
                c = folded(r)
                if is_len(a) and c is not None:
                    if (rel == ">" and c >= 0) or (rel == ">=" and c >= 1) or (rel == "!=" and c == 0):
                        return True
    return False


def rule_extension_needs_byte(prog, fixture=False):
    r = RuleResult("R-C09-6", "a handler of a multi-byte token reports success only on paths that found the "
                   "follow-on byte present (an edge establishing *len > 0), or by delegating to another such "
                   "handler: a token cut off by the end of the line is never expanded", floor=0 if fixture else 2)
    hs = _extension_handlers(prog)
    hkeys = {f.key for f, _, _ in hs}
    helpers = _byte_or_sentinel_helpers(prog)
    for f, cur, ln in hs:
        g = Guards(f)
        cfg = f.cfg
        copies = _len_copies(f, ln)
        sentinels = _sentinel_results(prog, f, helpers)
        # success returns
        targets = {}
        for n in f.walk():
            if n.get("k") != "ReturnStmt" or not n.get("c"):
                continue
            e = strip_all(n["c"][0])
            if e is not None and e.get("k") == "CallExpr" and e.get("fn") in hkeys:
                continue  # delegation: decided in the callee
            vs = c07.value_set(prog, f, n["c"][0])
            if vs is not None and vs <= {0}:
                continue
            pos = g.position(n)
            if pos is not None:
                targets.setdefault(pos[0], []).append(n)
        # reachability from the entry avoiding every len-positive edge
        seen, todo = {cfg.entry}, [cfg.entry]
        parent = {}
        while todo:
            b = todo.pop()
            for s_ in cfg.succ[b]:
                if s_ < 0 or s_ in seen or s_ not in cfg.blocks:
                    continue
                if _len_positive_edge(g, ln, (b, s_), copies, sentinels):
                    continue
                seen.add(s_)
                parent[s_] = b
                todo.append(s_)
        if not targets:
            r.add("%s::%s::no-success-return" % (f.relfile(), f.qn), "%s:%d" % (f.relfile(), f.line), True,
                  "never reports success itself")
        for b, rets in targets.items():
            for n in rets:
                key = "%s::%s::success-return#%d" % (f.relfile(), f.qn, sorted(targets).index(b) + 1)
                ok = b not in seen
                r.add(key, f.loc(n), ok, "reached only after the follow-on byte was found present" if ok else
                      "`%s` reports success on a path where *%s was never found positive: when the line ends "
                      "right after the introducer byte the token is expanded instead of being diagnosed" %
                      (show(n), ln["n"]))
    return r


# ---------------------------------------------------------------- R-C09-7
def _carried_guard(prog, fn, call, depth=0):
    """(guard expression, names) if the call is control-dependent - in its own function's loop, or in the
    loop of a caller - on state carried over from earlier loop passes; ("none", None) if it is reached
    unconditionally in a per-item loop; (None, None) if no enclosing loop was found."""
    loop = None
    for a in fn.ancestors(call):
        if a.get("k") in ("ForStmt", "WhileStmt", "DoStmt"):
            loop = a
            break
    # guards between the call and the loop (or the function entry)
    guards = []
    child = call
    for a in fn.ancestors(call):
        if a is loop:
            break
        k = a.get("k")
        if k == "BinaryOperator" and a.get("op") in ("&&", "||") and any(x is child for x in walk(a["c"][1])):
            guards.append(a["c"][0])
        elif k == "IfStmt":
            cond = a["c"][a["parts"]["cond"]]
            if not any(x is call for x in walk(cond)):
                guards.append(cond)
        elif k == "ConditionalOperator" and not any(x is call for x in walk(a["c"][0])):
            guards.append(a["c"][0])
        child = a
    if loop is None:
        # per-call state only, unless a guard reads a global / static: then look at who calls this function
        for gd in guards:
            for x in walk(gd):
                if x.get("k") == "DeclRefExpr" and x.get("dk") == "Var" and x.get("g"):
                    return gd, [x.get("n")]
        if depth >= 3:
            return None, None
        res = (None, None)
        for g in prog.functions.values():
            for c in g.walk():
                if c.get("k") == "CallExpr" and c.get("fn") == fn.key and fn in prog.call_targets(g, c):
                    sub = _carried_guard(prog, g, c, depth + 1)
                    if sub[0] not in (None, "none"):
                        return sub
                    if sub[0] == "none":
                        res = sub
        return res
    inside_decl = {x["d"] for x in walk(loop) if x.get("k") == "VarDecl"}
    written = set()
    for x in walk(loop):
        for d, _ in flow.written_decls(x):
            written.add(d)
        if x.get("k") == "UnaryOperator" and x.get("op") in ("++", "--"):
            d = flow.lvalue_root(x["c"][0])
            if d is not None:
                written.add(d)
    carried = written - inside_decl
    ind = set()
    if loop.get("k") == "ForStmt" and "inc" in loop.get("parts", {}):
        for x in walk(loop["c"][loop["parts"]["inc"]]):
            if x.get("k") == "DeclRefExpr":
                ind.add(x.get("d"))
    for gd in guards:
        ids = (flow.decl_ids(gd) & carried) - ind
        if ids:
            return gd, sorted({x.get("n") for x in walk(gd) if x.get("k") == "DeclRefExpr" and x.get("d") in ids})
    return "none", None


def rule_every_file_decoded(prog, fixture=False):
    r = RuleResult("R-C09-7", "in the loop over the input files, whether a file is decoded does not depend on anything "
                   "carried over from earlier files (exit status so far, counters): each file's listing depends only "
                   "on that file", floor=0 if fixture else 1)
    for fn in prog.functions.values():
        for call in fn.walk():
            if call.get("k") != "CallExpr" or not notpl(call.get("q") or "").endswith("decode_file"):
                continue
            gd, names = _carried_guard(prog, fn, call)
            key = "%s::%s::decode_file" % (fn.relfile(), fn.qn)
            if gd is None:
                r.undecided.append("%s: decode_file is not called from a loop over the inputs that this rule can find" % fn.loc(call))
                continue
            ok = gd == "none"
            r.add(key, fn.loc(call), ok, "decoded unconditionally for every opened file" if ok else
                  "decode_file is only called when `%s` allows it, and %s carries over from the files before: after one "
                  "failing file the remaining files are not listed at all" % (show(gd), ", ".join(names or [])))
    return r


# ---------------------------------------------------------------- R-C09-8
def rule_success_only_at_end(prog, fixture=False):
    r = RuleResult("R-C09-8", "a program reader (a function that reads input and calls the line decoder) returns "
                   "success only where the input has ended (a dominating `== EOF` fact; whether that end is clean is "
                   "R-C09-1's business) or the end-of-program marker was consumed (a successful expect_char): no "
                   "ordinary line can make the listing stop early with exit status 0", floor=0 if fixture else 2)
    falsefns = _always_false_functions(prog)
    for fn in _input_functions(prog):
        if not any(_callee(n) in DECODERS for n in fn.walk()):
            continue
        g = Guards(fn)
        k = 0
        for n in fn.walk():
            if n.get("k") != "ReturnStmt" or not n.get("c"):
                continue
            if _is_failure_return(prog, fn, n, falsefns):
                continue
            e = strip_all(n["c"][0])
            if e is not None and e.get("k") == "CallExpr" and folded(e) is None:
                continue        # delegation: the callee's result
            k += 1
            key = "%s::%s::success-return#%d" % (fn.relfile(), fn.qn, k)
            why = None
            for l, rel, rr in (g.cmps(n) or []):
                if rel == "==" and (folded(rr) == -1 or folded(l) == -1):
                    why = "input has ended"
            for a, truth in (g.truths(n) or []):
                ca = strip_all(a)
                if truth and ca is not None and ca.get("k") == "CallExpr" and _callee(ca) == "expect_char":
                    why = "end marker consumed"
            if why is None and _marker_consumed_on_all_paths(fn, n):
                why = "end marker consumed on every path"
            r.add(key, fn.loc(n), why is not None, why or
                  "`%s` reports success although neither the end of the input nor the end-of-program marker has been "
                  "seen on this path: a well-formed program whose bytes happen to satisfy the condition is cut short "
                  "silently" % show(n))
    return r


# ---------------------------------------------------------------- R-C09-10
def rule_alias_table(prog, fixture=False):
    r = RuleResult("R-C09-10", "in a table of names with synonyms (dialects[]: name, synonym_for, value) a row that is "
                   "declared a synonym carries the same value as the row it names: `8086` must decode with the token "
                   "table of `Z80`, so what is unassigned for the one is rejected for the other", floor=0 if fixture else 3)
    for gid, gl in prog.globals.items():
        init = strip_all(gl.get("init")) if gl.get("init") else None
        if init is None or init.get("k") != "InitListExpr":
            continue
        gt = notpl((gl.get("ct") or gl.get("t") or "").replace("const ", "").replace("struct ", ""))
        rname = gt.split("[")[0].strip().split("::")[-1]
        rec = [rc for q_, rc in prog.records.items() if notpl(q_).split("::")[-1] == rname]
        if not rec:
            continue
        names = [f_["n"] for f_ in rec[0]["fields"]]
        syn = [i for i, n_ in enumerate(names) if "synonym" in n_ or "alias" in n_]
        nam = [i for i, n_ in enumerate(names) if n_ == "name"]
        if not syn or not nam:
            continue
        vals = [i for i in range(len(names)) if i not in (syn[0], nam[0])]
        rows = []
        for row in init.get("c", []):
            row = strip_all(row)
            if row is None or row.get("k") != "InitListExpr" or len(row.get("c", [])) != len(names):
                continue

            def text(c):
                for x in walk(c):
                    if x.get("k") == "StringLiteral":
                        return x.get("s")
                return None
            rows.append((text(row["c"][nam[0]]), text(row["c"][syn[0]]), tuple(folded(row["c"][i]) for i in vals), row))
        byname = {n_: v for n_, s_, v, _r in rows if n_ is not None}
        for n_, s_, v, row in rows:
            if n_ is None or s_ is None:
                continue
            key = "%s::%s[%s]" % (gl.get("q") or gl.get("n"), "synonym", n_)
            loc = gid.split("|")[1] if "|" in gid else "?"
            if s_ not in byname:
                r.add(key, loc, False, "`%s` is declared a synonym of `%s`, which the table does not contain" % (n_, s_))
            else:
                ok = byname[s_] == v
                r.add(key, loc, ok, "same value as %s" % s_ if ok else
                      "`%s` is declared a synonym of `%s` but carries a different value (%s instead of %s): it selects another "
                      "token table than documented" % (n_, s_, v, byname[s_]))
    return r


# ---------------------------------------------------------------- R-C09-11
def rule_string_state_per_line(prog, fixture=False):
    r = RuleResult("R-C09-11", "the line decoder's inside-a-string state (the bool toggled at each '\"') starts false for "
                   "every line: it is a local of the line decoder, or is reset by the caller before each call - bytes "
                   "inside a string bypass token validation, so a state that survives an unbalanced quote would let "
                   "ill-formed later lines through", floor=0 if fixture else 1)
    for fn in prog.functions.values():
        if _callee({"k": "CallExpr", "q": fn.qn}) not in DECODERS and fn.name not in DECODERS:
            continue
        for n in fn.walk():
            if n.get("k") != "BinaryOperator" or n.get("op") != "=":
                continue
            rhs = strip_all(n["c"][1])
            if rhs is None or rhs.get("k") != "UnaryOperator" or rhs.get("op") != "!" or not same_expr(rhs["c"][0], n["c"][0]):
                continue
            tgt = strip_all(n["c"][0])
            key = "%s::%s::toggle(%s)" % (fn.relfile(), fn.qn, show(tgt)[:20])
            if tgt.get("k") == "DeclRefExpr" and tgt.get("dk") == "Var":
                decl = [v for v in fn.walk() if v.get("k") == "VarDecl" and v.get("d") == tgt["d"]]
                local = bool(decl) and not decl[0].get("sl") and decl[0].get("c") and folded(decl[0]["c"][0]) == 0
                r.add(key, fn.loc(n), bool(local), "a local that starts false in every call" if local else
                      "`%s` is not a local initialised to false for each line: the state carries over from one line to the next" % show(tgt))
                continue
            if tgt.get("k") == "UnaryOperator" and tgt.get("op") == "*" and (strip_all(tgt["c"][0]) or {}).get("dk") == "ParmVar":
                pd = strip_all(tgt["c"][0])["d"]
                idx = [i for i, p_ in enumerate(fn.params) if p_["d"] == pd]
                bad = None
                for g in prog.functions.values():
                    for c in g.walk():
                        if c.get("k") == "CallExpr" and fn in prog.call_targets(g, c) and idx and idx[0] < len(call_args(c)):
                            a = strip_all(call_args(c)[idx[0]])
                            v = strip_all(a["c"][0]) if a is not None and a.get("k") == "UnaryOperator" and a.get("op") == "&" else None
                            loop = None
                            for anc in g.ancestors(c):
                                if anc.get("k") in ("ForStmt", "WhileStmt", "DoStmt"):
                                    loop = anc
                                    break
                            if v is None or v.get("k") != "DeclRefExpr":
                                bad = (g, c)
                                continue
                            if loop is None:
                                continue
                            body = loop["c"][loop["parts"]["body"]]
                            reset = any(x.get("k") == "BinaryOperator" and x.get("op") == "=" and (strip_all(x["c"][0]) or {}).get("d") == v["d"]
                                        and folded(x["c"][1]) == 0 for x in walk(body)) or \
                                any(x.get("k") == "VarDecl" and x.get("d") == v["d"] and x.get("c") and folded(x["c"][0]) == 0 for x in walk(body))
                            if not reset:
                                bad = (g, c)
                r.add(key, fn.loc(n), bad is None, "reset by every caller before each line" if bad is None else
                      "the state lives in the caller (%s) and is not reset between lines: after a line with an odd number of "
                      "quotes the following lines are copied raw, unvalidated" % bad[0].loc(bad[1]))
                continue
            r.add(key, fn.loc(n), False, "`%s` outlives the call" % show(tgt))
    return r


def run(ctx):
    prog = ctx.prog("basic", "N")
    return [rule_eof_before_use(prog), rule_short_fread(prog), rule_static_state(prog),
            rule_failures_propagate(prog), rule_table_contradiction(prog), rule_extension_needs_byte(prog), rule_every_file_decoded(prog),
            rule_success_only_at_end(prog), _shared_body_rule(prog), rule_alias_table(prog), rule_string_state_per_line(prog)]


def _shared_body_rule(prog):
    from . import c03
    r = c03.rule_whole_body_listed(prog)
    r.rule = "R-C09-9"      # the terminator is not part of the line: a token cut off by the end of the line is diagnosed
    return r


SELFTESTS = [
    (rule_success_only_at_end, ["c09_end_bad.c"], ["c09_end_good.c"], "success-return"),
    (rule_eof_before_use, ["c09_bad.c"], ["c09_good.c"], "ch"),
    (rule_short_fread, ["c09_bad.c"], ["c09_good.c"], "fread"),
    (rule_static_state, ["c09_bad.c"], ["c09_good.c"], "carry"),
    (rule_failures_propagate, ["c09_bad.c"], ["c09_good.c"], "exitval"),
    (rule_extension_needs_byte, ["c09_bad.c"], ["c09_good.c"], "handle_ext"),
    (rule_eof_before_use, ["c09_bad.c"], ["c09_good.c"], "c:width"),
    (rule_every_file_decoded, ["c09_files_bad.c"], ["c09_files_good.c"], "all_files"),
    (rule_eof_before_use, ["c09_flag_bad.c"], ["c09_flag_good.c"], "eof-edge"),
]
