"""C02 - dfs reports catalogue metadata exactly as encoded on the disc.

R-C02-1  field provenance (bit-provenance domain): every accessor of
         CatalogEntry and the header fields decoded by the CatalogFragment
         constructor deliver exactly the documented input bits
R-C02-2  sign extension: bits 23..18 copy bit 17, bits 17..0 unchanged
R-C02-3  CRC-16/CCITT: step function, byte update and initial values
R-C02-4  report provenance: the info line and the .inf file present the fields
         in the documented order, each from its own accessor, with sign
         extension applied to the two addresses only
R-C02-5  cat's tests for 'current directory' (sort comparator and listing
         loop) all compare the raw directory character with the raw current
         directory (agreement of sibling tests)
"""
from ..runner import RuleResult
from ..facts import AnalysisBroken
from ..model import strip, strip_all, walk, show, notpl, is_call, call_args
from ..bits import BV, Evaluator, Unsupported, bconst, bvar, bshow
from ..fields import catalog_input_hook, byte_bits, expected_bv, compare, eval_prefix
from ..flow import folded
from .. import flow

EXPLANATION = (
    "Static decision of the field-decoding clauses of C02, exhaustive over all 2^64 metadata values by "
    "construction: each accessor is evaluated in a bit-provenance domain (every result bit is an XOR-affine form "
    "of symbolic catalogue bits) and compared, bit for bit, with the Acorn DFS layout stated in the property and "
    "in doc/dfs.1; likewise sign extension and the CRC-16 step.  The report rule checks which accessor feeds "
    "which column.  Not decided: column formatting, the rest of cat's sort order, 'every file exactly once'.")
ASSUMPTIONS = ["the documented Acorn DFS catalogue layout (transcribed in the checker from the property statement and doc/dfs.1)",
               "the bit-provenance transfer functions for & | ^ ~ << >> + and integer conversions"]

ENTRY = "DFS::CatalogEntry::"

# Acorn DFS layout: result bit i (from 0)  <-  input bit
LAYOUT = {
    "load_address": byte_bits("meta", 0) + byte_bits("meta", 1) + byte_bits("meta", 6, 2, 3),
    "exec_address": byte_bits("meta", 2) + byte_bits("meta", 3) + byte_bits("meta", 6, 6, 7),
    "file_length": byte_bits("meta", 4) + byte_bits("meta", 5) + byte_bits("meta", 6, 4, 5),
    "start_sector": byte_bits("meta", 7) + byte_bits("meta", 6, 0, 1),
    "directory": byte_bits("name", 7, 0, 6),
}


def evaluator(prog):
    return Evaluator(prog, catalog_input_hook)


def rule_entry_fields(prog, fixture=False, only=None, rule_id="R-C02-1"):
    r = RuleResult(rule_id, "each CatalogEntry accessor returns exactly the documented catalogue bits (all other "
                   "result bits zero)", floor=0 if fixture else (2 if only else 6))
    ev = evaluator(prog)
    names = only or list(LAYOUT) + ["is_locked"]
    for nm in names:
        fns = prog.fn(ENTRY + nm, required=not fixture)
        for fn in fns:
            key = "%s::%s" % (fn.relfile(), fn.qn)
            try:
                paths = ev.run(fn)
            except Unsupported as e:
                raise AnalysisBroken("cannot evaluate %s in the bit domain: %s" % (fn.qn, e))
            if len(paths) != 1:
                raise AnalysisBroken("%s: accessor forks" % fn.qn)
            got = paths[0][2]
            if nm == "is_locked":
                # boolean: true iff name[7] bit 7
                want = expected_bv(["name[7].7"], got.width)
                # (1<<7) & x converted to bool -> single bit
                nz = [b for b in got.bits if not (b is not None and not b[0] and b[1] == 0)]
                ok = len(nz) == 1 and nz[0] == bvar("name[7].7")
                r.add(key, "%s:%d" % (fn.relfile(), fn.line), ok, "lock flag = top bit of the directory byte" if ok else
                      "is_locked does not test exactly bit 7 of the directory byte: %s" % got.show())
                continue
            want = expected_bv(LAYOUT[nm], max(got.width, len(LAYOUT[nm])))
            diff = compare(got, want)
            r.add(key, "%s:%d" % (fn.relfile(), fn.line), not diff,
                  "all %d result bits carry the documented input bits" % got.width if not diff else
                  "%s decodes the wrong bits: %s" % (nm, "; ".join(diff[:4])))
    return r


def rule_fragment_header(prog, fixture=False):
    r = RuleResult("R-C02-1b", "the catalogue header fields (cycle number, entry count, boot option, total "
                   "sectors) are decoded from the documented bits of sector 1", floor=0 if fixture else 4)
    fns = prog.fn("DFS::CatalogFragment::CatalogFragment", required=not fixture)
    fmt = prog.enums.get("DFS::Format")
    for fn in fns:
        if not fmt:
            raise AnalysisBroken("enum DFS::Format not found")
        # field decl ids
        fields = {}
        for rec in prog.records.values():
            if rec["q"] == "DFS::CatalogFragment":
                for f in rec["fields"]:
                    fields[f["n"]] = f["d"]
        # field ids are per-TU; find them from MemberExprs in this function instead
        for n in fn.walk():
            if n.get("k") == "MemberExpr" and n.get("dk") == "Field":
                fields[n["n"]] = n["d"]
        ev = evaluator(prog)
        results = {}
        for c in fmt["consts"]:
            env = {}
            if "disc_format_" in fields:
                env[fields["disc_format_"]] = BV.const(c["v"], 32)
            # run statements up to the trailing loop
            paths = [({}, env, None)]
            for st in fn.body.get("c", []):
                if st.get("k") in ("ForStmt", "WhileStmt", "CXXForRangeStmt"):
                    break
                new = []
                try:
                    for assume, e, ret in paths:
                        new.extend(ev._stmt(fn, st, assume, e, 0))
                except Unsupported as ex:
                    raise AnalysisBroken("cannot evaluate CatalogFragment constructor: %s" % ex)
                paths = new
            results[c["n"]] = paths
        loc = "%s:%d" % (fn.relfile(), fn.line)

        def field_on_all(name, want_fn):
            did = fields.get(name)
            if did is None:
                raise AnalysisBroken("field %s not found" % name)
            probs = []
            for fmtname, paths in results.items():
                for assume, e, ret in paths:
                    got = e.get(did)
                    if got is None:
                        probs.append("%s: never assigned" % fmtname)
                        continue
                    want = want_fn(fmtname, assume, got.width)
                    diff = compare(got, want.subst(assume))
                    if diff:
                        probs.append("%s: %s" % (fmtname, "; ".join(diff[:3])))
            return probs
        p = field_on_all("sequence_number_", lambda f, a, w: expected_bv(byte_bits("s1", 4), w))
        r.add("%s::cycle" % fn.relfile(), loc, not p, "cycle number = sector1[4]" if not p else "cycle number: " + p[0])
        p = field_on_all("position_of_last_catalog_entry_", lambda f, a, w: expected_bv(byte_bits("s1", 5), w))
        r.add("%s::entry-count" % fn.relfile(), loc, not p, "entry count byte = sector1[5]" if not p else "entry count: " + p[0])
        # HDFS folds a further bit from the title byte in; the property does not cover HDFS, so that
        # format is evaluated (it must not disturb the others) but carries no expectation
        hdfs_paths = results.pop("HDFS", None)
        p = field_on_all("total_sectors_", lambda f, a, w: expected_bv(byte_bits("s1", 7) + byte_bits("s1", 6, 0, 1), w))
        if hdfs_paths is not None:
            results["HDFS"] = hdfs_paths
        r.add("%s::total-sectors" % fn.relfile(), loc, not p, "total sectors = sector1[7] | (sector1[6]&3)<<8 (+HDFS bit)" if not p
              else "total sectors: " + p[0])
        # boot option: enum value must equal (s1[6]>>4)&3
        boot = prog.enums.get("DFS::BootSetting")
        did = fields.get("boot_")
        probs = []
        if boot and did is not None:
            order = [c["v"] for c in boot["consts"]]
            for fmtname, paths in results.items():
                for assume, e, ret in paths:
                    got = e.get(did)
                    b4, b5 = assume.get("s1[6].4"), assume.get("s1[6].5")
                    if got is None or b4 is None or b5 is None or got.value() is None:
                        probs.append("%s: boot option not a function of bits 4,5 of sector1[6]" % fmtname)
                        continue
                    if got.value() != (b5 << 1 | b4):
                        probs.append("bits %d%d give option %d" % (b5, b4, got.value()))
        r.add("%s::boot-option" % fn.relfile(), loc, not probs, "boot option = (sector1[6]>>4)&3" if not probs else
              "boot option: " + probs[0])
    return r


def rule_title(prog, fixture=False):
    r = RuleResult("R-C02-1c", "title and name characters are the catalogue bytes with the top bit removed",
                   floor=0 if fixture else 1)
    ev = evaluator(prog)
    for fn in prog.fn("DFS::stringutil::byte_to_ascii7", required=not fixture):
        b = BV.var("b", 8)
        paths = ev.run(fn, [b])
        got = paths[0][2]
        want = BV([bvar("b.%d" % i) for i in range(7)] + [bconst(0)] * (got.width - 7))
        diff = compare(got, want)
        r.add("%s::%s" % (fn.relfile(), fn.qn), "%s:%d" % (fn.relfile(), fn.line), not diff,
              "7-bit character" if not diff else "byte_to_ascii7: " + "; ".join(diff[:3]))
    # its users: title and name must pass every byte through it
    for q in ("(anonymous namespace)::convert_title", "DFS::CatalogEntry::name"):
        for fn in prog.fn(q, required=not fixture):
            pushes = [n for n in fn.walk() if n.get("k") == "CXXMemberCallExpr" and
                      (strip(n["c"][0]) or {}).get("n") == "push_back"]
            bad = None
            for p in pushes:
                arg = strip_all(p["c"][1])
                via = any(x.get("k") == "CallExpr" and notpl(x.get("q") or "").endswith("byte_to_ascii7") for x in walk(arg))
                if not via and arg.get("k") == "DeclRefExpr":
                    # a local initialised from byte_to_ascii7
                    for v in fn.walk():
                        if v.get("k") == "VarDecl" and v.get("d") == arg.get("d") and v.get("c"):
                            via = any(x.get("k") == "CallExpr" and notpl(x.get("q") or "").endswith("byte_to_ascii7")
                                      for x in walk(v["c"][0]))
                if not via:
                    bad = p
            if not pushes:
                # the characters may be produced wholesale: std::transform(first, last, out, byte_to_ascii7)
                tr = [n for n in fn.walk() if n.get("k") == "CallExpr" and notpl(n.get("q") or "") == "std::transform"]
                via_tr = [n for n in tr if any(x.get("k") == "DeclRefExpr" and (x.get("n") or "") == "byte_to_ascii7"
                                               for x in walk(call_args(n)[-1]))] if tr else []
                if tr and len(via_tr) == len(tr):
                    r.add("%s::%s" % (fn.relfile(), fn.qn), "%s:%d" % (fn.relfile(), fn.line), True,
                          "characters produced by std::transform through byte_to_ascii7")
                    continue
                if not tr:
                    r.undecided.append("%s: cannot see where the characters of the result are produced" % fn.qn)
                    continue
            r.add("%s::%s" % (fn.relfile(), fn.qn), "%s:%d" % (fn.relfile(), fn.line), bad is None and bool(pushes),
                  "%d characters appended, all through byte_to_ascii7" % len(pushes) if bad is None and pushes else
                  "a character is appended without removing the top bit (%s)" % (show(bad) if bad else "no push found"))
    return r


def rule_sign_extend(prog, fixture=False):
    r = RuleResult("R-C02-2", "sign_extend copies bit 17 into bits 18..23 and leaves bits 0..17 unchanged "
                   "(doc/dfs.1, SIGN EXTENSION OF ADDRESSES)", floor=0 if fixture else 1)
    ev = evaluator(prog)
    for fn in prog.fn("DFS::sign_extend", required=not fixture):
        w = fn.params[0].get("w") or 64
        a = BV([bvar("a.%d" % i) for i in range(18)] + [bconst(0)] * (w - 18))
        try:
            paths = ev.run(fn, [a])
        except Unsupported as e:
            raise AnalysisBroken("cannot evaluate sign_extend: %s" % e)
        probs = []
        seen = set()
        for assume, env, got in paths:
            b17 = assume.get("a.17")
            if b17 is None:
                # no split: must hold for both values
                for v in (0, 1):
                    probs += _check_sx(got.subst({"a.17": v}), v)
                seen |= {0, 1}
            else:
                seen.add(b17)
                probs += _check_sx(got, b17)
        if seen != {0, 1}:
            probs.append("not all values of bit 17 are covered")
        r.add("%s::%s" % (fn.relfile(), fn.qn), "%s:%d" % (fn.relfile(), fn.line), not probs,
              "bits 23..18 copy bit 17; bits 17..0 unchanged" if not probs else
              "sign_extend is wrong: " + "; ".join(probs[:4]))
    return r


def _check_sx(got, b17):
    want = BV([bvar("a.%d" % i) for i in range(17)] + [bconst(b17)] + [bconst(b17)] * 6 + [bconst(0)] * (got.width - 24))
    return ["when bit 17 is %d: %s" % (b17, d) for d in compare(got, want)]


POLY = 0x1021


def _spec_step(c, b):
    """One message bit b shifted into the CRC-16/CCITT register c (list of 16 bit forms, LSB first)."""
    from ..bits import bxor
    top = bxor(c[15], b)
    return [top] + [bxor(c[i - 1], top) if (POLY >> i) & 1 else c[i - 1] for i in range(1, 16)]


def _register_field(fn):
    """Decl id and width of the one data member the method assigns."""
    out = {}
    for n in fn.walk():
        if n.get("k") in ("BinaryOperator", "CompoundAssignOperator") and n.get("op", "").endswith("="):
            t = strip_all(n["c"][0])
            if t is not None and t.get("k") == "MemberExpr" and t.get("dk") == "Field" and n["op"] not in ("==", "!=", "<=", ">="):
                out[t["d"]] = t.get("w") or 64
    return out


def rule_crc(prog, fixture=False):
    from ..bits import apply_assumptions
    r = RuleResult("R-C02-3", "CRC16Base::update_bit shifts one message bit into a CRC-16/CCITT register "
                   "(x^16+x^12+x^5+1, high bit first), update() is eight such steps per byte, most significant bit "
                   "first; initial values 0xFFFF (disc) and 0 (XMODEM/.inf) - by symbolic evaluation of the methods "
                   "over GF(2) bit forms, all paths", floor=0 if fixture else 4)

    def check(fn, reg, w, paths_of, want_bits, what):
        key = "%s::%s" % (fn.relfile(), fn.qn)
        try:
            paths = paths_of()
        except Unsupported as e:
            r.undecided.append("%s:%d: %s cannot be evaluated in the bit domain (%s)" % (fn.relfile(), fn.line, fn.qn, e))
            return
        probs = []
        want = BV(want_bits + [bconst(0)] * (w - 16))
        for assume, env, _ret in paths:
            got = env.get(reg)
            if not isinstance(got, BV):
                probs.append("the register is lost on a path")
                continue
            g, wv = apply_assumptions(got, assume), apply_assumptions(want, assume)
            d = compare(g, wv)
            if d:
                cond = ", ".join("%s=%s" % (k_, v if not isinstance(v, tuple) else bshow(v)) for k_, v in list(assume.items())[:4])
                probs.append("when %s: %s" % (cond or "always", d[0]))
        r.add(key, "%s:%d" % (fn.relfile(), fn.line), not probs,
              "%s (%d paths)" % (what, len(paths)) if not probs else
              "%s is not %s: %s" % (fn.qn, what, "; ".join(probs[:3])))

    sym_c = [bvar("c.%d" % i) for i in range(16)]
    for fn in prog.fn("DFS::CRC16Base::update_bit", required=not fixture):
        regs = _register_field(fn)
        if len(regs) != 1:
            r.undecided.append("%s: update_bit assigns %d data members, expected the CRC register only" % (fn.loc(fn.body), len(regs)))
            continue
        (reg, w), = regs.items()
        ev = Evaluator(prog, lambda base, idx, width: None, max_inline=6)
        pw = fn.params[0].get("w") or 8
        arg = BV([bvar("b")] + [bconst(0)] * (pw - 1))
        env0 = {reg: BV(sym_c + [bconst(0)] * (w - 16))}
        check(fn, reg, w, lambda: ev.run(fn, [arg], env=env0), _spec_step(sym_c, bvar("b")),
              "one CCITT step: crc' = (crc<<1) ^ (0x1021 if bit15^b) mod 2^16")
    for fn in prog.fn("DFS::CRC16Base::update", required=not fixture):
        regs = _register_field(fn)
        for g_ in prog.fn("DFS::CRC16Base::update_bit", required=False):
            regs = regs or _register_field(g_)
        top = fn.body.get("c", [])
        loops = [n for n in top if n.get("k") in ("ForStmt", "WhileStmt")]
        if len(regs) != 1 or len(loops) != 1 or "body" not in loops[0].get("parts", {}):
            r.undecided.append("%s: update() is not a single loop over the bytes that updates the CRC register" % fn.loc(fn.body))
            continue
        (reg, w), = regs.items()
        lp = loops[0]
        body = lp["c"][lp["parts"]["body"]]
        d_bits = [bvar("d.%d" % i) for i in range(8)]
        ev = Evaluator(prog, lambda base, idx, width: BV(d_bits + [bconst(0)] * (max(width, 8) - 8)), max_inline=6)
        want = list(sym_c)
        for i in range(7, -1, -1):
            want = _spec_step(want, d_bits[i])

        def one_byte(fn=fn, lp=lp, body=body, top=top, ev=ev, reg=reg, w=w):
            """The function's effect on the register when its loop body runs once: the statements before the loop
            (guards that leave for an empty range are not taken; declarations the domain cannot evaluate stay
            unknown), one pass of the body, the statements after the loop."""
            paths = [({}, {reg: BV(sym_c + [bconst(0)] * (w - 16))}, None)]
            k = top.index(lp)
            for st in top[:k]:
                try:
                    paths = ev._stmts(fn, [st], paths, 0)
                except Unsupported:
                    leaves = st.get("k") == "IfStmt" and "else" not in st.get("parts", {}) and \
                        all(x.get("k") in ("ReturnStmt", "CompoundStmt", "IfStmt") or x is st or
                            any(x is y for y in walk(st["c"][st["parts"]["cond"]])) for x in walk(st))
                    if leaves or st.get("k") == "DeclStmt":
                        continue
                    raise
            if "init" in lp.get("parts", {}):
                try:
                    paths = ev._stmts(fn, [lp["c"][lp["parts"]["init"]]], paths, 0)
                except Unsupported:
                    pass
            paths = ev._stmts(fn, [body], paths, 0)
            paths = [(a, e, None) for a, e, ret in paths]
            for st in top[k + 1:]:
                if st.get("k") == "ReturnStmt":
                    break
                paths = ev._stmts(fn, [st], paths, 0)
            return paths
        check(fn, reg, w, one_byte, want, "eight CCITT steps per byte, most significant bit first")
        # exactly one byte is consumed per pass: the cursor (pointer or index) through which the byte is read is
        # advanced exactly once in the loop
        cursors = set()
        for n in walk(body):
            if n.get("k") == "UnaryOperator" and n.get("op") == "*":
                d_ = flow.lvalue_root(n["c"][0])
                if d_ is None:
                    ptrs = [y for y in walk(n["c"][0]) if y.get("k") == "DeclRefExpr" and not y.get("w")]
                    d_ = ptrs[0]["d"] if ptrs else None
                if d_ is not None:
                    cursors.add(d_)
            if n.get("k") == "ArraySubscriptExpr":
                idx = strip_all(n["c"][1])
                if idx is not None and idx.get("k") == "DeclRefExpr":
                    cursors.add(idx["d"])
                else:
                    d_ = flow.lvalue_root(n["c"][0])
                    if d_ is not None:
                        cursors.add(d_)
        adv = {}
        for n in walk(lp):
            if n.get("k") == "UnaryOperator" and n.get("op") in ("++", "--"):
                d_ = flow.lvalue_root(n["c"][0])
                if d_ in cursors:
                    adv[d_] = adv.get(d_, 0) + (1 if n["op"] == "++" else 99)
            if n.get("k") == "CompoundAssignOperator" and flow.lvalue_root(n["c"][0]) in cursors:
                d_ = flow.lvalue_root(n["c"][0])
                adv[d_] = adv.get(d_, 0) + (1 if n.get("op") == "+=" and folded(n["c"][1]) == 1 else 99)
        moved = [d_ for d_ in cursors if adv.get(d_)]
        if len(moved) != 1 or adv[moved[0]] != 1:
            r.add("%s::%s::cursor" % (fn.relfile(), fn.qn), fn.loc(lp), False,
                  "the position from which update() reads its byte is not advanced exactly once per pass of the loop "
                  "(%s)" % (", ".join("%d" % adv.get(d_, 0) for d_ in cursors) or "no cursor found"))
    inits = {"DFS::CCITT_CRC16::init": 0xFFFF, "DFS::TapeCRC::init": 0}
    for gid, g in prog.globals.items():
        if g["q"] in inits:
            v = folded(g["init"]) if g.get("init") else None
            r.add("global::" + g["q"], gid.split("|")[1], v == inits[g["q"]],
                  "initial value 0x%X" % inits[g["q"]] if v == inits[g["q"]] else
                  "%s is %s, should be 0x%X" % (g["q"], v, inits[g["q"]]))
    return r


# ---------------------------------------------------------------- R-C02-4
ACCESSORS = {"directory", "name", "is_locked", "load_address", "exec_address", "file_length", "start_sector"}
INFO_ORDER = [("directory", False), ("name", False), ("is_locked", False), ("load_address", True),
              ("exec_address", True), ("file_length", False), ("start_sector", False)]
INF_ORDER = [("directory", False), ("name", False), ("load_address", True), ("exec_address", True),
             ("file_length", False), ("is_locked", False), ("crc", False)]


def _field_sources(fn, expr, depth=0):
    """Sequence of (accessor, through sign_extend?) feeding a << chain, left to right."""
    out = []

    def source_of(e, sx=False, d=0):
        e = strip_all(e)
        if e is None or d > 6:
            return []
        k = e.get("k")
        if k == "CXXMemberCallExpr":
            cal = strip(e["c"][0])
            if cal and cal.get("n") in ACCESSORS and "CatalogEntry" in notpl(cal.get("q") or ""):
                return [(cal.get("n"), sx)]
        if k == "CallExpr" and notpl(e.get("q") or "").endswith("sign_extend"):
            return source_of(call_args(e)[0], True, d + 1)
        if k == "DeclRefExpr" and e.get("dk") in ("Var", "ParmVar"):
            if e.get("n") == "crc":
                return [("crc", sx)]
            # a local: its assignments / initialiser
            res = []
            for v in fn.walk():
                if v.get("k") == "VarDecl" and v.get("d") == e.get("d") and v.get("c"):
                    res += source_of(v["c"][0], sx, d + 1)
                if v.get("k") == "BinaryOperator" and v.get("op") == "=" and strip_all(v["c"][0]).get("d") == e.get("d"):
                    res += source_of(v["c"][1], sx, d + 1)
            return res[:1]
        if k == "ConditionalOperator":
            return source_of(e["c"][0], sx, d + 1)
        res = []
        for c in e.get("c", []):
            res += source_of(c, sx, d + 1)
        return res[:1]

    def chain(e):
        e = strip_all(e)
        if e is not None and e.get("k") == "CXXOperatorCallExpr" and e.get("op") == "<<" and len(e["c"]) == 3:
            chain(e["c"][1])
            out.extend(source_of(e["c"][2]))
    chain(expr)
    return out


def rule_report_provenance(prog, fixture=False):
    r = RuleResult("R-C02-4", "the info line and the .inf file show directory, name, lock, load, exec, length "
                   "(, start sector) in the documented order, each taken from its own accessor; only the two "
                   "addresses pass through sign_extend", floor=0 if fixture else 2)
    targets = []
    for fn in prog.functions.values():
        if fn.qn == "std::operator<<" and any("CatalogEntry" in (p.get("ct") or p.get("t") or "") for p in fn.params):
            targets.append((fn, INFO_ORDER, "info line"))
        if fn.qn.endswith("create_inf_file"):
            targets.append((fn, INF_ORDER, ".inf file"))
    for fn, order, what in targets:
        best = []
        for n in fn.walk():
            if n.get("k") == "CXXOperatorCallExpr" and n.get("op") == "<<":
                p = fn.parent(n)
                while p is not None and p.get("k") in ("ImplicitCastExpr", "ParenExpr", "ExprWithCleanups"):
                    p = fn.parent(p)
                if p is not None and p.get("k") == "CXXOperatorCallExpr" and p.get("op") == "<<":
                    continue   # not the outermost
                seq = _field_sources(fn, n)
                if len(seq) > len(best):
                    best = seq
        key = "%s::%s" % (fn.relfile(), fn.qn)
        ok = best == order
        if not ok and len(best) < len(order) and best == order[:len(best)]:
            # the output idiom changed (fields no longer in one insertion chain): the order cannot
            # be decided by this rule; that is not evidence of a defect
            r.undecided.append("cannot follow how %s composes the %s (found only %s in one insertion chain)" %
                               (fn.qn, what, [a for a, _ in best]))
            continue
        r.add(key, "%s:%d" % (fn.relfile(), fn.line), ok, "%s: %s" % (what, ", ".join(a + ("(sx)" if s else "") for a, s in best)) if ok else
              "the %s presents %s but the documented order/derivation is %s" %
              (what, ", ".join(a + ("(sign-extended)" if s else "") for a, s in best),
               ", ".join(a + ("(sign-extended)" if s else "") for a, s in order)))
    return r


def _all_sources(fn, e, depth=0, seen=None):
    """Set of CatalogEntry accessors an expression's value may derive from
    (through locals, array initialisers and range-for loop variables)."""
    seen = seen if seen is not None else set()
    e = strip_all(e)
    out = set()
    if e is None or depth > 8:
        return out
    k = e.get("k")
    if k == "CXXMemberCallExpr":
        cal = strip(e["c"][0])
        if cal and cal.get("n") in ACCESSORS and "CatalogEntry" in notpl(cal.get("q") or ""):
            return {cal.get("n")}
    if k == "DeclRefExpr" and e.get("dk") in ("Var", "ParmVar", "Binding"):
        if e["d"] in seen:
            return out
        seen.add(e["d"])
        for v in fn.walk():
            if v.get("k") == "VarDecl" and v.get("d") == e.get("d") and v.get("c"):
                out |= _all_sources(fn, v["c"][0], depth + 1, seen)
            if v.get("k") in ("BinaryOperator", "CompoundAssignOperator") and v.get("op", "").endswith("=") and \
                    v.get("op") not in ("==", "!=", "<=", ">=") and strip_all(v["c"][0]).get("d") == e.get("d"):
                out |= _all_sources(fn, v["c"][1], depth + 1, seen)
            if v.get("k") == "CXXForRangeStmt":
                parts = v.get("parts", {})
                lv = v["c"][parts["loopvar"]] if "loopvar" in parts else None
                if lv is not None and any(x.get("k") == "VarDecl" and x.get("d") == e.get("d") for x in walk(lv)):
                    rng = v["c"][parts["range"]]
                    out |= _all_sources(fn, rng, depth + 1, seen)
        return out
    for c in e.get("c", []):
        out |= _all_sources(fn, c, depth + 1, seen)
    return out


def rule_sign_extension_use(prog, fixture=False):
    r = RuleResult("R-C02-4b", "sign_extend is applied to load and execution addresses only - never to a file "
                   "length or start sector (which are shown as encoded)", floor=0 if fixture else 2)
    for fn in prog.functions.values():
        k = 0
        for n in fn.walk():
            if n.get("k") == "CallExpr" and notpl(n.get("q") or "").endswith("sign_extend") and call_args(n):
                k += 1
                src = _all_sources(fn, call_args(n)[0])
                bad = src - {"load_address", "exec_address"}
                key = "%s::%s::sign_extend#%d" % (fn.relfile(), fn.qn, k)
                r.add(key, fn.loc(n), not bad, "argument derives from %s" % (sorted(src) or "a non-catalogue value") if not bad else
                      "sign_extend is applied to a value that derives from %s: a %s of 128 KiB or more would be shown "
                      "with its top digits forced to FF" % (sorted(bad), sorted(bad)[0].replace("_", " ")))
    return r


# ---------------------------------------------------------------- R-C02-5
def _peel_casts(e):
    e = strip_all(e)
    while e is not None and e.get("k") in ("CStyleCastExpr", "CXXStaticCastExpr", "CXXFunctionalCastExpr",
                                           "ImplicitCastExpr") and e.get("c"):
        e = strip_all(e["c"][0])
    return e


def _local_init(fn, did):
    for n in fn.walk():
        if n.get("k") == "VarDecl" and n.get("d") == did:
            return n["c"][0] if n.get("c") else None
    return None


def _is_written(fn, did):
    from .. import flow
    for n in fn.walk():
        for d, _ in flow.written_decls(n):
            if d == did:
                return True
        if n.get("k") == "UnaryOperator" and n.get("op") in ("++", "--") and flow.lvalue_root(n["c"][0]) == did:
            return True
    return False


def _curdir_side(prog, fn, e, depth=0):
    """None: unrelated to the current directory.  'exact': the current directory
    itself.  'transformed': computed from it."""
    x = _peel_casts(e)
    if x is None:
        return None
    if x.get("k") == "MemberExpr" and x.get("n") == "current_directory":
        return "exact"
    mentions = any(y.get("k") == "MemberExpr" and y.get("n") == "current_directory" for y in walk(x))
    if mentions:
        return "transformed"
    if x.get("k") == "DeclRefExpr" and x.get("dk") == "Var" and depth < 3:
        # a local of this function or a captured local of the enclosing one
        for f in [fn] + [g for g in prog.functions.values() if g.key == fn.parent_key]:
            init = _local_init(f, x["d"])
            if init is not None:
                inner = _curdir_side(prog, f, init, depth + 1)
                if inner is None:
                    return None
                return "transformed" if (inner == "transformed" or _is_written(f, x["d"])) else "exact"
    return None


def _raw_directory(prog, fn, e, depth=0):
    """Is e the directory character of a catalogue entry, untransformed?"""
    x = _peel_casts(e)
    if x is None:
        return False, "empty"
    if x.get("k") == "CXXMemberCallExpr" and (strip(x["c"][0]) or {}).get("n") == "directory":
        return True, "directory()"
    if x.get("k") == "DeclRefExpr" and x.get("dk") == "ParmVar":
        if _is_written(fn, x["d"]):
            return False, "`%s` is modified before the comparison" % x.get("n")
        idx = [i for i, p in enumerate(fn.params) if p["d"] == x["d"]]
        if not idx or not fn.is_lambda:
            return False, "`%s` is a parameter whose callers this rule does not follow" % x.get("n")
        sites = 0
        for g in prog.functions.values():
            for c in g.walk():
                if c.get("k") == "CXXOperatorCallExpr" and c.get("fn") == fn.key and g.unit is fn.unit:
                    args = c["c"][2:]
                    if idx[0] < len(args):
                        sites += 1
                        ok, why = _raw_directory(prog, g, args[idx[0]], depth + 1)
                        if not ok:
                            return False, "called with %s (%s)" % (show(args[idx[0]]), why)
        return (sites > 0), ("bound to directory() at %d call sites" % sites if sites else "no call site found")
    if x.get("k") == "DeclRefExpr" and x.get("dk") == "Var" and depth < 3:
        init = _local_init(fn, x["d"])
        if init is not None and not _is_written(fn, x["d"]):
            return _raw_directory(prog, fn, init, depth + 1)
        return False, "`%s` is not a plain copy of directory()" % x.get("n")
    return False, "`%s` is not the entry's directory character itself" % show(x)


def rule_current_directory_tests(prog, fixture=False):
    r = RuleResult("R-C02-5", "cat decides 'is in the current directory' identically where it sorts and where it "
                   "prints: every comparison with the current directory is between the entry's directory "
                   "character itself and ctx.current_directory itself (no case folding on either side)",
                   floor=0 if fixture else 2)
    for fn in prog.functions.values():
        if not fn.relfile().endswith("cmd_cat.cc") and not fixture:
            continue
        k = 0
        for n in fn.walk():
            if n.get("k") != "BinaryOperator" or n.get("op") not in ("==", "!="):
                continue
            a, b = n["c"][0], n["c"][1]
            sa, sb = _curdir_side(prog, fn, a), _curdir_side(prog, fn, b)
            if sa is None and sb is None:
                continue
            k += 1
            key = "%s::%s::curdir-test#%d" % (fn.relfile(), fn.qn, k)
            cur, other, st = (a, b, sa) if sa is not None else (b, a, sb)
            if st != "exact":
                r.add(key, fn.loc(n), False, "`%s`: the current directory is transformed (`%s`) before the comparison; "
                      "directories are distinct when they differ only in case, and the listing below tests "
                      "them exactly" % (show(n), show(cur)))
                continue
            ok, why = _raw_directory(prog, fn, other)
            r.add(key, fn.loc(n), ok, "exact comparison of %s" % why if ok else
                  "`%s`: %s; entries are then sorted as current-directory files by a different test than the "
                  "one that prints them" % (show(n), why))
    return r


# ---------------------------------------------------------------- R-C02-7
def rule_cycle_presence(prog, fixture=False):
    r = RuleResult("R-C02-7", "whether the cycle number is reported depends only on whether the format keeps one "
                   "(the optional is engaged), never on its value: the result of sequence_number() travels as an "
                   "optional to where it is printed, and no condition there reads the value", floor=0 if fixture else 1)
    for fn in prog.functions.values():
        for n in fn.walk():
            if n.get("k") != "CXXMemberCallExpr" or (strip(n["c"][0]) or {}).get("n") != "sequence_number":
                continue
            if "optional" not in (n.get("t") or n.get("ct") or "optional"):
                continue
            if fn.name == "sequence_number":
                continue                      # the catalogue forwarding to its primary fragment
            key = "%s::%s::sequence_number()" % (fn.relfile(), fn.qn)
            p_ = fn.parent(n)
            while p_ is not None and p_.get("k") in ("ImplicitCastExpr", "MaterializeTemporaryExpr", "CXXBindTemporaryExpr",
                                                     "ExprWithCleanups", "ParenExpr"):
                p_ = fn.parent(p_)
            problem = None
            recv = None
            if p_ is not None and p_.get("k") == "MemberExpr" and p_.get("n") in ("value_or", "value"):
                problem = "the optional cycle number is collapsed with %s(): a format without a cycle number and a cycle " \
                          "number equal to the substitute become indistinguishable, so one of them is shown wrongly" % p_.get("n")
            elif p_ is not None and p_.get("k") in ("CXXConstructExpr", "CXXTemporaryObjectExpr") and "optional" in (p_.get("cls") or ""):
                # converted to another optional (e.g. optional<int>): engagement is preserved; find the receiving parameter
                q_ = fn.parent(p_)
                while q_ is not None and q_.get("k") in ("ImplicitCastExpr", "MaterializeTemporaryExpr", "CXXBindTemporaryExpr",
                                                         "ExprWithCleanups", "ParenExpr"):
                    q_ = fn.parent(q_)
                recv = q_
            elif p_ is not None and p_.get("k") == "CXXOperatorCallExpr" and p_.get("op") == "*":
                problem = "the optional cycle number is dereferenced without regard to whether the format has one"
            else:
                recv = p_
            if problem is None and recv is not None and is_call(recv):
                for t in prog.call_targets(fn, recv):
                    args = call_args(recv)
                    for prm, a in zip(t.params, args):
                        if any(x is n for x in walk(a)):
                            if "optional" not in (prm.get("t") or ""):
                                problem = "passed to `%s`, whose parameter `%s` is not an optional" % (t.qn, prm.get("n"))
                                continue
                            for c in t.walk():
                                if c.get("k") in ("IfStmt", "ConditionalOperator", "WhileStmt"):
                                    cond = c["c"][c["parts"]["cond"]] if c.get("parts") else c["c"][0]
                                    for x in walk(cond):
                                        if x.get("k") == "CXXOperatorCallExpr" and x.get("op") == "*" and \
                                                any(y.get("k") == "DeclRefExpr" and y.get("d") == prm["d"] for y in walk(x)):
                                            problem = "%s: a condition in %s reads the value of the cycle number" % (t.loc(cond), t.qn)
                                        if x.get("k") == "MemberExpr" and x.get("n") in ("value", "value_or") and \
                                                any(y.get("k") == "DeclRefExpr" and y.get("d") == prm["d"] for y in walk(x)):
                                            problem = "%s: a condition in %s reads the value of the cycle number" % (t.loc(cond), t.qn)
            r.add(key, fn.loc(n), problem is None, "travels as an optional; only its engagement is tested" if problem is None else problem)
    return r


def _shared_surface_format(prog):
    from . import c13
    r = c13.rule_format_of_own_surface(prog)
    r.rule = "R-C02-9"      # each surface's catalogue is read as the variant identified on that surface
    return r


def run(ctx):
    from . import c01
    prog = ctx.prog("dfs", "N")
    return [rule_entry_fields(prog), rule_fragment_header(prog), rule_title(prog), rule_sign_extend(prog),
            rule_crc(prog), rule_report_provenance(prog), rule_sign_extension_use(prog),
            rule_current_directory_tests(prog), c01.rule_opus_catalogue_slot(prog, rule_id="R-C02-6"),
            rule_cycle_presence(prog), _shared_enumeration(prog), _shared_surface_format(prog)]


def _shared_enumeration(prog):
    from . import c16
    r = c16.rule_enumeration_covers_all(prog)
    r.rule = "R-C02-8"       # show-titles reports the title of every occupied drive
    return r


SELFTESTS = [
    (rule_cycle_presence, ["c02_cyc_bad.cc"], ["c02_cyc_good.cc"], "sequence_number"),
    (rule_entry_fields, ["c02_bad.cc"], ["c02_good.cc"], "file_length"),
    (rule_sign_extend, ["c02_bad.cc"], ["c02_good.cc"], "sign_extend"),
    (rule_current_directory_tests, ["c02_bad.cc"], ["c02_good.cc"], "curdir-test"),
    (rule_crc, ["c02_crc_bad.cc"], ["c02_crc_good.cc"], "CRC16Base::update_bit"),
    (rule_crc, ["c02_crc_bad.cc"], ["c02_crc_good.cc"], "CRC16Base::update"),
]
