"""C08 - bbcbasic_to_text fails cleanly on arbitrary input files and options.

R-C08-1  option state is initialised in every configuration (clang's
         uninitialised-value analysis, NDEBUG and assertion-enabled)
R-C08-2  getopt tables agree with their handlers: a handler that reads optarg
         belongs to an option declared with a required argument, in the long
         table and in the short-option string
R-C08-3  cursor / remaining-length discipline of the token decoders: every read
         through the input cursor is dominated by a guard on the remaining length
R-C08-4  array subscripts stay inside their arrays (type-range interval domain)
R-C08-5  exit status is 0 or 1; no exit/abort calls
R-C08-6  every failure result is accompanied by a diagnostic on stderr
"""
from ..runner import RuleResult
from ..facts import AnalysisBroken
from ..model import strip, strip_all, walk, show, notpl, is_call, call_args
from .. import flow
from ..flow import Guards, folded, same_expr
from . import c07, c19

EXPLANATION = (
    "Static decision of structural clauses of C08 for all inputs and command lines: initialisation of option state "
    "in both build configurations (clang's CFG-based analysis), agreement between each getopt_long table, its "
    "short-option string and the handlers that read optarg, the exit-status value set of main, the "
    "cursor/remaining-length guards and array-index ranges of the decoders, and diagnostic-on-failure.  "
    "Not decided: full memory safety of the C units (goto-analyzer could not do it, DESIGN section 6).")
ASSUMPTIONS = ["clang -Wuninitialized family is sound for scalar locals on feasible paths it reports",
               "getopt_long semantics (optarg is NULL for options declared without argument)"]


def _option_rows(prog, fn, arr_expr):
    """Rows (name, has_arg, val) of the struct option array passed to getopt_long."""
    a = strip_all(arr_expr)
    init = None
    if a is not None and a.get("k") == "DeclRefExpr":
        for n in fn.walk():
            if n.get("k") == "VarDecl" and n.get("d") == a.get("d") and n.get("c"):
                init = n["c"][0]
        if init is None:
            for g in prog.globals.values():
                if g["n"] == a.get("n") and g.get("init"):
                    init = g["init"]
    if init is None:
        return None
    init = strip_all(init)
    rows = []
    for row in init.get("c", []):
        row = strip_all(row)
        cs = row.get("c", [])
        if len(cs) < 4:
            continue
        nm = strip_all(cs[0])
        name = nm.get("s") if nm.get("k") == "StringLiteral" else None
        rows.append({"name": name, "has_arg": folded(cs[1]), "val": folded(cs[3]), "node": row})
    return rows


def _switch_handlers(fn, sw):
    """case value -> list of statement nodes executed for it (with fall-through)."""
    body = None
    for c in sw.get("c", []):
        if c.get("k") == "CompoundStmt":
            body = c
    handlers = {}
    if body is None:
        return handlers
    active = set()

    def labels_and_stmt(n):
        labs = []
        while n is not None and n.get("k") in ("CaseStmt", "DefaultStmt"):
            if n.get("k") == "CaseStmt":
                labs.append(n.get("v"))
            else:
                labs.append("default")
            n = n["c"][-1] if n.get("c") else None
        return labs, n
    for st in body.get("c", []):
        if st.get("k") in ("CaseStmt", "DefaultStmt"):
            labs, inner = labels_and_stmt(st)
            active |= set(labs)
            for l in labs:
                handlers.setdefault(l, [])
            st = inner
        if st is None:
            continue
        for l in active:
            handlers[l].append(st)
        if _ends(st):
            active = set()
    return handlers


def _ends(st):
    k = st.get("k")
    if k in ("BreakStmt", "ReturnStmt", "ContinueStmt", "GotoStmt"):
        return True
    if k == "CompoundStmt" and st.get("c"):
        return _ends(st["c"][-1])
    return False


def rule_option_tables(prog, fixture=False):
    r = RuleResult("R-C08-2", "for every getopt_long call: an option whose handler reads optarg is declared with "
                   "a required argument in the long-option table, and the short-option string agrees with the "
                   "table", floor=0 if fixture else 3)
    for fn in prog.functions.values():
        for call in fn.walk():
            if call.get("k") != "CallExpr" or notpl(call.get("q") or "") != "getopt_long":
                continue
            args = call_args(call)
            if len(args) < 4:
                continue
            optstr = strip_all(args[2])
            shorts = optstr.get("s") if optstr is not None and optstr.get("k") == "StringLiteral" else None
            rows = _option_rows(prog, fn, args[3])
            if rows is None or shorts is None:
                raise AnalysisBroken("cannot resolve the option table of getopt_long in " + fn.qn)
            # the variable receiving the result, and the switch on it
            handlers = {}
            for sw in fn.walk():
                if sw.get("k") == "SwitchStmt":
                    handlers.update(_switch_handlers(fn, sw))
            short_has = {}
            i = 0
            s = shorts.lstrip("+-:")
            while i < len(s):
                ch = s[i]
                colons = 0
                while i + 1 + colons < len(s) and s[i + 1 + colons] == ":":
                    colons += 1
                short_has[ord(ch)] = colons
                i += 1 + colons
            for row in rows:
                if row["name"] is None:
                    continue
                key = "%s::%s::--%s" % (fn.relfile(), fn.qn, row["name"])
                h = handlers.get(row["val"])
                reads = h is not None and any(x.get("k") == "DeclRefExpr" and x.get("n") == "optarg"
                                              for st in h for x in walk(st))
                problems = []
                if reads and row["has_arg"] != 1:
                    problems.append("its handler reads optarg but the option is declared with has_arg=%s, so "
                                    "optarg is NULL there" % row["has_arg"])
                if row["val"] in short_has:
                    want = 1 if row["has_arg"] == 1 else (2 if row["has_arg"] == 2 else 0)
                    if short_has[row["val"]] != want:
                        problems.append("short option -%s takes %s argument in the option string %r but the long "
                                        "option says has_arg=%s" % (chr(row["val"]), "an" if short_has[row["val"]] else "no",
                                                                     shorts, row["has_arg"]))
                if h is None and row["val"] is not None:
                    problems.append("no case handles its value %s" % row["val"])
                r.add(key, fn.loc(row["node"]), not problems, "; ".join(problems) or
                      ("handler reads optarg, has_arg=1" if reads else "handler does not read optarg"),
                      nontrivial=reads)
            for v, colons in short_has.items():
                if not any(row["val"] == v for row in rows):
                    h = handlers.get(v)
                    reads = h is not None and any(x.get("k") == "DeclRefExpr" and x.get("n") == "optarg"
                                                  for st in h for x in walk(st))
                    key = "%s::%s::-%s" % (fn.relfile(), fn.qn, chr(v))
                    r.add(key, fn.loc(call), not (reads and colons != 1),
                          "short-only option; handler reads optarg=%s, colons=%d" % (reads, colons))
    return r


def rule_exit_status(prog, fixture=False):
    r = RuleResult("R-C08-5", "main returns only 0 or 1 and the program never calls exit/abort",
                   floor=0 if fixture else 1)
    main = prog.fn1("main")
    k = 0
    for n in main.walk():
        if n.get("k") != "ReturnStmt":
            continue
        k += 1
        key = "%s::main::return#%d" % (main.relfile(), k)
        vs = c07.value_set(prog, main, n["c"][0]) if n.get("c") else None
        if vs is None:
            r.add(key, main.loc(n), False, "exit status %s is not provably 0 or 1" % (show(n["c"][0]) if n.get("c") else ""))
        else:
            r.add(key, main.loc(n), vs <= {0, 1}, "status in %s" % sorted(vs))
    for fn in prog.functions.values():
        for n in fn.walk():
            if n.get("k") == "CallExpr" and notpl(n.get("q") or "") in c07.TERMINATORS:
                r.add("%s::%s::%s()" % (fn.relfile(), fn.qn, n.get("q")), fn.loc(n), False,
                      "%s() ends the process without returning from main" % n.get("q"))
    return r


def rule_diagnosed_failures(prog, fixture=False):
    from ..diag import DiagAnalysis
    r = RuleResult("R-C08-6", "every path of bbcbasic_to_text to a non-zero exit status writes a diagnostic to "
                   "standard error first (directly or through callees that always diagnose their own failures)",
                   floor=0 if fixture else 1)
    da = DiagAnalysis(prog)
    for f in prog.fn("main", required=not fixture):
        ok, why = da.classify(f, "diag")
        r.add("%s::%s" % (f.relfile(), f.qn), "%s:%d" % (f.relfile(), f.line), ok,
              "all failure points diagnosed" if ok else
              "exit status 1 can be produced without any message on standard error: " + why)
    r.info["functions_classified"] = len(da.memo)
    return r


def rule_longindex(prog, fixture=False):
    r = RuleResult("R-C08-7", "the long-option index that getopt_long fills in only for long options is read only "
                   "where a long option was matched (or is initialised beforehand)", floor=0)
    for fn in prog.functions.values():
        for call in fn.walk():
            if call.get("k") != "CallExpr" or notpl(call.get("q") or "") != "getopt_long":
                continue
            args = call_args(call)
            if len(args) < 5:
                continue
            a = strip_all(args[4])
            if a is None or a.get("k") != "UnaryOperator" or a.get("op") != "&":
                continue
            v = strip_all(a["c"][0])
            if v.get("k") != "DeclRefExpr":
                continue
            did = v["d"]
            initialised = any(n.get("k") == "VarDecl" and n.get("d") == did and n.get("c") for n in fn.walk())
            optstr = strip_all(args[2])
            shorts = (optstr.get("s") or "") if optstr is not None else ""
            short_vals = set(ord(c) for c in shorts.lstrip("+-:") if c != ":")
            handlers = {}
            for sw in fn.walk():
                if sw.get("k") == "SwitchStmt":
                    handlers.update(_switch_handlers(fn, sw))
            in_handler = {}
            for lab, stmts in handlers.items():
                for st in stmts:
                    for x in walk(st):
                        in_handler.setdefault(x["i"], set()).add(lab)
            for u in fn.walk():
                if u.get("k") == "DeclRefExpr" and u.get("d") == did and u is not v:
                    labs = in_handler.get(u["i"])
                    key = "%s::%s::%s@%s" % (fn.relfile(), fn.qn, v.get("n"), sorted(map(str, labs)) if labs else "outside")
                    if initialised:
                        r.add(key, fn.loc(u), True, "initialised at its declaration")
                    elif not labs:
                        r.add(key, fn.loc(u), False, "`%s` is read outside the option handlers, where getopt_long need "
                              "not have written it: uninitialised value" % v.get("n"))
                    else:
                        bad = [l for l in labs if l in short_vals or l in ("default", 63)]
                        r.add(key, fn.loc(u), not bad, "read only in handlers of long-only options" if not bad else
                              "`%s` is read in the handler of an option that also has the short form -%s: getopt_long does "
                              "not set it for short options, so an uninitialised value indexes the option table" %
                              (v.get("n"), chr(bad[0]) if isinstance(bad[0], int) and 32 < bad[0] < 127 else bad[0]))
    return r


# ---------------------------------------------------------------- R-C08-3
def _is_unmoved_copy(fn, var_d, target_d, the_write):
    """var is declared as `T *var = *target`, never reassigned, and `the_write` is the
    only write to *target in the function: at the_write, var still equals *target."""
    init = None
    for n in fn.walk():
        if n.get("k") == "VarDecl" and n.get("d") == var_d and n.get("c"):
            init = n["c"][0]
    if init is None:
        return False
    e, depth = _deref_chain(init)
    if not (depth == 1 and e is not None and e.get("d") == target_d):
        return False
    for n in fn.walk():
        if n is the_write:
            continue
        kk = n.get("k")
        tgt = None
        if kk == "UnaryOperator" and n.get("op") in ("++", "--"):
            tgt = n["c"][0]
        elif kk in ("BinaryOperator", "CompoundAssignOperator") and n.get("op") in flow.ASSIGN_OPS:
            tgt = n["c"][0]
        if tgt is None:
            continue
        t = strip_all(tgt)
        if t is not None and t.get("k") == "DeclRefExpr" and t.get("d") == var_d:
            return False
        e2, d2 = _deref_chain(tgt)
        if d2 == 1 and e2 is not None and e2.get("d") == target_d:
            return False
    return True


def _deref_chain(e):
    """For **input / *p : returns the innermost pointer variable expression and depth."""
    e = strip_all(e)
    depth = 0
    while e is not None and e.get("k") == "UnaryOperator" and e.get("op") == "*":
        depth += 1
        e = strip_all(e["c"][0])
    return e, depth


def rule_cursor_discipline(prog, fixture=False):
    r = RuleResult("R-C08-3", "token decoders: every byte read through the input cursor is dominated by a guard "
                   "that enough bytes remain, and the cursor and the remaining-length counter move together",
                   floor=0 if fixture else 5)
    for fn in prog.functions.values():
        # (cursor, length) pairs: (const unsigned char **input, unsigned char *len) parameters
        cur = [p for p in fn.params if (p.get("ct") or p.get("t") or "").replace(" ", "") in
               ("constunsignedchar**", "unsignedcharconst**")]
        ln = [p for p in fn.params if (p.get("ct") or p.get("t") or "").replace(" ", "") == "unsignedchar*"]
        if not (cur and ln):
            continue
        cd, ld = cur[0]["d"], ln[0]["d"]
        g = Guards(fn)
        # local aliases of *input
        aliases = set()
        for v in fn.walk():
            if v.get("k") == "VarDecl" and v.get("c"):
                e, depth = _deref_chain(v["c"][0])
                if depth == 1 and e is not None and e.get("k") == "DeclRefExpr" and e.get("d") == cd:
                    aliases.add(v["d"])

        def remaining_at_least(node, need):
            """must-facts imply *len >= need"""
            for atom, truth in (g.truths(node) or []):
                a, depth = _deref_chain(atom)
                if truth and depth == 1 and a is not None and a.get("d") == ld and need <= 1:
                    return True
            for l, rel, rr in (g.cmps(node) or []):
                a, depth = _deref_chain(l)
                if depth == 1 and a is not None and a.get("k") == "DeclRefExpr" and a.get("d") == ld:
                    k = folded(rr)
                    if k is None:
                        continue
                    if (rel == ">=" and k >= need) or (rel == ">" and k + 1 >= need) or (rel == "==" and k >= need) \
                            or (rel == "!=" and k == 0 and need <= 1):
                        return True
            return False
        k = 0
        for n in fn.walk():
            need = None
            if n.get("k") == "UnaryOperator" and n.get("op") == "*":
                e, depth = _deref_chain(n)
                if depth == 2 and e is not None and e.get("k") == "DeclRefExpr" and e.get("d") == cd:
                    # only the outermost ** (not the inner *input on its own)
                    par = fn.parent(n)
                    need = 1
            elif n.get("k") == "ArraySubscriptExpr":
                b, depth = _deref_chain(n["c"][0])
                idx = folded(n["c"][1])
                if idx is not None and b is not None and b.get("k") == "DeclRefExpr" and \
                        ((depth == 1 and b.get("d") == cd) or (depth == 0 and b.get("d") in aliases)):
                    need = idx + 1
            if need is None:
                continue
            # skip when this is an lvalue being incremented (++*input handled below)
            par = fn.parent(n)
            if par is not None and par.get("k") == "UnaryOperator" and par.get("op") in ("++", "--"):
                continue
            k += 1
            ok = remaining_at_least(n, need)
            key = "%s::%s::read#%d(%s)" % (fn.relfile(), fn.qn, k, show(n))
            r.add(key, fn.loc(n), ok, "guarded: at least %d byte(s) remain" % need if ok else
                  "`%s` reads input byte %d beyond the cursor without a dominating check that %d byte(s) remain in the "
                  "line: a token cut off by the end of the line reads past the data" % (show(n), need - 1, need))
        # cursor and counter move together (per basic block)
        for bid in fn.cfg.reachable():
            dc = dl = 0
            nodes = []
            for n in flow.element_nodes(fn, bid):
                def delta(n, target_d):
                    """signed change applied to *<target>"""
                    kk = n.get("k")
                    if kk == "UnaryOperator" and n.get("op") in ("++", "--"):
                        e, depth = _deref_chain(n["c"][0])
                        if depth == 1 and e is not None and e.get("d") == target_d:
                            return 1 if n["op"] == "++" else -1
                    if kk == "CompoundAssignOperator" and n.get("op") in ("+=", "-="):
                        e, depth = _deref_chain(n["c"][0])
                        if depth == 1 and e is not None and e.get("d") == target_d and folded(n["c"][1]) is not None:
                            return folded(n["c"][1]) * (1 if n["op"] == "+=" else -1)
                    if kk == "BinaryOperator" and n.get("op") == "=":
                        e, depth = _deref_chain(n["c"][0])
                        if depth == 1 and e is not None and e.get("d") == target_d:
                            rhs = strip_all(n["c"][1])
                            if rhs.get("k") == "BinaryOperator" and rhs.get("op") in ("-", "+") and folded(rhs["c"][1]) is not None:
                                e2, d2 = _deref_chain(rhs["c"][0])
                                if d2 == 1 and e2 is not None and e2.get("d") == target_d:
                                    return folded(rhs["c"][1]) * (1 if rhs["op"] == "+" else -1)
                                # `*input = p + k` where p is a never-reassigned copy of *input taken while
                                # *input had not been written yet (this assignment is its only write)
                                if d2 == 0 and e2 is not None and e2.get("k") == "DeclRefExpr" and \
                                        _is_unmoved_copy(fn, e2.get("d"), target_d, n):
                                    return folded(rhs["c"][1]) * (1 if rhs["op"] == "+" else -1)
                            return "?"
                    return 0
                a, b = delta(n, cd), delta(n, ld)
                if a == "?" or b == "?":
                    dc = "?"
                    nodes.append(n)
                    continue
                if a or b:
                    nodes.append(n)
                if dc != "?":
                    dc += a
                    dl += b
            if nodes:
                key = "%s::%s::advance@%s" % (fn.relfile(), fn.qn, fn.loc(nodes[0]).split(":")[-1])
                ok = dc != "?" and dc == -dl
                r.add(key, fn.loc(nodes[0]), ok, "cursor %+d, remaining %+d" % (dc, dl) if ok else
                      "the cursor moves by %s but the remaining-length counter by %s in the same step: the two get out of "
                      "step and later guards no longer protect the reads" % (dc, dl))
    # callers that own the cursor and counter as locals and lend them out by address
    for fn in prog.functions.values():
        pairs = set()
        for n in fn.walk():
            if n.get("k") == "CallExpr" and n.get("fn"):
                ts = prog.resolve(fn, n["fn"])
                for t in ts:
                    ci = [i for i, p_ in enumerate(t.params) if (p_.get("ct") or p_.get("t") or "").replace(" ", "") in
                          ("constunsignedchar**", "unsignedcharconst**")]
                    li = [i for i, p_ in enumerate(t.params) if (p_.get("ct") or p_.get("t") or "").replace(" ", "") == "unsignedchar*"]
                    a = call_args(n)
                    if ci and li and max(ci[0], li[0]) < len(a):
                        x, y = strip_all(a[ci[0]]), strip_all(a[li[0]])
                        if x.get("k") == "UnaryOperator" and x.get("op") == "&" and y.get("k") == "UnaryOperator" and y.get("op") == "&":
                            xv, yv = strip_all(x["c"][0]), strip_all(y["c"][0])
                            if xv.get("k") == "DeclRefExpr" and yv.get("k") == "DeclRefExpr":
                                pairs.add((xv["d"], yv["d"], xv["n"], yv["n"]))
        if not pairs:
            continue
        g = Guards(fn)
        for cd, ld, cn, lnm in pairs:
            # the length may be derived from an end pointer in every pass: len = end - p
            end_d = None
            defs = [v["c"][0] for v in fn.walk() if v.get("k") == "VarDecl" and v.get("d") == ld and v.get("c")]
            defs += [x["c"][1] for x in fn.walk() if x.get("k") == "BinaryOperator" and x.get("op") == "=" and
                     (strip_all(x["c"][0]) or {}).get("d") == ld]
            ends = set()
            for d_ in defs:
                e_ = strip_all(d_)
                while e_ is not None and e_.get("k") in ("CStyleCastExpr", "CXXStaticCastExpr") and e_.get("c"):
                    e_ = strip_all(e_["c"][0])
                if e_ is not None and e_.get("k") == "BinaryOperator" and e_.get("op") == "-" and \
                        (strip_all(e_["c"][1]) or {}).get("d") == cd and (strip_all(e_["c"][0]) or {}).get("k") == "DeclRefExpr":
                    ends.add(strip_all(e_["c"][0])["d"])
                else:
                    ends.add(None)
            other_len_writes = [x for x in fn.walk() if x.get("k") in ("UnaryOperator", "CompoundAssignOperator") and
                                x.get("op") in ("++", "--", "+=", "-=") and (strip_all(x["c"][0]) or {}).get("d") == ld]
            if defs and len(ends) == 1 and None not in ends and not other_len_writes:
                e0 = next(iter(ends))
                if not any(d2 == e0 for x in fn.walk() for d2, _ in flow.written_decls(x) if x.get("k") not in ("VarDecl", "DeclStmt")):
                    end_d = e0
            k = 0
            for n in fn.walk():
                if end_d is not None and n.get("k") == "UnaryOperator" and n.get("op") == "*":
                    inner = strip_all(n["c"][0])
                    if inner.get("k") == "UnaryOperator" and inner.get("op") in ("++", "--"):
                        inner = strip_all(inner["c"][0])
                    if inner.get("k") == "DeclRefExpr" and inner.get("d") == cd:
                        k += 1
                        # `*p++`: the facts that matter are those before the increment
                        probe = strip_all(n["c"][0]) if (strip_all(n["c"][0]) or {}).get("op") in ("++", "--") else n
                        cm = (g.cmps(probe) or []) + (g.cmps(n) or [])
                        ok = any(rel in ("!=", "<") and {(strip_all(l) or {}).get("d"), (strip_all(rr) or {}).get("d")} == {cd, end_d}
                                 for l, rel, rr in cm) or \
                            any(rel == ">" and (strip_all(l) or {}).get("d") == end_d and (strip_all(rr) or {}).get("d") == cd
                                for l, rel, rr in cm)
                        key = "%s::%s::read#%d(*%s)" % (fn.relfile(), fn.qn, k, cn)
                        r.add(key, fn.loc(n), ok, "guarded by %s != end" % cn if ok else
                              "`%s` reads a byte of the line without a dominating check that the cursor has not reached the end" % show(n))
                    continue
                if end_d is not None:
                    continue
                if n.get("k") == "UnaryOperator" and n.get("op") == "*":
                    inner = strip_all(n["c"][0])
                    if inner.get("k") == "UnaryOperator" and inner.get("op") in ("++", "--"):
                        inner = strip_all(inner["c"][0])
                    if inner.get("k") == "DeclRefExpr" and inner.get("d") == cd:
                        k += 1
                        ok = False
                        for atom, truth in (g.truths(n) or []):
                            a = strip_all(atom)
                            if truth and a.get("k") == "DeclRefExpr" and a.get("d") == ld:
                                ok = True
                        for l, rel, rr in (g.cmps(n) or []):
                            a = strip_all(l)
                            if a.get("k") == "DeclRefExpr" and a.get("d") == ld and folded(rr) is not None and \
                                    ((rel == ">" and folded(rr) >= 0) or (rel == ">=" and folded(rr) >= 1) or (rel == "!=" and folded(rr) == 0)):
                                ok = True
                        key = "%s::%s::read#%d(*%s)" % (fn.relfile(), fn.qn, k, cn)
                        r.add(key, fn.loc(n), ok, "guarded by %s != 0" % lnm if ok else
                              "`%s` reads a byte of the line without a dominating check that `%s` is non-zero" % (show(n), lnm))
            for bid in (fn.cfg.reachable() if end_d is None else []):
                dc = dl = 0
                first = None
                for n in flow.element_nodes(fn, bid):
                    if n.get("k") == "UnaryOperator" and n.get("op") in ("++", "--"):
                        t = strip_all(n["c"][0])
                        if t.get("k") == "DeclRefExpr" and t.get("d") == cd:
                            dc += 1 if n["op"] == "++" else -1
                            first = first or n
                        if t.get("k") == "DeclRefExpr" and t.get("d") == ld:
                            dl += 1 if n["op"] == "++" else -1
                            first = first or n
                if first is not None:
                    key = "%s::%s::advance@%s" % (fn.relfile(), fn.qn, fn.loc(first).split(":")[-1])
                    r.add(key, fn.loc(first), dc == -dl, "cursor %+d, remaining %+d" % (dc, dl) if dc == -dl else
                          "`%s` moves by %d but `%s` by %d in the same step" % (cn, dc, lnm, dl))
    return r


# ---------------------------------------------------------------- R-C08-4
def _array_extent(e):
    x = e
    while x is not None and x.get("k") in ("ImplicitCastExpr", "ParenExpr"):
        if x.get("ck") == "ArrayToPointerDecay":
            t = x["c"][0].get("ct") or x["c"][0].get("t") or ""
            import re as _re
            m = _re.search(r"\[(\d+)\]", t)
            if m:
                return int(m.group(1))
        x = x["c"][0] if x.get("c") else None
    return None


def _interval(fn, g, at, e, depth=0):
    """[lo, hi] of an integer expression at node `at` from its type and the must-facts there."""
    e0 = e
    e = strip(e)
    if e is None or depth > 6:
        return None
    v = folded(e)
    if v is not None:
        return (v, v)
    k = e.get("k")
    if k in ("ImplicitCastExpr", "CStyleCastExpr", "ParenExpr") and e.get("c"):
        inner = _interval(fn, g, at, e["c"][0], depth + 1)
        w, sg = e.get("w"), e.get("sg")
        if inner and w:
            lo, hi = inner
            tlo, thi = (-(1 << (w - 1)), (1 << (w - 1)) - 1) if sg else (0, (1 << w) - 1)
            if tlo <= lo and hi <= thi:
                return inner
        if w:
            return ((-(1 << (w - 1)), (1 << (w - 1)) - 1) if sg else (0, (1 << w) - 1))
        return None
    if k == "BinaryOperator" and e.get("op") in ("-", "+"):
        a = _interval(fn, g, at, e["c"][0], depth + 1)
        b = _interval(fn, g, at, e["c"][1], depth + 1)
        if a and b:
            return (a[0] - b[1], a[1] - b[0]) if e["op"] == "-" else (a[0] + b[0], a[1] + b[1])
        return None
    if k == "DeclRefExpr" and e.get("w"):
        w, sg = e["w"], e.get("sg")
        lo, hi = (-(1 << (w - 1)), (1 << (w - 1)) - 1) if sg else (0, (1 << w) - 1)
        for l, rel, rr in (g.cmps(at) or []):
            if strip_all(l).get("k") == "DeclRefExpr" and strip_all(l).get("d") == e.get("d"):
                c = folded(rr)
                if c is None:
                    # a bound that is itself a variable with a known range
                    rv = strip_all(rr)
                    ri = _interval(fn, g, at, rr, depth + 1) if rv is not None and rv.get("k") == "DeclRefExpr" and \
                        rv.get("d") != e.get("d") else None
                    if ri and rel in ("<", "<="):
                        hi = min(hi, ri[1] - (1 if rel == "<" else 0))
                    elif ri and rel in (">", ">="):
                        lo = max(lo, ri[0] + (1 if rel == ">" else 0))
                    continue
                if rel == ">":
                    lo = max(lo, c + 1)
                elif rel == ">=":
                    lo = max(lo, c)
                elif rel == "<":
                    hi = min(hi, c - 1)
                elif rel == "<=":
                    hi = min(hi, c)
                elif rel == "==":
                    lo, hi = c, c
                elif rel == "!=" and c == lo:
                    lo = c + 1
        for atom, truth in (g.truths(at) or []):
            a = strip_all(atom)
            if truth and a.get("k") == "DeclRefExpr" and a.get("d") == e.get("d") and lo == 0:
                lo = 1
        # a local that is initialised once and never written again also has its initialiser's range
        # (evaluated where it is declared)
        if e.get("dk") == "Var" and not any(d_ == e.get("d") for x in fn.walk() for d_, _ in flow.written_decls(x)):
            for v in fn.walk():
                if v.get("k") == "VarDecl" and v.get("d") == e.get("d") and v.get("c"):
                    iv = _interval(fn, g, v, v["c"][0], depth + 1)
                    if iv:
                        lo, hi = max(lo, iv[0]), min(hi, iv[1])
        return (lo, hi)
    if k == "UnaryOperator" and e.get("op") == "*" and e.get("w"):
        # *p : the range of its type refined by facts about the very same expression
        w, sg = e["w"], e.get("sg")
        lo, hi = (-(1 << (w - 1)), (1 << (w - 1)) - 1) if sg else (0, (1 << w) - 1)
        for l, rel, rr in (g.cmps(at) or []):
            if same_expr(l, e):
                c = folded(rr)
                if c is None:
                    continue
                if rel == ">":
                    lo = max(lo, c + 1)
                elif rel == ">=":
                    lo = max(lo, c)
                elif rel == "<":
                    hi = min(hi, c - 1)
                elif rel == "<=":
                    hi = min(hi, c)
                elif rel == "==":
                    lo, hi = c, c
        return (lo, hi)
    return None


# library calls that access `length` bytes of a buffer: name -> [(buffer argument, [length arguments (multiplied)])]
LENGTH_CALLS = {
    "fread": [(0, [1, 2])], "fwrite": [(0, [1, 2])], "memset": [(0, [2])], "memcpy": [(0, [2]), (1, [2])],
    "memmove": [(0, [2]), (1, [2])], "strncpy": [(0, [2])], "snprintf": [(0, [1])], "fgets": [(0, [1])],
    "memcmp": [(0, [2]), (1, [2])], "strncat": [(0, [2])],
}


def rule_index_ranges(prog, fixture=False):
    r = RuleResult("R-C08-4", "input-dependent array subscripts and fread lengths in the decoders stay inside the "
                   "array (type-range intervals refined by dominating comparisons)", floor=0 if fixture else 4)
    for fn in prog.functions.values():
        if not fn.relfile().endswith(("lines.c", "decoder.c")) and not fixture:
            continue
        g = None
        k = 0
        # pointer locals that only ever alias arrays of a known extent
        ptr_extent = {}
        for n in fn.walk():
            if n.get("k") == "BinaryOperator" and n.get("op") == "=" and strip_all(n["c"][0]).get("k") == "DeclRefExpr":
                ext = _array_extent(n["c"][1])
                d = strip_all(n["c"][0])["d"]
                if ext is not None:
                    ptr_extent[d] = min(ext, ptr_extent.get(d, ext))
                elif folded(n["c"][1]) != 0:
                    ptr_extent[d] = -1
        for n in fn.walk():
            if n.get("k") == "ArraySubscriptExpr":
                ext = _array_extent(n["c"][0])
                if ext is None:
                    b = strip_all(n["c"][0])
                    if b.get("k") == "DeclRefExpr" and ptr_extent.get(b.get("d"), -1) > 0:
                        ext = ptr_extent[b["d"]]
                if ext is None:
                    continue
                if folded(n["c"][1]) is not None:
                    iv = (folded(n["c"][1]),) * 2
                else:
                    g = g or Guards(fn)
                    iv = _interval(fn, g, n, n["c"][1])
                k += 1
                key = "%s::%s::%s" % (fn.relfile(), fn.qn, show(n))
                ok = iv is not None and 0 <= iv[0] and iv[1] < ext
                r.add(key, fn.loc(n), ok, "index in [%d,%d], array of %d" % (iv[0], iv[1], ext) if ok else
                      "`%s`: the index can be %s, outside the array of %d elements" %
                      (show(n), ("anything" if iv is None else "in [%d,%d]" % iv), ext))
            elif n.get("k") == "CallExpr" and notpl(n.get("q") or "").split("::")[-1] in LENGTH_CALLS:
                name = notpl(n.get("q") or "").split("::")[-1]
                a = call_args(n)
                for bufi, leni in LENGTH_CALLS[name]:
                    if bufi >= len(a) or any(i >= len(a) for i in leni):
                        continue
                    ext = _array_extent(a[bufi])
                    if ext is None:
                        continue
                    g = g or Guards(fn)
                    ivs = [_interval(fn, g, n, a[i]) for i in leni]
                    k += 1
                    key = "%s::%s::%s(%s)" % (fn.relfile(), fn.qn, name, show(a[bufi]))
                    total = 1
                    for iv in ivs:
                        total = None if (iv is None or total is None) else total * iv[1]
                    ok = total is not None and total <= ext
                    r.add(key, fn.loc(n), ok, "at most %d bytes, array of %d" % (total, ext) if ok else
                          "%s may access more than the %d bytes of `%s` (length %s)" %
                          (name, ext, show(a[bufi]), "unbounded" if total is None else "up to %d" % total))
    return r


# ---------------------------------------------------------------- R-C08-8
ALLOCATORS = {"new_decoder": "destroy_decoder", "fopen": "fclose", "malloc": "free", "calloc": "free", "realloc": "free"}
RELEASERS = set(ALLOCATORS.values())


def _null_key(k):
    import re
    return k == "#0" or bool(re.fullmatch(r"(cast<[^>]*>\()+#0\)+", k))


def rule_resource_typestate(prog, fixture=False):
    from ..flow import PathStates
    r = RuleResult("R-C08-8", "a pointer obtained from new_decoder/fopen/malloc is never used after it was handed to "
                   "destroy_decoder/fclose/free or set to NULL (path-sensitive typestate over each function, loops "
                   "included)", floor=0 if fixture else 2)
    for fn in prog.functions.values():
        # local pointer variables that are released somewhere in this function
        released = {}
        for n in fn.walk():
            if n.get("k") == "CallExpr" and notpl(n.get("q") or "") in RELEASERS:
                a = call_args(n)
                v = strip_all(a[0]) if a else None
                if v is not None and v.get("k") == "DeclRefExpr" and v.get("dk") == "Var":
                    released[v["d"]] = v.get("n")
        for d, name in released.items():
            def elem_tf(n, st, d=d):
                k = n.get("k")
                if k == "CallExpr" and notpl(n.get("q") or "") in RELEASERS:
                    a = call_args(n)
                    v = strip_all(a[0]) if a else None
                    if v is not None and v.get("k") == "DeclRefExpr" and v.get("d") == d:
                        return "D"
                tgt = rhs = None
                if k == "BinaryOperator" and n.get("op") == "=":
                    tgt, rhs = strip_all(n["c"][0]), n["c"][1]
                elif k == "VarDecl" and n.get("d") == d:
                    tgt, rhs = {"k": "DeclRefExpr", "d": d}, (n["c"][0] if n.get("c") else None)
                    if rhs is None:
                        return "U"
                elif k == "DeclStmt":
                    for v in n.get("c", []):
                        if v.get("k") == "VarDecl" and v.get("d") == d:
                            if not v.get("c"):
                                return "U"
                            rr = strip_all(v["c"][0])
                            if folded(v["c"][0]) == 0:
                                return "N"
                            return "V" if rr is not None and rr.get("k") == "CallExpr" else "?"
                if tgt is not None and tgt.get("k") == "DeclRefExpr" and tgt.get("d") == d and rhs is not None:
                    rr = strip_all(rhs)
                    if folded(rhs) == 0:
                        return "N"
                    if rr is not None and rr.get("k") == "CallExpr":
                        return "V"
                    return "?"
                return st

            def edge_tf(facts_, st, d=d):
                # `if (0 == v)` / `if (!v)` edges refine the state
                for k in facts_:
                    if k[0] == "T" and k[1] == "d%s" % d:
                        if k[2] is False:
                            return "N" if st in ("V", "?", "N") else st
                        if k[2] is True and st == "N":
                            return None
                    if k[0] == "C" and ((k[1] == "d%s" % d and _null_key(k[3])) or (k[3] == "d%s" % d and _null_key(k[1]))):
                        if k[2] == "==":
                            return "N" if st in ("V", "?", "N") else st
                        if k[2] == "!=" and st == "N":
                            return None
                return st
            ps = PathStates(fn, "U", elem_tf, edge_tf)
            k = 0
            for n in fn.walk():
                if n.get("k") != "CallExpr":
                    continue
                for a in call_args(n):
                    v = strip_all(a)
                    if v is None or v.get("k") != "DeclRefExpr" or v.get("d") != d:
                        continue
                    k += 1
                    sts = ps.before(n)
                    if sts is None:
                        continue
                    key = "%s::%s::%s@%s" % (fn.relfile(), fn.qn, name, notpl(n.get("q") or "?"))
                    bad = sorted(x for x in sts if x in ("D", "N", "U"))
                    isrel = notpl(n.get("q") or "") in RELEASERS
                    if isrel and notpl(n.get("q") or "") not in ("fclose", "pclose", "closedir"):
                        bad = [x for x in bad if x in ("D", "U")]       # free(NULL) and wrappers of free are harmless
                    words = {"D": "already released", "N": "NULL", "U": "not yet assigned"}
                    r.add(key, fn.loc(n), not bad, "valid on every path" if not bad else
                          "`%s` is passed to %s on a path where it is %s: %s" %
                          (name, notpl(n.get("q") or "?"), " or ".join(words[x] for x in bad),
                           "the object is used after it was destroyed (e.g. the second input file of one command line)"
                           if "D" in bad else "the call dereferences an invalid pointer and the program dies with a signal"))
    return r


# ---------------------------------------------------------------- R-C08-9
def rule_tables_filled(prog, fixture=False):
    r = RuleResult("R-C08-9", "every function that builds one of the extension-token tables (`const char **output`) "
                   "fills the whole table on every path: the fill-with-invalid helper is called before anything "
                   "else and unconditionally (an entry left unset is an uninitialised pointer that a token byte "
                   "can select)", floor=0 if fixture else 3)
    fillers = [f for f in prog.functions.values() if f.name == "build_invalid_map"]
    if not fillers and not fixture:
        r.undecided.append("no build_invalid_map function found")
        return r
    fkeys = {f.key for f in fillers}
    for fn in prog.functions.values():
        outp = [p_ for p_ in fn.params if (p_.get("t") or "").replace(" ", "") == "constchar**"]
        if not outp or fn.key in fkeys or not fn.name.startswith("build_map"):
            continue

        def transfer(x, outp=outp):
            if x.get("k") == "CallExpr" and x.get("fn") in fkeys:
                a = call_args(x)
                if a and (strip_all(a[0]) or {}).get("d") == outp[0]["d"]:
                    return True
            return None
        at = flow.must_hold_at(fn, transfer)
        # at every store into the table and at every exit the table is known to have been filled
        bad = None
        for n in fn.walk():
            if n.get("k") == "ReturnStmt" and at(n) is False:
                bad = n
        # implicit return at the end of a void function: the exit block's predecessors
        cfg = fn.cfg
        ends = [p_ for p_ in cfg.pred.get(cfg.exit, []) if p_ in cfg.reachable()]
        end_ok = True
        for b in ends:
            els = [fn.nodes.get(e) for e in cfg.blocks[b]["e"] if isinstance(e, int)]
            els = [x for x in els if x is not None]
            probe = els[-1] if els else None
            if probe is not None and at(probe) is False and not (transfer(probe) is True):
                end_ok = False
        ok = bad is None and end_ok
        r.add("%s::%s::filled" % (fn.relfile(), fn.qn), "%s:%d" % (fn.relfile(), fn.line), ok,
              "build_invalid_map(output) on every path" if ok else
              "a path through %s ends without build_invalid_map(%s) having been called: the entries it does not "
              "assign keep whatever the freshly allocated memory held" % (fn.name, outp[0]["n"]))
    return r


# ---------------------------------------------------------------- R-C08-10
STRING_CONSUMERS = {"strcmp": [0, 1], "strncmp": [0, 1], "strlen": [0], "strcpy": [1], "strcat": [1], "fputs": [0],
                    "puts": [0], "strcasecmp": [0, 1], "strchr": [0], "strstr": [0, 1], "strdup": [0]}


def _nullable_fields(prog, rows=None):
    """(record name, field name) pairs for which some row of a global table holds a null pointer.  `rows`, if
    given, receives {(global decl id, field name): set of row indices holding NULL}."""
    out = set()
    for gid, gl in prog.globals.items():
        init = strip_all(gl.get("init")) if gl.get("init") else None
        if init is None or init.get("k") != "InitListExpr":
            continue
        gt = notpl((gl.get("ct") or gl.get("t") or "").replace("const ", "").replace("struct ", ""))
        rname = gt.split("[")[0].strip()
        rec = [rc for q_, rc in prog.records.items() if notpl(q_).split("::")[-1] == rname.split("::")[-1]]
        if not rec:
            continue
        names = [f_["n"] for f_ in rec[0]["fields"]]
        ftypes = [f_.get("t") or "" for f_ in rec[0]["fields"]]
        for ri, row in enumerate(init.get("c", [])):
            row = strip_all(row)
            if row is None or row.get("k") != "InitListExpr":
                continue
            for i, c in enumerate(row.get("c", [])):
                if i < len(names) and "*" in ftypes[i] and (folded(c) == 0 or (strip_all(c) or {}).get("null") or c.get("null")):
                    out.add((rname.split("::")[-1], names[i]))
                    if rows is not None:
                        rows.setdefault((gl.get("d", gid), names[i]), set()).add(ri)
    return out


def rule_nullable_table_strings(prog, fixture=False):
    r = RuleResult("R-C08-10", "a string field that is NULL in some row of a constant table (the terminating row) is "
                   "handed to strcmp/strlen/... only where it was tested non-NULL", floor=0 if fixture else 1)
    null_rows = {}
    nullable = _nullable_fields(prog, null_rows)
    r.info["nullable_fields"] = sorted("%s.%s" % x for x in nullable)
    for fn in prog.functions.values():
        g = None
        k = 0
        for n in fn.walk():
            if n.get("k") != "CallExpr":
                continue
            name = notpl(n.get("q") or "").split("::")[-1]
            if name not in STRING_CONSUMERS:
                continue
            a = call_args(n)
            for i in STRING_CONSUMERS[name]:
                if i >= len(a):
                    continue
                e = strip_all(a[i])
                if e is None or e.get("k") != "MemberExpr" or e.get("dk") != "Field":
                    continue
                base = strip_all(e["c"][0]) if e.get("c") else None
                bt = notpl(((base or {}).get("ct") or (base or {}).get("t") or "").replace("const ", "").replace("struct ", ""))
                rname = bt.replace("*", "").replace("&", "").strip().split("::")[-1]
                if (rname, e.get("n")) not in nullable:
                    continue
                g = g or Guards(fn)
                k += 1
                ok = False
                for atom, truth in (g.truths(n) or []):
                    if truth and same_expr(atom, e):
                        ok = True
                for l, rel, rr in (g.cmps(n) or []):
                    if rel == "!=" and same_expr(l, e) and folded(rr) == 0:
                        ok = True
                # table[i].field with i confined to the rows that have the field
                if not ok and base is not None and base.get("k") == "ArraySubscriptExpr":
                    tb = strip_all(base["c"][0])
                    bad_rows = null_rows.get(((tb or {}).get("d"), e.get("n")))
                    iv = _interval(fn, g, n, base["c"][1]) if bad_rows is not None else None
                    if iv and not any(iv[0] <= x <= iv[1] for x in bad_rows):
                        ok = True
                r.add("%s::%s::%s(%s)#%d" % (fn.relfile(), fn.qn, name, show(e), k), fn.loc(n), ok,
                      "tested non-NULL" if ok else
                      "`%s` can be NULL here (the last row of the table has no %s) and %s() dereferences it: an "
                      "argument that matches no earlier row crashes the program" % (show(e), e.get("n"), name))
    return r


# ---------------------------------------------------------------- R-C08-11
def rule_self_referential_not_copied(prog, fixture=False):
    r = RuleResult("R-C08-11", "a record that holds pointers into itself (a function stores the address of one member of *p "
                   "in another member of the same *p) is never copied by value: the copy's pointers still aim at the "
                   "original, which may be a dead stack frame", floor=0 if fixture else 1)

    def rtype(t):
        return notpl((t or "").replace("const ", "").replace("struct ", "").replace("*", "").replace("&", "").strip())

    def root_ptr(e):
        """DeclRefExpr p when e is p->a, p->a[i], p->a.b ... (through arrows and subscripts), else None."""
        e = strip_all(e)
        for _ in range(6):
            if e is None:
                return None
            if e.get("k") == "ArraySubscriptExpr":
                e = strip_all(e["c"][0])
            elif e.get("k") == "MemberExpr" and e.get("c"):
                b = strip_all(e["c"][0])
                if e.get("arrow") and b is not None and b.get("k") == "DeclRefExpr":
                    return b
                e = b
            else:
                return None
        return None
    selfref = {}
    for fn in prog.functions.values():
        for n in fn.walk():
            if n.get("k") != "BinaryOperator" or n.get("op") != "=":
                continue
            lp = root_ptr(n["c"][0])
            if lp is None:
                continue
            rhs = strip_all(n["c"][1])
            if rhs is not None and rhs.get("k") == "UnaryOperator" and rhs.get("op") == "&":
                rhs = strip_all(rhs["c"][0])
            rt = n["c"][1].get("t") or (strip(n["c"][1]) or {}).get("t") or ""
            rp = root_ptr(rhs)
            if rp is not None and rp.get("d") == lp.get("d") and "*" in rt:
                selfref.setdefault(rtype(lp.get("t") or lp.get("ct")), (fn, n))
    r.info["self_referential_records"] = sorted(selfref)
    for rec, (wf, wn) in selfref.items():
        copies = []
        for fn in prog.functions.values():
            for n in fn.walk():
                t = None
                if n.get("k") == "BinaryOperator" and n.get("op") == "=":
                    t = (strip_all(n["c"][0]) or {}).get("t") or (strip_all(n["c"][0]) or {}).get("ct")
                elif n.get("k") == "VarDecl" and n.get("c") and (strip_all(n["c"][0]) or {}).get("k") != "InitListExpr":
                    t = n.get("t") or n.get("ct")
                elif n.get("k") == "ReturnStmt" and n.get("c"):
                    t = (strip(n["c"][0]) or {}).get("t")
                if t is not None and "*" not in t and "&" not in t and "[" not in t and rtype(t) == rec:
                    copies.append((fn, n))
                if n.get("k") == "CallExpr":
                    for a in call_args(n):
                        at = (strip(a) or {}).get("t") or ""
                        if "*" not in at and "[" not in at and rtype(at) == rec:
                            copies.append((fn, a))
        key = "record %s::copied-by-value" % rec
        if copies:
            f, n = copies[0]
            r.add(key, f.loc(n), False, "`%s` copies a %s by value, but %s (%s) stores pointers to the record's own members in it: "
                  "the copy refers to the original's storage" % (show(n)[:50], rec, wf.qn, wf.loc(wn)))
        else:
            r.add(key, wf.loc(wn), True, "%s points into itself (set up by %s) and is only ever passed by address" % (rec, wf.qn))
    return r


# ---------------------------------------------------------------- R-C08-12
def rule_cursor_never_goes_back(prog, fixture=False):
    r = RuleResult("R-C08-12", "a token handler never leaves the input cursor behind where it found it: on every path "
                   "the net movement of *input is >= 0 (and that of *len <= 0) - a handler that backs up onto the byte "
                   "that invoked it makes the line decoder call it again, for ever", floor=0 if fixture else 2)
    for fn in prog.functions.values():
        cur = [p_ for p_ in fn.params if (p_.get("ct") or p_.get("t") or "").replace(" ", "") in
               ("constunsignedchar**", "unsignedcharconst**")]
        ln = [p_ for p_ in fn.params if (p_.get("ct") or p_.get("t") or "").replace(" ", "") == "unsignedchar*"]
        if not (cur and ln) or fn.body is None:
            continue
        cd = cur[0]["d"]

        def delta(x):
            """Movement of *input by statement x, or "?" if it is written in a way this rule does not follow."""
            k = x.get("k")
            tgt = strip_all(x["c"][0]) if x.get("c") else None
            is_cur = tgt is not None and tgt.get("k") == "UnaryOperator" and tgt.get("op") == "*" and \
                (strip_all(tgt["c"][0]) or {}).get("d") == cd
            if not is_cur:
                return 0
            if k == "UnaryOperator" and x.get("op") in ("++", "--"):
                return 1 if x["op"] == "++" else -1
            if k == "CompoundAssignOperator" and x.get("op") in ("+=", "-=") and folded(x["c"][1]) is not None:
                return folded(x["c"][1]) * (1 if x["op"] == "+=" else -1)
            if k == "BinaryOperator" and x.get("op") == "=":
                # *input = copy + k, `copy` being a never-reassigned local that was initialised with *input on entry
                rhs = strip_all(x["c"][1])
                off = 0
                if rhs is not None and rhs.get("k") == "BinaryOperator" and rhs.get("op") in ("+", "-") and folded(rhs["c"][1]) is not None:
                    off = folded(rhs["c"][1]) * (1 if rhs["op"] == "+" else -1)
                    rhs = strip_all(rhs["c"][0])
                if rhs is not None and rhs.get("k") == "DeclRefExpr" and rhs.get("dk") == "Var" and \
                        not any(d_ == rhs["d"] for y in fn.walk() for d_, _ in flow.written_decls(y) if y.get("k") not in ("VarDecl", "DeclStmt")):
                    for v in fn.walk():
                        if v.get("k") == "VarDecl" and v.get("d") == rhs["d"] and v.get("c"):
                            i_ = strip_all(v["c"][0])
                            if i_ is not None and i_.get("k") == "UnaryOperator" and i_.get("op") == "*" and \
                                    (strip_all(i_["c"][0]) or {}).get("d") == cd:
                                # valid only if the copy was taken before any movement: checked by the caller of delta
                                return ("abs", off, v)
                return "?"
            return 0

        def step(st, x):
            if st == "?":
                return {"?"}
            if x.get("k") in ("UnaryOperator", "CompoundAssignOperator", "BinaryOperator"):
                d = delta(x)
                if d == "?":
                    return {"?"}
                if isinstance(d, tuple):
                    # the copy must have been taken while the cursor was still where the handler found it
                    c0 = at_copy.get(id(d[2]))
                    if c0 is None or c0 != {0}:
                        return {"?"}
                    return {max(-8, min(8, d[1]))}
                nv = st + d
                return {max(-8, min(8, nv))}
            return {st}
        at_copy = {}
        inn0, at0 = flow.may_states(fn, {0}, lambda st, x: {st} if st == "?" or not isinstance(delta(x), int) else {max(-8, min(8, st + delta(x)))})
        for v in fn.walk():
            if v.get("k") == "VarDecl" and v.get("c"):
                st0 = at0(v)
                if st0 is not None:
                    at_copy[id(v)] = st0
        inn, at = flow.may_states(fn, {0}, step)
        rets = [n for n in fn.walk() if n.get("k") == "ReturnStmt"]
        worst = None
        unknown = False
        for n in rets:
            sts = at(n)
            if not sts:
                continue
            if "?" in sts:
                unknown = True
                continue
            if n.get("c") and folded(n["c"][0]) == 0:
                continue            # a failure return: the caller stops decoding
            m = min(sts)
            if m < 0 and (worst is None or m < worst[0]):
                worst = (m, n)
        key = "%s::%s::net-cursor-movement" % (fn.relfile(), fn.qn)
        if worst is not None:
            r.add(key, fn.loc(worst[1]), False, "on some path %s returns with *%s moved back by %d: the byte that invoked the "
                  "handler is decoded again and the line decoder never gets past it" % (fn.qn, cur[0].get("n"), -worst[0]))
        elif unknown:
            r.undecided.append("%s: *%s is repositioned in a way this rule does not follow" % (fn.qn, cur[0].get("n")))
        else:
            r.add(key, "%s:%d" % (fn.relfile(), fn.line), True, "never moves the cursor backwards")
    return r


def run(ctx):
    prog = ctx.prog("basic", "N")
    res = [c19.rule_uninit(ctx, ["basic"], rule_id="R-C08-1"),
           rule_option_tables(prog), rule_exit_status(prog), rule_diagnosed_failures(prog), rule_longindex(prog),
           rule_cursor_discipline(prog), rule_index_ranges(prog), rule_resource_typestate(prog), rule_tables_filled(prog),
           rule_nullable_table_strings(prog), rule_self_referential_not_copied(prog),
           rule_cursor_never_goes_back(prog)]
    # the same table rule applies to dfs's global options
    dfs = ctx.prog("dfs", "N")
    r2 = rule_option_tables(dfs)
    r2.rule = "R-C08-2/dfs"
    r2.floor = 1
    res.append(r2)
    r3 = rule_longindex(dfs)
    r3.rule = "R-C08-7/dfs"
    res.append(r3)
    return res


SELFTESTS = [
    (rule_self_referential_not_copied, ["c08_self_bad.c"], ["c08_self_good.c"], "copied-by-value"),
    (rule_resource_typestate, ["c08_null_bad.c"], ["c08_null_good.c"], "f@fclose"),
    (rule_option_tables, ["c08_opts_bad.c"], ["c08_opts_good.c"], "--dump"),
    (rule_exit_status, ["c08_opts_bad.c"], ["c08_opts_good.c"], "return#"),
    (rule_cursor_discipline, ["c08_cursor_bad.c"], ["c08_cursor_good.c"], "handle_ext"),
    (rule_index_ranges, ["c08_cursor_bad.c"], ["c08_cursor_good.c"], "buf["),
    (rule_index_ranges, ["c08_res_bad.c"], ["c08_res_good.c"], "memset"),
    (rule_resource_typestate, ["c08_res_bad.c"], ["c08_res_good.c"], "dec@decode_file"),
]
