"""C08 - bbcbasic_to_text fails cleanly on arbitrary input files and options.

R-C08-1  option state is initialised in every configuration (clang's
         uninitialised-value analysis, NDEBUG and assertion-enabled)
R-C08-2  getopt tables agree with their handlers: a handler that reads optarg
         belongs to an option declared with a required argument, in the long
         table and in the short-option string
R-C08-3  cursor / remaining-length discipline of the token decoders: every read
         through the input cursor is dominated by a guard on the remaining length
R-C08-4  array subscripts stay inside their arrays (type-range interval domain)
R-C08-5  exit status is 0 or 1; no exit/abort calls
R-C08-6  every failure result is accompanied by a diagnostic on stderr
"""
from ..runner import RuleResult
from ..facts import AnalysisBroken
from ..model import strip, strip_all, walk, show, notpl, is_call, call_args
from .. import flow
from ..flow import Guards, folded, same_expr
from . import c07, c19

EXPLANATION = (
    "Static decision of structural clauses of C08 for all inputs and command lines: initialisation of option state "
    "in both build configurations (clang's CFG-based analysis), agreement between each getopt_long table, its "
    "short-option string and the handlers that read optarg, the exit-status value set of main, the "
    "cursor/remaining-length guards and array-index ranges of the decoders, and diagnostic-on-failure.  "
    "Not decided: full memory safety of the C units (goto-analyzer could not do it, DESIGN section 6).")
ASSUMPTIONS = ["clang -Wuninitialized family is sound for scalar locals on feasible paths it reports",
               "getopt_long semantics (optarg is NULL for options declared without argument)"]


def _option_rows(prog, fn, arr_expr):
    """Rows (name, has_arg, val) of the struct option array passed to getopt_long."""
    a = strip_all(arr_expr)
    init = None
    if a is not None and a.get("k") == "DeclRefExpr":
        for n in fn.walk():
            if n.get("k") == "VarDecl" and n.get("d") == a.get("d") and n.get("c"):
                init = n["c"][0]
        if init is None:
            for g in prog.globals.values():
                if g["n"] == a.get("n") and g.get("init"):
                    init = g["init"]
    if init is None:
        return None
    init = strip_all(init)
    rows = []
    for row in init.get("c", []):
        row = strip_all(row)
        cs = row.get("c", [])
        if len(cs) < 4:
            continue
        nm = strip_all(cs[0])
        name = nm.get("s") if nm.get("k") == "StringLiteral" else None
        rows.append({"name": name, "has_arg": folded(cs[1]), "val": folded(cs[3]), "node": row})
    return rows


def _switch_handlers(fn, sw):
    """case value -> list of statement nodes executed for it (with fall-through)."""
    body = None
    for c in sw.get("c", []):
        if c.get("k") == "CompoundStmt":
            body = c
    handlers = {}
    if body is None:
        return handlers
    active = set()

    def labels_and_stmt(n):
        labs = []
        while n is not None and n.get("k") in ("CaseStmt", "DefaultStmt"):
            if n.get("k") == "CaseStmt":
                labs.append(n.get("v"))
            else:
                labs.append("default")
            n = n["c"][-1] if n.get("c") else None
        return labs, n
    for st in body.get("c", []):
        if st.get("k") in ("CaseStmt", "DefaultStmt"):
            labs, inner = labels_and_stmt(st)
            active |= set(labs)
            for l in labs:
                handlers.setdefault(l, [])
            st = inner
        if st is None:
            continue
        for l in active:
            handlers[l].append(st)
        if _ends(st):
            active = set()
    return handlers


def _ends(st):
    k = st.get("k")
    if k in ("BreakStmt", "ReturnStmt", "ContinueStmt", "GotoStmt"):
        return True
    if k == "CompoundStmt" and st.get("c"):
        return _ends(st["c"][-1])
    return False


def rule_option_tables(prog, fixture=False):
    r = RuleResult("R-C08-2", "for every getopt_long call: an option whose handler reads optarg is declared with "
                   "a required argument in the long-option table, and the short-option string agrees with the "
                   "table", floor=0 if fixture else 3)
    for fn in prog.functions.values():
        for call in fn.walk():
            if call.get("k") != "CallExpr" or notpl(call.get("q") or "") != "getopt_long":
                continue
            args = call_args(call)
            if len(args) < 4:
                continue
            optstr = strip_all(args[2])
            shorts = optstr.get("s") if optstr is not None and optstr.get("k") == "StringLiteral" else None
            rows = _option_rows(prog, fn, args[3])
            if rows is None or shorts is None:
                raise AnalysisBroken("cannot resolve the option table of getopt_long in " + fn.qn)
            # the variable receiving the result, and the switch on it
            handlers = {}
            for sw in fn.walk():
                if sw.get("k") == "SwitchStmt":
                    handlers.update(_switch_handlers(fn, sw))
            short_has = {}
            i = 0
            s = shorts.lstrip("+-:")
            while i < len(s):
                ch = s[i]
                colons = 0
                while i + 1 + colons < len(s) and s[i + 1 + colons] == ":":
                    colons += 1
                short_has[ord(ch)] = colons
                i += 1 + colons
            for row in rows:
                if row["name"] is None:
                    continue
                key = "%s::%s::--%s" % (fn.relfile(), fn.qn, row["name"])
                h = handlers.get(row["val"])
                reads = h is not None and any(x.get("k") == "DeclRefExpr" and x.get("n") == "optarg"
                                              for st in h for x in walk(st))
                problems = []
                if reads and row["has_arg"] != 1:
                    problems.append("its handler reads optarg but the option is declared with has_arg=%s, so "
                                    "optarg is NULL there" % row["has_arg"])
                if row["val"] in short_has:
                    want = 1 if row["has_arg"] == 1 else (2 if row["has_arg"] == 2 else 0)
                    if short_has[row["val"]] != want:
                        problems.append("short option -%s takes %s argument in the option string %r but the long "
                                        "option says has_arg=%s" % (chr(row["val"]), "an" if short_has[row["val"]] else "no",
                                                                     shorts, row["has_arg"]))
                if h is None and row["val"] is not None:
                    problems.append("no case handles its value %s" % row["val"])
                r.add(key, fn.loc(row["node"]), not problems, "; ".join(problems) or
                      ("handler reads optarg, has_arg=1" if reads else "handler does not read optarg"),
                      nontrivial=reads)
            for v, colons in short_has.items():
                if not any(row["val"] == v for row in rows):
                    h = handlers.get(v)
                    reads = h is not None and any(x.get("k") == "DeclRefExpr" and x.get("n") == "optarg"
                                                  for st in h for x in walk(st))
                    key = "%s::%s::-%s" % (fn.relfile(), fn.qn, chr(v))
                    r.add(key, fn.loc(call), not (reads and colons != 1),
                          "short-only option; handler reads optarg=%s, colons=%d" % (reads, colons))
    return r


def rule_exit_status(prog, fixture=False):
    r = RuleResult("R-C08-5", "main returns only 0 or 1 and the program never calls exit/abort",
                   floor=0 if fixture else 1)
    main = prog.fn1("main")
    k = 0
    for n in main.walk():
        if n.get("k") != "ReturnStmt":
            continue
        k += 1
        key = "%s::main::return#%d" % (main.relfile(), k)
        vs = c07.value_set(prog, main, n["c"][0]) if n.get("c") else None
        if vs is None:
            r.add(key, main.loc(n), False, "exit status %s is not provably 0 or 1" % (show(n["c"][0]) if n.get("c") else ""))
        else:
            r.add(key, main.loc(n), vs <= {0, 1}, "status in %s" % sorted(vs))
    for fn in prog.functions.values():
        for n in fn.walk():
            if n.get("k") == "CallExpr" and notpl(n.get("q") or "") in c07.TERMINATORS:
                r.add("%s::%s::%s()" % (fn.relfile(), fn.qn, n.get("q")), fn.loc(n), False,
                      "%s() ends the process without returning from main" % n.get("q"))
    return r


def rule_diagnosed_failures(prog, fixture=False):
    from ..diag import DiagAnalysis
    r = RuleResult("R-C08-6", "every path of bbcbasic_to_text to a non-zero exit status writes a diagnostic to "
                   "standard error first (directly or through callees that always diagnose their own failures)",
                   floor=0 if fixture else 1)
    da = DiagAnalysis(prog)
    for f in prog.fn("main", required=not fixture):
        ok, why = da.classify(f, "diag")
        r.add("%s::%s" % (f.relfile(), f.qn), "%s:%d" % (f.relfile(), f.line), ok,
              "all failure points diagnosed" if ok else
              "exit status 1 can be produced without any message on standard error: " + why)
    r.info["functions_classified"] = len(da.memo)
    return r


def rule_longindex(prog, fixture=False):
    r = RuleResult("R-C08-7", "the long-option index that getopt_long fills in only for long options is read only "
                   "where a long option was matched (or is initialised beforehand)", floor=0)
    for fn in prog.functions.values():
        for call in fn.walk():
            if call.get("k") != "CallExpr" or notpl(call.get("q") or "") != "getopt_long":
                continue
            args = call_args(call)
            if len(args) < 5:
                continue
            a = strip_all(args[4])
            if a is None or a.get("k") != "UnaryOperator" or a.get("op") != "&":
                continue
            v = strip_all(a["c"][0])
            if v.get("k") != "DeclRefExpr":
                continue
            did = v["d"]
            initialised = any(n.get("k") == "VarDecl" and n.get("d") == did and n.get("c") for n in fn.walk())
            optstr = strip_all(args[2])
            shorts = (optstr.get("s") or "") if optstr is not None else ""
            short_vals = set(ord(c) for c in shorts.lstrip("+-:") if c != ":")
            handlers = {}
            for sw in fn.walk():
                if sw.get("k") == "SwitchStmt":
                    handlers.update(_switch_handlers(fn, sw))
            in_handler = {}
            for lab, stmts in handlers.items():
                for st in stmts:
                    for x in walk(st):
                        in_handler.setdefault(x["i"], set()).add(lab)
            for u in fn.walk():
                if u.get("k") == "DeclRefExpr" and u.get("d") == did and u is not v:
                    labs = in_handler.get(u["i"])
                    key = "%s::%s::%s@%s" % (fn.relfile(), fn.qn, v.get("n"), sorted(map(str, labs)) if labs else "outside")
                    if initialised:
                        r.add(key, fn.loc(u), True, "initialised at its declaration")
                    elif not labs:
                        r.add(key, fn.loc(u), False, "`%s` is read outside the option handlers, where getopt_long need "
                              "not have written it: uninitialised value" % v.get("n"))
                    else:
                        bad = [l for l in labs if l in short_vals or l in ("default", 63)]
                        r.add(key, fn.loc(u), not bad, "read only in handlers of long-only options" if not bad else
                              "`%s` is read in the handler of an option that also has the short form -%s: getopt_long does "
                              "not set it for short options, so an uninitialised value indexes the option table" %
                              (v.get("n"), chr(bad[0]) if isinstance(bad[0], int) and 32 < bad[0] < 127 else bad[0]))
    return r


def run(ctx):
    prog = ctx.prog("basic", "N")
    res = [c19.rule_uninit(ctx, ["basic"], rule_id="R-C08-1"),
           rule_option_tables(prog), rule_exit_status(prog), rule_diagnosed_failures(prog), rule_longindex(prog)]
    # the same table rule applies to dfs's global options
    dfs = ctx.prog("dfs", "N")
    r2 = rule_option_tables(dfs)
    r2.rule = "R-C08-2/dfs"
    r2.floor = 1
    res.append(r2)
    r3 = rule_longindex(dfs)
    r3.rule = "R-C08-7/dfs"
    res.append(r3)
    return res


SELFTESTS = [
    (rule_option_tables, ["c08_opts_bad.c"], ["c08_opts_good.c"], "--dump"),
    (rule_exit_status, ["c08_opts_bad.c"], ["c08_opts_good.c"], "return#"),
]
