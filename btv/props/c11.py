"""C11 - exit status 0 implies the output was completely written.

R-C11-1 (dfs)   every return of main that can yield 0 after a command ran is
                reached only in the state "std::cout flushed, then tested
                good, nothing written since" (typestate over main and the
                status helper it delegates to)
R-C11-2 (dfs)   nothing resets std::cout's error state or writes through its
                stream buffer directly (clear/setstate/exceptions/rdbuf,
                ostreambuf_iterator): badbit stays sticky, so one final test
                suffices
R-C11-3 (dfs)   typestate of every local std::ofstream: at every exit that is
                not a failure return the stream has been closed and, after the
                close, tested good (or its state is what the function returns)
R-C11-4 (basic) main can return 0 only after fflush(stdout) and a test of
                ferror(stdout) - or every stdout-writing stdio call is checked
"""
from ..runner import RuleResult
from ..facts import AnalysisBroken
from ..model import strip, strip_all, walk, show, notpl, is_call, call_args, call_receiver
from .. import flow
from ..flow import Guards, PathStates, canon, folded, same_expr, atomise
from . import c07

EXPLANATION = (
    "Static decision of the structural part of C11; the byte offset at which the device starts failing is "
    "irrelevant because the rules hold on every path.  dfs: a path-sensitive typestate over main (and the status "
    "helper it delegates to) proves that a 0 status is only produced after std::cout was flushed and then found "
    "good with no output in between; a census proves nobody resets or bypasses the stream state; every local "
    "std::ofstream is closed and tested good after the close on every non-failure exit.  bbcbasic_to_text: main "
    "can return 0 only after fflush(stdout) and a negative ferror(stdout) test.")
ASSUMPTIONS = [
    "std::cout is synchronised with stdio (never changed: census) so only a flush surfaces deferred write errors; badbit is sticky",
    "glibc stdio: the error indicator of stdout is sticky; a failed flush discards the buffer",
]

COUT = "std::cout"


def _refs_cout(n):
    return any(x.get("k") == "DeclRefExpr" and notpl(x.get("q") or "") == COUT for x in walk(n))


def _is_cout(e):
    e = strip_all(e)
    return e is not None and e.get("k") == "DeclRefExpr" and notpl(e.get("q") or "") == COUT


def cout_writers(prog):
    """Functions that may (transitively) write to standard output."""
    W = set()
    for f in prog.functions.values():
        for n in f.walk():
            if n.get("k") == "DeclRefExpr" and notpl(n.get("q") or "") in (COUT, "stdout"):
                W.add(f.uid)
                break
            if n.get("k") == "CallExpr" and notpl(n.get("q") or "") in ("printf", "puts", "putchar", "vprintf"):
                W.add(f.uid)
                break
    changed = True
    lam_parent = {}
    for f in prog.functions.values():
        if f.parent_key:
            lam_parent.setdefault(f.parent_key, []).append(f)
    while changed:
        changed = False
        for f in prog.functions.values():
            if f.uid in W:
                continue
            hit = False
            for lam in lam_parent.get(f.key, []):
                if lam.uid in W:
                    hit = True
            if not hit:
                for n in f.walk():
                    if is_call(n) and n.get("fn"):
                        if any(t.uid in W for t in prog.call_targets(f, n)):
                            hit = True
                            break
            if hit:
                W.add(f.uid)
                changed = True
    return W


def _flush_of_cout(n):
    k = n.get("k")
    if k == "CXXMemberCallExpr":
        callee = strip(n["c"][0])
        if callee and callee.get("n") == "flush" and callee.get("c") and _is_cout(callee["c"][0]):
            return True
    if k == "CXXOperatorCallExpr" and n.get("op") == "<<" and len(n["c"]) == 3:
        # std::cout << std::flush / std::endl  (leftmost stream must be cout)
        rhs = strip_all(n["c"][2])
        if rhs is not None and rhs.get("k") == "DeclRefExpr" and notpl(rhs.get("q") or "") in ("std::flush", "std::endl"):
            x = n
            while x is not None and x.get("k") == "CXXOperatorCallExpr" and x.get("op") == "<<":
                x = strip_all(x["c"][1])
            return _is_cout(x)
    if k == "CallExpr" and notpl(n.get("q") or "") == "fflush":
        a = call_args(n)
        if a and strip_all(a[0]).get("n") == "stdout":
            return True
    return False


def cout_state_as_value(fn):
    """Reads of std::cout's state (fail/good/bad/operator bool/!) whose result is stored or passed on
    instead of being branched on where it is read."""
    out = []
    for n in fn.walk():
        is_read = False
        if n.get("k") == "CXXMemberCallExpr":
            cal = strip(n["c"][0])
            if cal and cal.get("n") in ("fail", "good", "bad", "operator bool", "eof", "rdstate") and cal.get("c") and _refs_cout(cal["c"][0]):
                is_read = True
        elif n.get("k") == "CXXOperatorCallExpr" and n.get("op") == "!" and len(n["c"]) == 2 and _refs_cout(n["c"][1]):
            is_read = True
        if not is_read:
            continue
        # climb through !, &&, ||, casts: is the value the condition of a branch?
        cur = n
        branched = False
        for a in fn.ancestors(n):
            k = a.get("k")
            if k in ("ImplicitCastExpr", "ParenExpr", "ExprWithCleanups", "CXXBoolLiteralExpr") or \
                    (k == "UnaryOperator" and a.get("op") == "!") or (k == "BinaryOperator" and a.get("op") in ("&&", "||")) or \
                    (k == "CXXOperatorCallExpr" and a.get("op") == "!"):
                cur = a
                continue
            if k in ("IfStmt", "WhileStmt", "DoStmt", "ForStmt", "ConditionalOperator"):
                branched = True
            break
        if not branched:
            out.append(n)
    return out


def rule_dfs_epilogue(prog, fixture=False):
    r = RuleResult("R-C11-1", "dfs main can return 0 after running a command only if std::cout was flushed and "
                   "then tested good, with nothing written to it in between (checked through the status helper "
                   "main delegates to)", floor=0 if fixture else 2)
    W = cout_writers(prog)
    main = prog.fn1("main")
    cout_key = None

    def make_tfs(fn):
        def elem_tf(n, t):
            if _flush_of_cout(n):
                return "F"
            if is_call(n) and n.get("fn"):
                # the status helper itself is handled at the return site
                for tg in prog.call_targets(fn, n):
                    if tg.uid in W and not _is_status_helper(prog, tg):
                        return "U"
                if n.get("k") == "CXXOperatorCallExpr" and n.get("op") == "<<":
                    x = n
                    while x is not None and x.get("k") == "CXXOperatorCallExpr" and x.get("op") == "<<":
                        x = strip_all(x["c"][1])
                    if _is_cout(x):
                        return "U"
            return t

        def edge_tf(facts_, t):
            for k in facts_:
                if k[0] == "T" and k[2] is True and k[1] == _cout_canon(fn):
                    if t == "F":
                        return "T"
            return t
        return elem_tf, edge_tf

    checked = []

    def check_returns(fn, depth=0):
        elem_tf, edge_tf = make_tfs(fn)
        ps = PathStates(fn, "U", elem_tf, edge_tf)
        k = 0
        for n in fn.walk():
            if n.get("k") != "ReturnStmt" or not n.get("c"):
                continue
            k += 1
            key = "%s::%s::return#%d" % (fn.relfile(), fn.qn, k)
            e = strip_all(n["c"][0])
            vs = c07.value_set(prog, fn, e)
            if vs is not None and 0 not in vs:
                r.add(key, fn.loc(n), True, "cannot yield 0", nontrivial=False)
                continue
            # a status variable that only ever holds non-zero constants or the status helper's result
            if e.get("k") == "DeclRefExpr" and e.get("dk") == "Var" and depth < 3:
                srcs = []
                for v in fn.walk():
                    if v.get("k") == "VarDecl" and v.get("d") == e.get("d") and v.get("c"):
                        srcs.append(v["c"][0])
                    if v.get("k") == "BinaryOperator" and v.get("op") == "=" and (strip_all(v["c"][0]) or {}).get("d") == e.get("d"):
                        srcs.append(v["c"][1])
                calls = [strip_all(x) for x in srcs if folded(x) is None]
                if srcs and all(folded(x) not in (0,) for x in srcs) and calls and all(
                        c is not None and is_call(c) and prog.call_targets(fn, c) and
                        all(_is_status_helper(prog, t) for t in prog.call_targets(fn, c)) for c in calls):
                    for c in calls:
                        for t in prog.call_targets(fn, c):
                            if t.uid not in checked:
                                checked.append(t.uid)
                                check_returns(t, depth + 1)
                    r.add(key, fn.loc(n), True, "status variable fed only by the status helper (checked) and non-zero constants")
                    continue
            # a status variable: what matters is the stream state on the paths where it may still be zero
            if e.get("k") == "DeclRefExpr" and e.get("dk") == "Var":
                vd = e.get("d")

                def zval(rhs):
                    vs_ = c07.value_set(prog, fn, rhs)
                    return "nz" if (vs_ is not None and 0 not in vs_) else "0?"

                def elem2(n_, t_):
                    st_, z = t_
                    st_ = elem_tf(n_, st_)
                    if n_.get("k") == "DeclStmt":
                        for v_ in n_.get("c", []):
                            if v_.get("k") == "VarDecl" and v_.get("d") == vd and v_.get("c"):
                                z = zval(v_["c"][0])
                    elif n_.get("k") == "VarDecl" and n_.get("d") == vd and n_.get("c"):
                        z = zval(n_["c"][0])
                    elif n_.get("k") == "BinaryOperator" and n_.get("op") == "=" and (strip_all(n_["c"][0]) or {}).get("d") == vd:
                        z = zval(n_["c"][1])
                    return (st_, z)

                def edge2(facts_, t_):
                    return (edge_tf(facts_, t_[0]), t_[1])
                ps2 = PathStates(fn, ("U", "0?"), elem2, edge2)
                sts = ps2.before(n)
                if sts is not None:
                    badz = sorted(s_ for (s_, z) in sts if z == "0?" and s_ != "T")
                    if not badz:
                        r.add(key, fn.loc(n), True, "the status variable can be 0 only after flush + good-state test")
                        continue
            # delegated to a helper?
            if is_call(e) and depth < 3:
                tgs = prog.call_targets(fn, e)
                st_here = ps.before(n) or set()
                if tgs and all(t.raw.get("ret") == "int" for t in tgs) and not all(_is_status_helper(prog, t) for t in tgs) \
                        and st_here <= {"U"} and all(t.params for t in tgs):
                    # any repo function that computes the exit status: the same obligations inside it
                    for t in tgs:
                        if t.uid not in checked:
                            checked.append(t.uid)
                            check_returns(t, depth + 1)
                    r.add(key, fn.loc(n), True, "status computed by %s (checked)" % tgs[0].qn)
                    continue
                if tgs and all(_is_status_helper(prog, t) for t in tgs):
                    for t in tgs:
                        if t.uid not in checked:
                            checked.append(t.uid)
                            check_returns(t, depth + 1)
                    r.add(key, fn.loc(n), True, "status computed by %s (checked)" % tgs[0].qn)
                    continue
            st = ps.before(n)
            if st is None:
                continue
            # in main, returns that precede any command invocation carry no output obligation
            if fn is main and not _after_command(prog, main, n, W):
                r.add(key, fn.loc(n), True, "no command has run on any path to this return", nontrivial=False)
                continue
            bad = sorted(s for s in st if s != "T")
            if bad and cout_state_as_value(fn):
                r.undecided.append("%s: std::cout's state is captured as a value (%s) and decided on elsewhere; the "
                                   "typestate rule follows branches on the stream only" %
                                   (fn.loc(n), show(cout_state_as_value(fn)[0])[:40]))
                continue
            if bad:
                why = {"U": "standard output may hold unflushed data or an unnoticed error",
                       "F": "std::cout was flushed but its state was not tested afterwards"}[bad[0]]
                r.add(key, fn.loc(n), False, "this return can yield exit status 0 while %s" % why)
            else:
                r.add(key, fn.loc(n), True, "reached only after flush + good-state test")
    check_returns(main)
    return r


def _cout_canon(fn):
    for n in fn.walk():
        if n.get("k") == "DeclRefExpr" and notpl(n.get("q") or "") == COUT:
            return canon(n)
    return "?"


def _is_status_helper(prog, f):
    """A function taking the command's bool result and returning the exit status."""
    return f.raw.get("ret") == "int" and len(f.params) == 1 and (f.params[0].get("ct") or f.params[0].get("t")) in ("bool", "_Bool")


def _after_command(prog, main, ret, W):
    """Can a call to a stdout-writing function precede this return?"""
    cfg = main.cfg
    pos = main.where().get(ret["i"])
    if pos is None:
        return True
    # blocks from which ret's block is reachable and that contain a writer call
    target = pos[0]
    writer_blocks = set()
    for bid in cfg.reachable():
        for n in flow.element_nodes(main, bid):
            if is_call(n) and n.get("fn") and any(t.uid in W for t in prog.call_targets(main, n)):
                writer_blocks.add(bid)
    for wb in writer_blocks:
        if wb == target or flow.block_paths_reach(cfg, wb, {target}):
            return True
    return False


# ---------------------------------------------------------------- R-C11-2
RESETTERS = {"clear", "setstate", "exceptions", "rdbuf", "copyfmt", "tie"}


BASE_STREAMS = {"std::ostream", "std::basic_ostream", "std::basic_ios", "std::ios_base", "std::ios", "std::iostream",
                "std::basic_iostream"}


def _is_ref_or_ptr_var(fn, ref):
    for n in fn.walk():
        if n.get("k") == "VarDecl" and n.get("d") == ref.get("d"):
            return "&" in (n.get("t") or "") or "*" in (n.get("t") or "")
    return True


def _is_streambuf_ptr(e):
    for x in (e, strip(e)):
        t = ((x or {}).get("ct") or (x or {}).get("t") or "")
        if "*" in t and any(w in t for w in ("basic_streambuf", "basic_stringbuf", "basic_filebuf", "streambuf", "stringbuf", "filebuf")):
            return True
    return False


def rule_cout_state_census(prog, fixture=False):
    r = RuleResult("R-C11-2", "std::cout's error state is never reset and its stream buffer is never used "
                   "directly (clear/setstate/exceptions/rdbuf/copyfmt, ostreambuf_iterator, sync_with_stdio)",
                   floor=0 if fixture else 5)
    for fn in prog.functions.values():
        for n in fn.walk():
            k = n.get("k")
            if k == "CXXMemberCallExpr":
                callee = strip(n["c"][0])
                if callee and callee.get("c") and _refs_cout(callee["c"][0]) and callee.get("n") in RESETTERS:
                    r.add("%s::%s::cout.%s" % (fn.relfile(), fn.qn, callee.get("n")), fn.loc(n), False,
                          "std::cout.%s() defeats the final stream-state test (error state reset or stream "
                          "buffer exposed)" % callee.get("n"))
                elif callee and callee.get("c") and callee.get("n") in ("clear", "copyfmt") or \
                        (callee and callee.get("c") and callee.get("n") in ("rdbuf", "exceptions") and len(n["c"]) > 1):
                    # a reference/pointer to the base ostream may be bound to std::cout
                    recv = strip(callee["c"][0])
                    while recv is not None and recv.get("k") == "UnaryOperator" and recv.get("op") == "*":
                        recv = strip(recv["c"][0])
                    rt = notpl((recv or {}).get("ct") or (recv or {}).get("t") or "").replace("const ", "")
                    rt = rt.replace("&", "").replace("*", "").strip()
                    if rt in BASE_STREAMS and recv.get("k") in ("DeclRefExpr", "MemberExpr") and \
                            recv.get("dk") in ("ParmVar", "Field", "Var"):
                        if recv.get("dk") == "Var" and not _is_ref_or_ptr_var(fn, recv):
                            continue
                        r.add("%s::%s::%s.%s" % (fn.relfile(), fn.qn, recv.get("n"), callee.get("n")), fn.loc(n), False,
                              "%s.%s() on a reference to the base ostream, which callers bind to std::cout: the "
                              "stream's error state is rewritten, so a failed write before this point is no "
                              "longer visible to the final stream-state test" % (recv.get("n"), callee.get("n")))
            elif k == "CXXOperatorCallExpr" and n.get("op") == "<<" and len(n["c"]) == 3 and _is_streambuf_ptr(n["c"][2]):
                r.add("%s::%s::insert-streambuf" % (fn.relfile(), fn.qn), fn.loc(n), False,
                      "`%s` inserts a whole stream buffer: the stream's failbit is set only if *nothing* could be "
                      "written, so a write that fails part-way leaves the stream good and the truncated output is "
                      "reported as success" % show(n)[:60])
            elif k == "CXXMemberCallExpr" and (strip(n["c"][0]) or {}).get("n") == "operator<<" and len(n["c"]) == 2 and \
                    _is_streambuf_ptr(n["c"][1]):
                r.add("%s::%s::insert-streambuf" % (fn.relfile(), fn.qn), fn.loc(n), False,
                      "`%s` inserts a whole stream buffer: the stream's failbit is set only if *nothing* could be "
                      "written, so a write that fails part-way leaves the stream good and the truncated output is "
                      "reported as success" % show(n)[:60])
            if k in ("CXXConstructExpr", "CXXTemporaryObjectExpr") and notpl(n.get("cls") or "") in BASE_STREAMS and n.get("c"):
                # a second stream object on somebody else's buffer: its failures stay in its own state
                for c in n["c"]:
                    for x in walk(c):
                        if x.get("k") == "CXXMemberCallExpr" and (strip(x["c"][0]) or {}).get("n") == "rdbuf" and len(x["c"]) == 1:
                            r.add("%s::%s::stream-on-borrowed-buffer" % (fn.relfile(), fn.qn), fn.loc(n), False,
                                  "a separate stream object is built on `%s`: a write that fails through it sets the "
                                  "error state of that private object only, so the owner of the buffer (std::cout at "
                                  "the end of main) never learns of it" % show(x)[:50])
            if k in ("CXXConstructExpr", "CXXTemporaryObjectExpr", "CXXFunctionalCastExpr"):
                cls = notpl(n.get("cls") or n.get("t") or "")
                if "ostreambuf_iterator" in cls and any(_refs_cout(c) for c in n.get("c", [])):
                    r.add("%s::%s::ostreambuf_iterator(cout)" % (fn.relfile(), fn.qn), fn.loc(n), False,
                          "writes through std::cout's stream buffer directly: a failed write sets only the "
                          "iterator's private flag, never std::cout's badbit, so the final test cannot see it")
            elif k == "CallExpr" and notpl(n.get("q") or "").endswith("sync_with_stdio"):
                r.add("%s::%s::sync_with_stdio" % (fn.relfile(), fn.qn), fn.loc(n), False,
                      "changes std::cout's buffering; the epilogue argument assumes the default")
        # positive instances: functions that use cout at all
        if any(x.get("k") == "DeclRefExpr" and notpl(x.get("q") or "") == COUT for x in fn.walk()):
            r.add("%s::%s::uses-cout" % (fn.relfile(), fn.qn), "%s:%d" % (fn.relfile(), fn.line), True,
                  "uses std::cout only through ostream operations", nontrivial=True)
    return r


# ---------------------------------------------------------------- R-C11-3
def _ofstream_locals(fn):
    for n in fn.walk():
        if n.get("k") == "VarDecl":
            t = n.get("ct") or n.get("t") or ""
            if t.startswith(("std::basic_ofstream<", "std::ofstream", "std::basic_fstream<", "std::fstream")):
                yield n


def _mentions_decl(n, did):
    return any(x.get("k") == "DeclRefExpr" and x.get("d") == did for x in walk(n))


def rule_ofstream_typestate(prog, fixture=False):
    r = RuleResult("R-C11-3", "every local std::ofstream: on every exit of its scope that is not a failure "
                   "return, it has been closed and - after the close - found good (or its state is the value "
                   "returned)", floor=0 if fixture else 3)
    lambdas_of = {}
    for f in prog.functions.values():
        if f.parent_key:
            lambdas_of.setdefault(f.parent_key, []).append(f)
    for fn in prog.functions.values():
        for v in _ofstream_locals(fn):
            did = v["d"]
            key = "%s::%s::%s" % (fn.relfile(), fn.qn, v["n"])
            # lambdas capturing the stream by reference write to it when called
            cap_lams = set()
            for n in fn.walk():
                if n.get("k") == "LambdaExpr" and any(c.get("d") == did for c in n.get("captures", [])):
                    cap_lams.add(n["i"])

            def classify(n):
                """'close' / 'write' / None for one CFG element."""
                k = n.get("k")
                if k == "CXXMemberCallExpr":
                    callee = strip(n["c"][0])
                    if callee and callee.get("c"):
                        obj = strip_all(callee["c"][0])
                        if obj.get("k") == "DeclRefExpr" and obj.get("d") == did:
                            nm = callee.get("n")
                            if nm == "close":
                                return "close"
                            if nm in ("write", "put", "flush", "open", "clear", "setstate", "rdbuf", "seekp"):
                                return "write"
                            return None
                if k == "CXXOperatorCallExpr" and n.get("op") == "<<":
                    x = n
                    while x is not None and x.get("k") == "CXXOperatorCallExpr" and x.get("op") == "<<":
                        x = strip_all(x["c"][1])
                    if x is not None and x.get("k") == "DeclRefExpr" and x.get("d") == did:
                        return "write"
                    return None
                if k == "CXXOperatorCallExpr" and n.get("op") in ("!", "==", "!="):
                    return None
                if is_call(n):
                    # passing the stream (or a lambda that captured it) to a call
                    for a in call_args(n):
                        for x in walk(a):
                            if x.get("k") == "DeclRefExpr" and x.get("d") == did:
                                return "write"
                            if x.get("k") == "LambdaExpr" and x["i"] in cap_lams:
                                return "write"
                return None

            def extra(n):
                c = classify(n)
                return {(did, False)} if c else set()
            g = Guards(fn, extra_writes=extra)

            def elem_tf(n, t):
                c = classify(n)
                if c == "close":
                    return "closed"
                if c == "write":
                    return "open"
                return t
            ps = PathStates(fn, "none", elem_tf, None, guards=g)
            vcanon = "d%s" % did
            problems = []
            exits = 0
            for bid in fn.cfg.reachable():
                b = fn.cfg.blocks[bid]
                for idx, e in enumerate(b["e"]):
                    if not (isinstance(e, dict) and e.get("k") == "dtor" and e.get("d") == did):
                        continue
                    exits += 1
                    # what follows the destructor in this block: a failure return?
                    ret = None
                    for e2 in b["e"]:
                        if isinstance(e2, int) and fn.nodes.get(e2, {}).get("k") == "ReturnStmt":
                            ret = fn.nodes[e2]
                    if ret is not None and ret.get("c"):
                        rv = strip_all(ret["c"][0])
                        val = folded(rv)
                        if val == 0 and rv.get("k") in ("CXXBoolLiteralExpr", "IntegerLiteral", "ImplicitCastExpr", "CXXNullPtrLiteralExpr"):
                            continue  # failure return: nothing promised
                        if _is_failure_value(rv):
                            continue
                    # state just before the destructor
                    st = set(ps.IN.get(bid, set()))
                    facts_ = set(g.IN.get(bid) or set())
                    written = set()
                    for e2 in b["e"][:idx]:
                        if isinstance(e2, int):
                            n2 = fn.nodes.get(e2)
                            if n2 is not None:
                                st = set(elem_tf(n2, t) for t in st)
                                written |= g._writes(n2)
                    facts_ = set(f for f in facts_ if not g._killed(f, written))
                    where = fn.loc(ret) if ret is not None else "%s (end of scope)" % fn.relfile()
                    if "none" in st and len(st) == 1:
                        continue  # stream never used on this path
                    returns_state = False
                    if ret is not None and ret.get("c"):
                        for x in walk(ret["c"][0]):
                            if x.get("k") == "CXXMemberCallExpr":
                                cal = strip(x["c"][0])
                                if cal and cal.get("n") in ("good", "fail", "bad", "operator bool", "operator!") and cal.get("c") \
                                        and _mentions_decl(cal["c"][0], did):
                                    returns_state = cal.get("n") != "bad"
                            if x.get("k") == "CXXOperatorCallExpr" and x.get("op") == "!" and _mentions_decl(x, did):
                                returns_state = True
                            # a never-reassigned bool taken from the stream's state after the close
                            if x.get("k") == "DeclRefExpr" and x.get("dk") == "Var" and \
                                    not any(d_ == x["d"] for y in fn.walk() for d_, _ in flow.written_decls(y)
                                            if y.get("k") not in ("VarDecl", "DeclStmt")):
                                for vd_ in fn.walk():
                                    if vd_.get("k") == "VarDecl" and vd_.get("d") == x["d"] and vd_.get("c"):
                                        sb = ps.before(vd_)
                                        after_close = sb is not None and sb and all(t_ == "closed" for t_ in sb)
                                        for y in walk(vd_["c"][0]):
                                            if y.get("k") == "CXXMemberCallExpr":
                                                cal = strip(y["c"][0])
                                                if cal and cal.get("n") in ("good", "fail", "operator bool", "operator!") and cal.get("c") \
                                                        and _mentions_decl(cal["c"][0], did) and after_close:
                                                    returns_state = True
                                            if y.get("k") == "CXXOperatorCallExpr" and y.get("op") == "!" and _mentions_decl(y, did) and after_close:
                                                returns_state = True
                    if "open" in st:
                        problems.append((where, "the stream may still be open with unflushed data (no close() after the last write)"))
                    elif returns_state:
                        continue
                    elif ("T", vcanon, True) not in facts_:
                        problems.append((where, "the stream is closed but its state is not tested after close(): a failed final flush goes unnoticed"))
            if exits == 0:
                continue
            if problems:
                w, msg = problems[0]
                r.add(key, w, False, "`%s`: %s; the command can still report success" % (v["n"], msg))
            else:
                r.add(key, fn.loc(v), True, "closed and tested good on all %d non-failure scope exits" % exits)
    return r


def _is_failure_value(rv):
    if rv is None:
        return False
    x = rv
    for _ in range(4):
        if x is not None and x.get("k") in ("CXXConstructExpr", "CXXFunctionalCastExpr", "CXXTemporaryObjectExpr") and len(x.get("c", [])) == 1:
            x = strip_all(x["c"][0])
    if x is not None and x.get("k") == "DeclRefExpr" and x.get("n") == "nullopt":
        return True
    if x is not None and x.get("k") in ("CXXConstructExpr", "InitListExpr") and not x.get("c") and \
            "optional" in ((rv.get("ct") or rv.get("t") or "")):
        return True     # `return {};` from a function returning std::optional
    return False


# ---------------------------------------------------------------- R-C11-4
STDOUT_WRITERS = {"printf": None, "putchar": None, "puts": None, "vprintf": None,
                  "fprintf": 0, "fputs": 1, "fputc": 1, "putc": 1, "fwrite": 3, "vfprintf": 0}


def _writes_stdout(n):
    if n.get("k") != "CallExpr":
        return False
    q = notpl(n.get("q") or "")
    if q not in STDOUT_WRITERS:
        return False
    idx = STDOUT_WRITERS[q]
    if idx is None:
        return True
    a = call_args(n)
    if idx < len(a):
        s = strip_all(a[idx])
        return s is not None and s.get("k") == "DeclRefExpr" and s.get("n") == "stdout"
    return False


def rule_basic_epilogue(prog, fixture=False):
    r = RuleResult("R-C11-4", "bbcbasic_to_text main can return 0 only after fflush(stdout) and a negative "
                   "ferror(stdout) test (or no stdout-writing call has an unchecked result)",
                   floor=0 if fixture else 1)
    main = prog.fn1("main")
    # unchecked stdout writes anywhere in the program
    unchecked = []
    nwrites = 0
    for fn in prog.functions.values():
        for n in fn.walk():
            if _writes_stdout(n):
                nwrites += 1
                p = fn.parent(n)
                while p is not None and p.get("k") in ("ParenExpr",):
                    p = fn.parent(p)
                if p is None or p.get("k") in ("CompoundStmt", "IfStmt", "ForStmt", "WhileStmt", "DoStmt", "CaseStmt",
                                               "DefaultStmt", "LabelStmt", "SwitchStmt"):
                    unchecked.append("%s in %s" % (fn.loc(n), fn.qn))
                elif p.get("k") == "CStyleCastExpr" and (p.get("t") == "void"):
                    unchecked.append("%s in %s" % (fn.loc(n), fn.qn))
    r.info["stdout_writes"] = nwrites
    r.info["unchecked_stdout_writes"] = unchecked
    # exit-status variable(s): locals of main returned
    status_vars = set()
    for n in main.walk():
        if n.get("k") == "ReturnStmt" and n.get("c"):
            e = strip_all(n["c"][0])
            if e.get("k") == "DeclRefExpr":
                status_vars.add(e["d"])

    def is_call_named(n, name, argname):
        if n.get("k") == "CallExpr" and notpl(n.get("q") or "") == name:
            a = call_args(n)
            return bool(a) and strip_all(a[0]).get("n") == argname
        return False
    ferror_canons = set()
    for n in main.walk():
        if is_call_named(n, "ferror", "stdout"):
            ferror_canons.add(canon(n))

    def elem_tf(n, t):
        z, st = t
        if is_call_named(n, "fflush", "stdout"):
            st = "F"
        elif _writes_stdout(n):
            st = "U"
        elif n.get("k") == "CallExpr" and n.get("fn") and prog.by_key.get(n["fn"]):
            st = "U"    # repo functions may write to stdout
        if n.get("k") in ("BinaryOperator",) and n.get("op") == "=":
            tgt = strip_all(n["c"][0])
            if tgt.get("k") == "DeclRefExpr" and tgt.get("d") in status_vars:
                v = folded(n["c"][1])
                z = "nz" if (v is not None and v != 0) else "0?"
        if n.get("k") == "VarDecl" and n.get("d") in status_vars:
            v = folded(n["c"][0]) if n.get("c") else None
            z = "nz" if (v is not None and v != 0) else "0?"
        return (z, st)

    def edge_tf(facts_, t):
        z, st = t
        for k in facts_:
            if k[0] == "T" and k[1] in ferror_canons and k[2] is False and st == "F":
                st = "T"
        return (z, st)
    # an epilogue handed to a helper that receives the stream (finish_stream(stdout, ...)) is not followed
    for n in main.walk():
        if n.get("k") == "CallExpr" and n.get("fn") and prog.by_key.get(n["fn"]) and \
                any((strip_all(a) or {}).get("n") == "stdout" for a in call_args(n)):
            r.undecided.append("%s: main hands stdout to %s, which is expected to flush and test it; the typestate rule follows "
                               "fflush/ferror calls in main only" % (main.loc(n), notpl(n.get("q") or "?")))
            return r
    ps = PathStates(main, ("0?", "U"), elem_tf, edge_tf)
    k = 0
    for n in main.walk():
        if n.get("k") != "ReturnStmt" or not n.get("c"):
            continue
        k += 1
        key = "%s::main::return#%d" % (main.relfile(), k)
        st = ps.before(n)
        if st is None:
            continue
        e = strip_all(n["c"][0])
        v = folded(e)
        if v is not None and v != 0:
            r.add(key, main.loc(n), True, "non-zero", nontrivial=False)
            continue
        # `return (incomplete...) ? 1 : status;` - the status is handed on only on the false edge of the condition:
        # judged by what that edge implies (bool locals standing for their one definition)
        if e.get("k") == "ConditionalOperator" and folded(e["c"][1]) not in (None, 0):
            def expand(atoms, depth=0):
                out = []
                for a in atoms:
                    out.append(a)
                    x = strip_all(a[1]) if a[0] == "T" else None
                    if x is not None and x.get("k") == "DeclRefExpr" and x.get("dk") == "Var" and depth < 3 and \
                            not any(d_ == x["d"] for y in main.walk() for d_, _ in flow.written_decls(y) if y.get("k") not in ("VarDecl", "DeclStmt")):
                        for vd_ in main.walk():
                            if vd_.get("k") == "VarDecl" and vd_.get("d") == x["d"] and vd_.get("c"):
                                out += expand(list(atomise(vd_["c"][0], a[2])), depth + 1)
                return out
            atoms = expand(list(atomise(e["c"][0], False)))
            flushed = any((a[0] == "C" and a[2] == "==" and (is_call_named(strip_all(a[1]) or {}, "fflush", "stdout") and folded(a[3]) == 0 or
                                                            is_call_named(strip_all(a[3]) or {}, "fflush", "stdout") and folded(a[1]) == 0)) or
                          (a[0] == "T" and a[2] is False and is_call_named(strip_all(a[1]) or {}, "fflush", "stdout")) for a in atoms)
            tested = any(a[0] == "T" and a[2] is False and is_call_named(strip_all(a[1]) or {}, "ferror", "stdout") for a in atoms)
            if flushed and tested:
                r.add(key, main.loc(n), True, "the status is returned only where fflush(stdout) succeeded and ferror(stdout) is clear")
                continue
        bad = sorted(t for t in st if t[0] == "0?" and t[1] != "T")
        if bad and unchecked:
            r.add(key, main.loc(n), False,
                  "main can return 0 without having seen fflush(stdout) succeed and ferror(stdout) clear (state %s), "
                  "while %d stdout writes have unchecked results (e.g. %s): a failed write is lost" %
                  (bad[0][1], len(unchecked), unchecked[0]))
        else:
            r.add(key, main.loc(n), True, "0 only after flush + ferror test" if not bad else
                  "no ferror test, but every stdout write is checked")
    return r


# ---------------------------------------------------------------- R-C11-4
def rule_status_not_overwritten(prog, fixture=False):
    r = RuleResult("R-C11-6", "a status variable that a function returns is never overwritten inside a loop while it "
                   "may hold a failure: `ok = step()` in a loop is acceptable only where ok is known to be true (the "
                   "failure left the loop) - otherwise a later success hides an earlier failure and the command "
                   "exits 0 with incomplete output", floor=0)
    for fn in prog.functions.values():
        if fn.body is None:
            continue
        returned = set()
        for n in fn.walk():
            if n.get("k") == "ReturnStmt" and n.get("c"):
                for x in walk(n["c"][0]):
                    if x.get("k") == "DeclRefExpr" and x.get("dk") == "Var" and (x.get("t") or "").replace("const ", "") in ("bool", "_Bool"):
                        returned.add(x["d"])
        for d in returned:
            sites = []
            for n in fn.walk():
                if n.get("k") == "BinaryOperator" and n.get("op") == "=" and (strip_all(n["c"][0]) or {}).get("d") == d:
                    if any(a.get("k") in ("ForStmt", "WhileStmt", "DoStmt", "CXXForRangeStmt") for a in fn.ancestors(n)):
                        rhs = n["c"][1]
                        if folded(rhs) is None and not any(x.get("k") == "DeclRefExpr" and x.get("d") == d for x in walk(rhs)):
                            sites.append(n)
            if not sites:
                continue

            def transfer(x, d=d):
                if x.get("k") == "DeclStmt":
                    for v in x.get("c", []):
                        if v.get("k") == "VarDecl" and v.get("d") == d:
                            return bool(v.get("c")) and folded(v["c"][0]) == 1
                if x.get("k") == "VarDecl" and x.get("d") == d:
                    return bool(x.get("c")) and folded(x["c"][0]) == 1
                if x.get("k") in ("BinaryOperator", "CompoundAssignOperator") and x.get("op") in flow.ASSIGN_OPS and \
                        (strip_all(x["c"][0]) or {}).get("d") == d:
                    return x.get("op") == "=" and folded(x["c"][1]) == 1
                return None
            cfg = fn.cfg

            def edge_gen(p_, s_, d=d):
                b = cfg.blocks[p_]
                if b.get("cond") is None or len(cfg.succ[p_]) != 2 or cfg.succ[p_][0] == cfg.succ[p_][1]:
                    return False
                cond = fn.nodes.get(b["cond"])
                outcome = cfg.succ[p_][0] == s_
                for f in flow.atomise(cond, outcome):
                    if f[0] == "T" and f[2] is True and (strip_all(f[1]) or {}).get("d") == d:
                        return True
                return False
            at = flow.must_hold_at(fn, transfer, edge_gen)
            for i, n in enumerate(sites):
                key = "%s::%s::%s=#%d" % (fn.relfile(), fn.qn, (strip_all(n["c"][0]) or {}).get("n"), i + 1)
                ok = at(n)
                if ok is None:
                    continue
                r.add(key, fn.loc(n), bool(ok), "the variable is known to be true here" if ok else
                      "`%s` overwrites the status in a loop where an earlier pass may have stored a failure: only the "
                      "last pass decides the result, so a failed step followed by a successful one is reported as "
                      "success" % show(n)[:60])
    return r


# ---------------------------------------------------------------- R-C11-5
WRITE_CALLS = {"write": 2, "pwrite": 2, "fwrite": None, "send": 2}


def rule_short_writes(prog, fixture=False):
    r = RuleResult("R-C11-5", "a POSIX write()/fwrite() that produces output is judged by whether it took every byte: its "
                   "result is compared with the count requested (==, !=, < count), not merely tested for an error value "
                   "(`< 0`): a short write would otherwise end in exit status 0 with a truncated file", floor=0)
    for fn in prog.functions.values():
        for n in fn.walk():
            if n.get("k") != "CallExpr":
                continue
            base = notpl(n.get("q") or "")
            if base not in WRITE_CALLS:
                continue
            a = call_args(n)
            want = a[WRITE_CALLS[base]] if WRITE_CALLS[base] is not None and len(a) > WRITE_CALLS[base] else (a[2] if base == "fwrite" and len(a) > 2 else None)
            if want is None:
                continue
            key = "%s::%s::%s#%d" % (fn.relfile(), fn.qn, base, len(r.instances) + 1)
            # where does the result go?
            p_ = fn.parent(n)
            while p_ is not None and p_.get("k") in ("ImplicitCastExpr", "ParenExpr", "CStyleCastExpr", "CXXStaticCastExpr"):
                p_ = fn.parent(p_)
            cmps = []
            if p_ is not None and p_.get("k") == "BinaryOperator" and p_.get("op") in ("==", "!=", "<", "<=", ">", ">="):
                cmps.append(p_)
            elif p_ is not None and p_.get("k") == "VarDecl":
                for x in fn.walk():
                    if x.get("k") == "BinaryOperator" and x.get("op") in ("==", "!=", "<", "<=", ">", ">=") and \
                            any(y.get("k") == "DeclRefExpr" and y.get("d") == p_["d"] for y in walk(x)):
                        cmps.append(x)
            full = False
            for c in cmps:
                for side in c["c"]:
                    if flow.same_expr(side, want) or (folded(want) is not None and folded(side) == folded(want)):
                        full = True
                    # through a local that holds the count
                    ss, ws = strip_all(side), strip_all(want)
                    if ss is not None and ws is not None and ss.get("k") == "DeclRefExpr" and ws.get("k") == "DeclRefExpr" and ss.get("d") == ws.get("d"):
                        full = True
            r.add(key, fn.loc(n), full, "result compared with the requested count" if full else
                  "the result of %s() is %s: a short write (fewer bytes than asked, no error) is taken for success" %
                  (base, "only tested against an error value" if cmps else "not compared with the count"))
    return r


def run(ctx):
    dfs = ctx.prog("dfs", "N")
    basic = ctx.prog("basic", "N")
    return [rule_dfs_epilogue(dfs), rule_cout_state_census(dfs), rule_ofstream_typestate(dfs),
            rule_basic_epilogue(basic), rule_status_not_overwritten(dfs), _basic_status(basic), rule_short_writes(dfs)]


def _basic_status(basic):
    r = rule_status_not_overwritten(basic)
    r.rule = "R-C11-6/basic"
    return r


SELFTESTS = [
    (rule_short_writes, ["c11_write_bad.cc"], ["c11_write_good.cc"], "write#"),
    (rule_dfs_epilogue, ["c11_main_bad.cc"], ["c11_main_good.cc"], "return#"),
    (rule_cout_state_census, ["c11_main_bad.cc"], ["c11_main_good.cc"], "ostreambuf_iterator"),
    (rule_ofstream_typestate, ["c11_ofs_bad.cc"], ["c11_ofs_good.cc"], "outfile"),
    (rule_basic_epilogue, ["c11_basic_bad.c"], ["c11_basic_good.c"], "return#"),
    (rule_cout_state_census, ["c11_ref_bad.cc"], ["c11_ref_good.cc"], "os_.clear"),
    (rule_cout_state_census, ["c11_ref_bad.cc"], ["c11_ref_good.cc"], "stream-on-borrowed-buffer"),
    (rule_cout_state_census, ["c11_ref_bad.cc"], ["c11_ref_good.cc"], "insert-streambuf"),
    (rule_status_not_overwritten, ["c11_loop_bad.cc"], ["c11_loop_good.cc"], "ok=#1"),
]
