"""C10 - gzip compression of an image file is transparent.

R-C10-1  one name, one type decision: every test of an image-file extension
         (.ssd/.sdd/.dsd/.ddd) in the hint logic is applied to a name from
         which a trailing ".gz" has been removed, so x.sdd and x.sdd.gz get the
         same hints
R-C10-2  gzip only, errors total: inflateInit2's window argument selects gzip
         framing only (16 + MAX_WBITS); in check_zlib_error_code every code
         other than Z_OK, including the default arm, ends in a throw; the
         inflate loop is left normally only on Z_STREAM_END, and Z_BUF_ERROR is
         tolerated only while input was still arriving
R-C10-3  integrity is not weakened: the zlib entry points used are the
         confirmed set (no inflateValidate/inflateUndermine/inflateSync...)
R-C10-4  every member is decompressed: at the end of a member the loop stops
         only when no input remains (otherwise the inflater is reset and the
         loop continues)
R-C10-5  both FileAccess implementations are created only by make_image_file's
         two branches, selected by the presence of the .gz extension
"""
from ..runner import RuleResult
from ..facts import AnalysisBroken
from ..model import strip, strip_all, walk, show, notpl, is_call, call_args
from .. import flow
from ..flow import Guards, folded, same_expr, atomise

EXPLANATION = (
    "Static decision of structural clauses of C10 for every image and .gz stream: extension-based hints are "
    "computed from the name with .gz removed (so compressed and uncompressed copies are identified alike); the "
    "decompressor accepts only gzip framing, turns every zlib error code into an exception, can leave its loop "
    "normally only at the end of the last member, does not disable zlib's integrity checks, and continues with "
    "further members while input remains.  Equality of outputs as such is not executed.")
ASSUMPTIONS = ["zlib semantics of inflateInit2's windowBits and of return codes", "MAX_WBITS == 15"]

IMAGE_EXTS = {".ssd", ".sdd", ".dsd", ".ddd"}
ZLIB_ALLOWED = {"inflateInit2_", "inflateInit2", "inflateGetHeader", "inflate", "inflateEnd", "inflateReset", "gzerror"}
ZLIB_PREFIXES = ("inflate", "deflate", "gz", "uncompress", "compress", "crc32", "adler32")


def rule_hint_name(prog, fixture=False):
    r = RuleResult("R-C10-1", "image-extension tests in the hint logic are applied to a name with a trailing .gz "
                   "removed", floor=0 if fixture else 4)
    for fn in prog.fnby("make_candidate_list", required=not fixture):
        g = Guards(fn)
        # variables from which ".gz" is stripped: modified (resize/erase/remove_suffix/pop_back/substr-assign)
        # under the fact ends_with(V, ".gz")
        stripped = set()
        for n in fn.walk():
            tgt = None
            if n.get("k") == "CXXMemberCallExpr":
                cal = strip(n["c"][0])
                if cal and cal.get("n") in ("resize", "erase", "pop_back", "assign") and cal.get("c"):
                    tgt = strip_all(cal["c"][0])
            elif n.get("k") == "CXXOperatorCallExpr" and n.get("op") == "=" and len(n["c"]) == 3:
                tgt = strip_all(n["c"][1])
            elif n.get("k") == "CallExpr" and notpl(n.get("q") or "").endswith("remove_suffix"):
                a = call_args(n)
                s = strip_all(a[1]) if len(a) > 1 else None
                if s is not None and any(x.get("k") == "StringLiteral" and x.get("s") == ".gz" for x in walk(a[1])):
                    t = strip_all(a[0])
                    if t.get("k") == "UnaryOperator" and t.get("op") == "&":
                        t = strip_all(t["c"][0])
                    if t.get("k") == "DeclRefExpr":
                        stripped.add(t["d"])
                continue
            if tgt is None or tgt.get("k") != "DeclRefExpr":
                continue
            for atom, truth in (g.truths(n) or []):
                a = strip_all(atom)
                if truth and is_call(a) and notpl(a.get("q") or "").endswith("ends_with"):
                    aa = call_args(a)
                    if len(aa) == 2 and strip_all(aa[0]).get("d") == tgt.get("d") and \
                            any(x.get("k") == "StringLiteral" and x.get("s") == ".gz" for x in walk(aa[1])):
                        stripped.add(tgt["d"])
        k = 0
        for n in fn.walk():
            if n.get("k") == "CallExpr" and notpl(n.get("q") or "").endswith("ends_with"):
                a = call_args(n)
                if len(a) != 2:
                    continue
                lit = [x.get("s") for x in walk(a[1]) if x.get("k") == "StringLiteral"]
                if not lit or lit[0] not in IMAGE_EXTS:
                    continue
                k += 1
                v = strip_all(a[0])
                ok = v.get("k") == "DeclRefExpr" and v.get("d") in stripped
                key = "%s::%s::ends_with(%s,%s)#%d" % (fn.relfile(), fn.qn, show(a[0]), lit[0], k)
                r.add(key, fn.loc(n), ok, "tested on the name without .gz" if ok else
                      "the %s hint is taken from `%s`, which still carries a trailing .gz for compressed images: "
                      "x%s.gz gets different hints from x%s and can be identified differently" %
                      (lit[0], show(a[0]), lit[0], lit[0]))
    return r


def rule_gzip_only(prog, fixture=False):
    r = RuleResult("R-C10-2", "only gzip framing is accepted; every zlib error becomes an exception; the inflate "
                   "loop ends normally only on Z_STREAM_END", floor=0 if fixture else 4)
    for fn in prog.functions.values():
        for n in fn.walk():
            if n.get("k") == "CallExpr" and notpl(n.get("q") or "") in ("inflateInit2_", "inflateInit2"):
                wb = folded(call_args(n)[1])
                r.add("%s::%s::inflateInit2" % (fn.relfile(), fn.qn), fn.loc(n), wb == 31,
                      "windowBits 16+15: gzip framing only" if wb == 31 else
                      "inflateInit2 is given windowBits=%s: that also accepts zlib/raw streams (or auto-detects), so a "
                      "non-gzip file could be decoded as data" % wb)
    for fn in prog.fnby("check_zlib_error_code", required=not fixture):
        from .c08 import _switch_handlers
        sw = [n for n in fn.walk() if n.get("k") == "SwitchStmt"]
        if len(sw) != 1:
            # guard-clause form: the function comes back only under `code == Z_OK`; everything else ends in a throw
            g0 = Guards(fn)
            pd = fn.params[0]["d"] if fn.params else None
            key = "%s::%s::returns-only-for-Z_OK" % (fn.relfile(), fn.qn)
            rets = [x for x in fn.walk() if x.get("k") == "ReturnStmt"]
            last = fn.body["c"][-1] if fn.body and fn.body.get("c") else None
            while last is not None and last.get("k") in ("ExprWithCleanups", "CompoundStmt") and last.get("c"):
                last = last["c"][-1]
            ends_in_throw = last is not None and last.get("k") == "CXXThrowExpr"
            ok_rets = bool(rets) and all(any(rel == "==" and ((strip_all(l) or {}).get("d") == pd and folded(rr) == 0 or
                                                              (strip_all(rr) or {}).get("d") == pd and folded(l) == 0)
                                             for l, rel, rr in (g0.cmps(x) or [])) for x in rets)
            if pd is not None and ends_in_throw and ok_rets:
                r.add(key, "%s:%d" % (fn.relfile(), fn.line), True, "every return is under `code == Z_OK`; the function ends in a throw")
                r.add(key + "/default", "%s:%d" % (fn.relfile(), fn.line), True, "unknown codes reach the final throw")
            else:
                r.undecided.append("%s: check_zlib_error_code is neither one switch nor guard clauses ending in a throw" % fn.qn)
            continue
        handlers = _switch_handlers(fn, sw[0])
        if "default" not in handlers:
            r.add("%s::%s::default" % (fn.relfile(), fn.qn), fn.loc(sw[0]), False,
                  "no default arm: an unknown zlib error code would be treated as success")
        for lab, stmts in sorted(handlers.items(), key=lambda kv: str(kv[0])):
            throws = any(x.get("k") == "CXXThrowExpr" for st in stmts for x in walk(st))
            key = "%s::%s::case %s" % (fn.relfile(), fn.qn, lab)
            if lab == 0:
                r.add(key, fn.loc(sw[0]), not throws, "Z_OK returns")
            else:
                r.add(key, fn.loc(sw[0]), throws, "throws" if throws else
                      "zlib code %s does not raise an error: damaged or truncated data would be used" % lab)
    for fn in prog.fnby("write_decompressed_data", required=not fixture):
        # outer loop: while (zerr != Z_STREAM_END), or a loop run by a flag that is set only at stream end;
        # every break inside it is guarded by Z_BUF_ERROR && got
        info = _decompression_loop(fn)
        outer = info["node"] if info else None
        key = "%s::%s::loop-exit" % (fn.relfile(), fn.qn)
        if outer is None:
            if any(x.get("k") == "BinaryOperator" and x.get("op") in ("==", "!=") and 1 in (folded(x["c"][0]), folded(x["c"][1]))
                   for x in fn.walk()):
                r.undecided.append("%s: the loop that drives decompression has a form this rule does not follow" % fn.qn)
                continue
            r.add(key, "%s:%d" % (fn.relfile(), fn.line), False,
                  "the decompression loop is not conditioned on `zerr != Z_STREAM_END`: it can end before the stream does")
        else:
            probs = []
            g = Guards(fn)
            if info["kind"] == "flag":
                for a in info["sets"]:
                    if not any(rel == "==" and 1 in (folded(l), folded(rr)) and
                               info["status_d"] in (strip_all(l).get("d"), strip_all(rr).get("d"))
                               for l, rel, rr in (g.cmps(a) or [])):
                        probs.append("the loop is ended (%s) although the stream end was not reached" % fn.loc(a))
            for x in walk(outer):
                if x.get("k") == "ReturnStmt":
                    probs.append("returns from inside the loop (%s)" % fn.loc(x))
                if x.get("k") == "BreakStmt":
                    # which loop does it leave?  a break directly in the outer loop body ends decompression
                    inner = False
                    for a in fn.ancestors(x):
                        if a is outer:
                            break
                        if a.get("k") in ("DoStmt", "WhileStmt", "ForStmt", "SwitchStmt"):
                            inner = True
                            break
                    if not inner:
                        probs.append("break out of the decompression loop (%s)" % fn.loc(x))
                    else:
                        # leaving the inner loop early is only allowed for "want more input": Z_BUF_ERROR with input read
                        ok = False
                        cs = g.cmps(x) or []
                        ts = g.truths(x) or []
                        buf = any(rel == "==" and -5 in (folded(l), folded(rr)) for l, rel, rr in cs)
                        more = any(truth for atom, truth in ts) or \
                            any(rel in ("!=", ">") and 0 in (folded(l), folded(rr)) and
                                (strip_all(l) or {}).get("k") == "DeclRefExpr" for l, rel, rr in cs)
                        # the ordinary end of the inner loop: the output buffer was not filled (nothing more to drain)
                        drained = any(rel in ("!=", ">") and 0 in (folded(l), folded(rr)) and
                                      any(y.get("k") == "MemberExpr" and y.get("n") == "avail_out" for y in walk(l) ) or
                                      rel in ("!=", "<") and 0 in (folded(l), folded(rr)) and
                                      any(y.get("k") == "MemberExpr" and y.get("n") == "avail_out" for y in walk(rr))
                                      for l, rel, rr in cs) or \
                            any(truth and any(y.get("k") == "MemberExpr" and y.get("n") == "avail_out" for y in walk(atom))
                                for atom, truth in ts)
                        if not (buf and more) and not drained:
                            probs.append("the inner loop is left early other than for `Z_BUF_ERROR with input still arriving` (%s)" % fn.loc(x))
            r.add(key, fn.loc(outer), not probs, "normal exit only at Z_STREAM_END" if not probs else "; ".join(probs))
    return r


def rule_zlib_census(prog, fixture=False):
    r = RuleResult("R-C10-3", "the zlib entry points used are the confirmed ones; nothing disables or bypasses "
                   "the gzip CRC/length check", floor=0 if fixture else 3)
    for fn in prog.functions.values():
        for n in fn.walk():
            if n.get("k") != "CallExpr":
                continue
            q = notpl(n.get("q") or "")
            if "::" in q or not q.startswith(ZLIB_PREFIXES):
                continue
            info = prog.callees.get(n.get("fn"), {})
            if info.get("in_repo"):
                continue
            ok = q in ZLIB_ALLOWED
            r.add("%s::%s::%s" % (fn.relfile(), fn.qn, q), fn.loc(n), ok, "confirmed zlib call" if ok else
                  "%s() is not among the zlib calls confirmed for the decompressor: it can disable or bypass the "
                  "integrity checks (e.g. inflateValidate(strm, 0) stops verifying the gzip CRC-32)" % q)
    return r


def _input_remains(cmps):
    """next != EOF  or  avail_in != 0 among the comparison facts"""
    return any(rel == "!=" and -1 in (folded(l), folded(rr)) for l, rel, rr in cmps) or \
        any(rel in ("!=", ">") and 0 in (folded(l), folded(rr)) and
            any(x.get("k") == "MemberExpr" and x.get("n") == "avail_in" for e in (l, rr) for x in walk(e))
            for l, rel, rr in cmps)


def _true_only_with_input(t):
    g = Guards(t)
    rets = [m for m in t.walk() if m.get("k") == "ReturnStmt" and m.get("c")]
    if not rets:
        return False
    for m in rets:
        if folded(m["c"][0]) == 0:
            continue
        if not _input_remains(g.cmps(m) or []):
            return False
    return True


def _decompression_loop(fn):
    """The loop that drives decompression: {"kind": "status", "node", "status_d"} for
    `while/do (zerr != Z_STREAM_END)`, {"kind": "flag", "node", "flag_d", "status_d", "sets"} for a loop run by a
    Boolean `finished` flag that the body sets; None if no such loop."""
    status_d = None
    for n in fn.walk():
        if n.get("k") == "BinaryOperator" and n.get("op") in ("==", "!=") and 1 in (folded(n["c"][0]), folded(n["c"][1])):
            for x in (strip_all(n["c"][0]), strip_all(n["c"][1])):
                if x is not None and x.get("k") == "DeclRefExpr" and x.get("dk") == "Var" and x.get("w", 0) >= 32:
                    status_d = x["d"]
    for lp in fn.walk():
        if lp.get("k") not in ("WhileStmt", "DoStmt", "ForStmt"):
            continue
        if lp["k"] == "DoStmt":
            cn = lp["c"][-1]
        elif "cond" in lp.get("parts", {}):
            cn = lp["c"][lp["parts"]["cond"]]
        else:
            continue
        c = strip_all(cn)
        if c is None:
            continue
        if c.get("k") == "BinaryOperator" and c.get("op") == "!=" and 1 in (folded(c["c"][0]), folded(c["c"][1])):
            sv = [x for x in (strip_all(c["c"][0]), strip_all(c["c"][1])) if x is not None and x.get("k") == "DeclRefExpr"]
            if sv:
                return {"kind": "status", "node": lp, "cond": cn, "status_d": sv[0]["d"]}
        flag = None
        if c.get("k") == "UnaryOperator" and c.get("op") == "!":
            x = strip_all(c["c"][0])
            if x is not None and x.get("k") == "DeclRefExpr" and (x.get("t") or "") in ("bool", "_Bool"):
                flag = x
        if flag is not None and status_d is not None:
            sets = [a for a in walk(lp) if a.get("k") == "BinaryOperator" and a.get("op") == "=" and
                    (strip_all(a["c"][0]) or {}).get("d") == flag["d"] and folded(a["c"][1]) == 1]
            if sets and any(x.get("k") == "CallExpr" and notpl(x.get("q") or "") == "fread" for x in walk(lp)):
                return {"kind": "flag", "node": lp, "cond": cn, "flag_d": flag["d"], "status_d": status_d, "sets": sets}
    return None


def _false_only_at_eof(t):
    """Every `return false` of the predicate helper is reached only after a read returned EOF."""
    g = Guards(t)
    for m in t.walk():
        if m.get("k") == "ReturnStmt" and m.get("c") and folded(m["c"][0]) == 0:
            if not any(rel == "==" and -1 in (folded(l), folded(rr)) for l, rel, rr in (g.cmps(m) or [])):
                return False
    return True


def _stops_without_eof(prog, fn, g):
    cfg = fn.cfg
    info = _decompression_loop(fn)
    if info is None:
        return None
    status_d = info["status_d"]
    stop_blocks = set()
    if info["kind"] == "status":
        pos = g.position(info["cond"])
        if pos is not None:
            stop_blocks.add(pos[0])
    else:
        for a in info["sets"]:
            pos = g.position(a)
            if pos is not None:
                stop_blocks.add(pos[0])
    if not stop_blocks:
        return None
    loopcond = None

    def edge_has(edge, pred):
        for k in g.edge_facts.get(edge, ()):
            if k[0] == "NAND":
                # not(a and b) on a path where a = "member ended" holds gives not b
                for x, y in ((k[1], k[2]), (k[2], k[1])):
                    fx = g.rep.get(x)
                    if fx is not None and member_ended(fx):
                        ny = flow.negate_key(y)
                        fy = g.rep.get(ny) if ny is not None else None
                        if fy is not None and pred(fy):
                            return True
                continue
            f = g.rep.get(k)
            if f is not None and pred(f):
                return True
        return False

    def member_ended(f):
        return f[0] == "C" and f[2] == "==" and 1 in (folded(f[1]), folded(f[3])) and \
            not any(x.get("k") == "MemberExpr" for x in walk(f[1]))

    def eof_seen(f):
        if f[0] == "C" and f[2] == "==" and -1 in (folded(f[1]), folded(f[3])):
            return True
        if f[0] == "T":
            a = strip_all(f[1])
            if a is not None and a.get("k") == "CallExpr":
                q = notpl(a.get("q") or "")
                if q == "feof" and f[2] is True:
                    return True
                ts = prog.call_targets(fn, a)
                if f[2] is False and ts and all(_false_only_at_eof(t) for t in ts):
                    return True
        return False
    starts = [(p, s_) for (p, s_) in g.edge_facts if p not in stop_blocks and edge_has((p, s_), member_ended)]
    for (p0, s0) in starts:
        seen, todo = {s0}, [s0]
        while todo:
            b = todo.pop()
            if b in stop_blocks:
                n0 = fn.nodes.get(cfg.blocks[p0].get("cond"))
                return fn.loc(n0) if n0 is not None else "?"
            # a block that assigns the status variable ends this path: set back to Z_OK the loop goes on,
            # set from inflate() the stream state is a new one
            if any(e.get("k") == "BinaryOperator" and e.get("op") == "=" and
                   (strip_all(e["c"][0]) or {}).get("d") == status_d for e in flow.element_nodes(fn, b)):
                continue
            for nx in cfg.succ[b]:
                if nx < 0 or nx in seen or nx not in cfg.blocks:
                    continue
                if edge_has((b, nx), eof_seen):
                    continue
                # the status variable still says "member ended" (assignments end the path): edges that
                # require the opposite are infeasible here
                if edge_has((b, nx), lambda f: f[0] == "C" and f[2] == "!=" and 1 in (folded(f[1]), folded(f[3])) and
                            status_d in (strip_all(f[1]).get("d"), strip_all(f[3]).get("d"))):
                    continue
                seen.add(nx)
                todo.append(nx)
    return None


def rule_all_members(prog, fixture=False):
    r = RuleResult("R-C10-4", "at the end of a gzip member the decompressor stops only if no input remains; "
                   "otherwise it resets the inflater and continues", floor=0 if fixture else 1)
    for fn in prog.fnby("write_decompressed_data", required=not fixture):
        key = "%s::%s::members" % (fn.relfile(), fn.qn)
        # where is inflateReset called: here, or in a helper called from here
        sites = []     # (function holding the reset, reset node, call node in fn or None)
        for n in fn.walk():
            if n.get("k") == "CallExpr" and notpl(n.get("q") or "") == "inflateReset":
                sites.append((fn, n, None))
            elif is_call(n) and n.get("fn"):
                for t in prog.call_targets(fn, n):
                    for m in t.walk():
                        if m.get("k") == "CallExpr" and notpl(m.get("q") or "") == "inflateReset":
                            sites.append((t, m, n))
        if not sites:
            r.add(key, "%s:%d" % (fn.relfile(), fn.line), False,
                  "the inflater is never reset after Z_STREAM_END: only the first member of a multi-member gzip file "
                  "is decompressed and the rest of the image is silently missing")
            continue
        g = Guards(fn)
        ok = False
        why = []
        for holder, rs, via in sites:
            gh = g if holder is fn else Guards(holder)
            cs_reset = gh.cmps(rs) or []
            # (a) input remains at the reset: next != EOF  or  avail_in != 0
            more = _input_remains(cs_reset)
            if not more:
                # ... or a predicate helper said so: it returns true only where input was seen to remain
                for atom, truth in (gh.truths(rs) or []):
                    a = strip_all(atom)
                    if truth and a is not None and a.get("k") == "CallExpr":
                        ts = prog.call_targets(holder, a)
                        if ts and all(_true_only_with_input(t) for t in ts):
                            more = True
            # (b) a member has just ended: zerr == Z_STREAM_END holds at the reset / at the call of the helper
            at = rs if via is None else via
            at_end = any(rel == "==" and 1 in (folded(l), folded(rr)) for l, rel, rr in (g.cmps(at) or []))
            if via is not None and not at_end:
                # `zerr == Z_STREAM_END && helper(...)`: the helper call is the right operand of that &&
                for a in fn.ancestors(via):
                    if a.get("k") == "BinaryOperator" and a.get("op") == "&&":
                        for f in atomise(a["c"][0], True):
                            if f[0] == "C" and f[2] == "==" and 1 in (folded(f[1]), folded(f[3])):
                                at_end = True
            # (c) the loop goes on: the status variable is set back to Z_OK where the reset happened
            cont = False
            if via is None:
                blk = fn.where().get(rs["i"])
                if blk:
                    cont = any(e.get("k") == "BinaryOperator" and e.get("op") == "=" and folded(e["c"][1]) == 0
                               for e in flow.element_nodes(fn, blk[0]))
            else:
                # on the helper's true result
                for e in fn.walk():
                    if e.get("k") == "BinaryOperator" and e.get("op") == "=" and folded(e["c"][1]) == 0:
                        for atom, truth in (g.truths(e) or []):
                            if truth and strip_all(atom) is via or (truth and same_expr(atom, via)):
                                cont = True
                # and the helper reports true only after resetting
                rets_true = [m for m in holder.walk() if m.get("k") == "ReturnStmt" and m.get("c") and folded(m["c"][0]) == 1]
                dom = holder.cfg.dominators()
                rpos = holder.where().get(rs["i"])
                for m in rets_true:
                    mpos = holder.where().get(m["i"])
                    if not (rpos and mpos and rpos[0] in dom.get(mpos[0], set())):
                        cont = False
            if not cont:
                # a loop run by a "finished" flag simply goes round again unless the flag is set
                li = _decompression_loop(fn)
                if li is not None and li["kind"] == "flag" and via is None:
                    blk = fn.where().get(rs["i"])
                    if blk and not any(g.position(a) and g.position(a)[0] == blk[0] for a in li["sets"]):
                        cont = True
            if more and at_end and cont:
                ok = True
            else:
                why.append("input-remains=%s member-ended=%s loop-continues=%s" % (more, at_end, cont))
        # (d) the loop may stop at a member end only after end of input was *seen* (a read returned EOF):
        #     from the member-ended edge, without passing an EOF-evidence edge or the reset, the loop test
        #     must not be reachable
        if ok:
            stop = _stops_without_eof(prog, fn, g)
            if stop:
                ok = False
                why.append("at %s the loop can end after a member without any read having returned EOF "
                           "(`avail_in == 0` only says the current input buffer is used up): a following member "
                           "that starts exactly at a buffer boundary is dropped" % stop)
        r.add(key, fn.loc(sites[0][1]) if sites[0][0] is fn else "%s:%d" % (fn.relfile(), fn.line), ok,
              "reset and continue while input remains" if ok else
              "inflateReset is not performed exactly when a member has ended and input remains (%s)" % "; ".join(why))
    return r


def rule_openers(prog, fixture=False):
    r = RuleResult("R-C10-5", "the decompressing and the plain file readers are created only in make_image_file, "
                   "chosen by whether the last extension is gz", floor=0 if fixture else 2)
    for fn in prog.functions.values():
        for n in fn.walk():
            made = None
            if n.get("k") == "CallExpr" and notpl(n.get("q") or "").endswith("make_decompressed_file"):
                made = "decompressed"
            if n.get("k") == "CallExpr" and notpl(n.get("q") or "") == "std::make_unique" and "OsFile" in ((n.get("ct") or "") + (n.get("t") or "")):
                made = "plain"
            if made is None:
                continue
            key = "%s::%s::%s" % (fn.relfile(), fn.qn, made)
            if not fn.qn.endswith("make_image_file"):
                # tests may construct readers; product code may not
                r.add(key, fn.loc(n), False, "a %s file reader is created outside make_image_file" % made)
                continue
            gz = None
            child = n
            for a in fn.ancestors(n):
                if a.get("k") == "IfStmt":
                    parts = a["parts"]
                    cond = a["c"][parts["cond"]]
                    in_then = "then" in parts and any(x is child for x in [a["c"][parts["then"]]])
                    in_else = "else" in parts and any(x is child for x in [a["c"][parts["else"]]])
                    for f in atomise(cond, True):
                        if f[0] == "C" and f[2] in ("==", "!=") and any(
                                x.get("k") == "StringLiteral" and x.get("s") == "gz" for e in (f[1], f[3]) for x in walk(e)):
                            eq = f[2] == "=="
                            if in_then:
                                gz = eq
                            elif in_else:
                                gz = not eq
                    if gz is not None:
                        break
                child = a
            if gz is None:
                # the test may sit in a bool (`const bool compressed = extensions.back() == "gz"`): branch facts
                gg = Guards(fn)
                for atom, val in (gg.truths(n) or []):
                    a = strip_all(atom)
                    if a is not None and a.get("k") == "DeclRefExpr" and a.get("d") in gg.bool_defs:
                        # what the bool recorded when it was set is what selects the reader
                        a = strip_all(gg.bool_defs[a["d"]])
                    if a is not None and a.get("k") in ("CXXOperatorCallExpr", "BinaryOperator") and a.get("op") in ("==", "!=") and \
                            any(x.get("k") == "StringLiteral" and x.get("s") == "gz" for x in walk(a)):
                        gz = val if a["op"] == "==" else (not val)
            want = (made == "decompressed")
            r.add(key, fn.loc(n), gz == want, "chosen by the gz extension" if gz == want else
                  "the %s reader is not selected by `last extension %s \"gz\"`" % (made, "==" if want else "!="))
    return r


# ---------------------------------------------------------------- R-C10-6
def _size_of(e, buf_d):
    """e is <buf>.size() or a never-reassigned local initialised from it."""
    e = strip_all(e)
    if e is None:
        return False
    if e.get("k") == "CXXMemberCallExpr":
        cal = strip(e["c"][0])
        return bool(cal and cal.get("n") == "size" and cal.get("c") and (strip_all(cal["c"][0]) or {}).get("d") == buf_d)
    return False


def rule_read_length(prog, fixture=False):
    from . import c07
    r = RuleResult("R-C10-6", "both implementations of FileAccess::read(pos, len) - plain and decompressed - never "
                   "grow the returned buffer beyond len: each chunk is min(..., what is still missing), so the "
                   "compressed and the plain path return the same bytes for the same request", floor=0 if fixture else 2)
    keys = c07._read_calls(prog) if not fixture else set()
    fns = [f for f in prog.functions.values() if (f.key in keys or (fixture and f.name == "read")) and len(f.params) == 2]
    for fn in fns:
        lenp = fn.params[1]
        # the buffer that is returned
        rets = [strip_all(n["c"][0]) for n in fn.walk() if n.get("k") == "ReturnStmt" and n.get("c")]
        bufs = set()
        for e in rets:
            x = e
            while x is not None and x.get("k") == "CXXConstructExpr" and len(x.get("c", [])) == 1:
                x = strip_all(x["c"][0])
            if x is not None and x.get("k") == "DeclRefExpr" and x.get("dk") == "Var":
                bufs.add(x["d"])
        for bd in bufs:
            sizes = {}      # locals holding buf.size()
            for v in fn.walk():
                if v.get("k") == "VarDecl" and v.get("c") and _size_of(v["c"][0], bd):
                    sizes[v["d"]] = v
            # "remaining" variables: start at len, only ever decreased
            remaining = set()
            for v in fn.walk():
                if v.get("k") == "VarDecl" and v.get("c"):
                    i = strip_all(v["c"][0])
                    if i is not None and i.get("k") == "DeclRefExpr" and i.get("d") == lenp["d"]:
                        ok = True
                        for w in fn.walk():
                            if w.get("k") in ("BinaryOperator", "CompoundAssignOperator") and w.get("op") in flow.ASSIGN_OPS and \
                                    (strip_all(w["c"][0]) or {}).get("d") == v["d"] and w.get("op") != "-=":
                                ok = False
                        # ... and it is brought down by what each round keeps in the buffer
                        decs = [w for w in fn.walk() if w.get("k") == "CompoundAssignOperator" and w.get("op") == "-=" and
                                (strip_all(w["c"][0]) or {}).get("d") == v["d"]]
                        kept = set()
                        for w in fn.walk():
                            if w.get("k") == "CXXMemberCallExpr" and (strip(w["c"][0]) or {}).get("n") == "resize":
                                for x in walk(w["c"][1]) if len(w["c"]) > 1 else []:
                                    if x.get("k") == "DeclRefExpr" and x.get("dk") == "Var":
                                        kept.add(x["d"])
                        if ok and decs and all((strip_all(w["c"][1]) or {}).get("d") in kept for w in decs):
                            remaining.add(v["d"])

            def missing_amount(e):
                """e is `len - <current size>` or a remaining-variable"""
                e = strip_all(e)
                if e is None:
                    return False
                if e.get("k") == "DeclRefExpr" and e.get("d") in remaining:
                    return True
                if e.get("k") == "BinaryOperator" and e.get("op") == "-":
                    a, b = strip_all(e["c"][0]), strip_all(e["c"][1])
                    if a is not None and a.get("k") == "DeclRefExpr" and a.get("d") == lenp["d"]:
                        return _size_of(b, bd) or (b is not None and b.get("k") == "DeclRefExpr" and b.get("d") in sizes)
                return False

            def bounded(e, depth=0):
                """True: e <= missing amount; False: certainly not bounded by it; None: cannot tell"""
                e = strip_all(e)
                if e is None or depth > 4:
                    return None
                if missing_amount(e):
                    return True
                if e.get("k") == "CallExpr" and notpl(e.get("q") or "") == "std::min":
                    args = call_args(e)
                    res = [bounded(a, depth + 1) for a in args]
                    if any(x is True for x in res):
                        return True
                    if all(x is False for x in res):
                        return False
                    return None
                if e.get("k") == "ConditionalOperator":
                    c, x, y = strip_all(e["c"][0]), e["c"][1], e["c"][2]
                    bx, by = bounded(x, depth + 1), bounded(y, depth + 1)
                    # (x < y) ? x : y  and its variants select the smaller: one bounded arm is enough
                    is_min = False
                    if c is not None and c.get("k") == "BinaryOperator" and c.get("op") in ("<", "<=", ">", ">="):
                        l, r_ = c["c"][0], c["c"][1]
                        small_first = c["op"] in ("<", "<=")
                        if same_expr(l, x) and same_expr(r_, y) and small_first:
                            is_min = True
                        if same_expr(l, y) and same_expr(r_, x) and not small_first:
                            is_min = True
                    if is_min and (bx is True or by is True):
                        return True
                    if bx is True and by is True:
                        return True
                    if bx is False and by is False:
                        return False
                    return None
                if folded(e) is not None:
                    return False
                if e.get("k") == "DeclRefExpr" and e.get("dk") == "ParmVar":
                    return False
                if e.get("k") == "DeclRefExpr" and e.get("dk") == "Var":
                    for v in fn.walk():
                        if v.get("k") == "VarDecl" and v.get("d") == e.get("d") and v.get("c"):
                            # the amount a read call delivered is bounded by the amount requested
                            i = strip_all(v["c"][0])
                            if i is not None and i.get("k") == "CallExpr" and notpl(i.get("q") or "") == "fread":
                                return bounded(call_args(i)[2], depth + 1)
                            return bounded(v["c"][0], depth + 1)
                if e.get("k") == "CXXMemberCallExpr" and (strip(e["c"][0]) or {}).get("n") == "gcount":
                    # gcount() after read(p, want)
                    for w in fn.walk():
                        if w.get("k") == "CXXMemberCallExpr" and (strip(w["c"][0]) or {}).get("n") == "read" and len(w["c"]) == 3:
                            return bounded(w["c"][2], depth + 1)
                return None
            k = 0
            for n in fn.walk():
                if n.get("k") != "CXXMemberCallExpr":
                    continue
                cal = strip(n["c"][0])
                if not (cal and cal.get("n") == "resize" and cal.get("c") and (strip_all(cal["c"][0]) or {}).get("d") == bd):
                    continue
                arg = strip_all(n["c"][1])
                k += 1
                key = "%s::%s::resize#%d" % (fn.relfile(), fn.qn, k)
                verdict = None
                if arg is not None and arg.get("k") == "BinaryOperator" and arg.get("op") == "+":
                    a, b = strip_all(arg["c"][0]), strip_all(arg["c"][1])
                    for base, inc in ((a, b), (b, a)):
                        if _size_of(base, bd) or (base is not None and base.get("k") == "DeclRefExpr" and base.get("d") in sizes):
                            verdict = bounded(inc)
                elif arg is not None and arg.get("k") == "DeclRefExpr" and arg.get("d") == lenp["d"]:
                    verdict = True
                if verdict is None:
                    r.undecided.append("%s: cannot bound `%s` against the requested length" % (fn.loc(n), show(n)))
                    continue
                r.add(key, fn.loc(n), verdict, "grows by at most what is still missing" if verdict else
                      "`%s`: the amount added is not limited to what is still missing of the %s bytes requested, so "
                      "a request larger than one chunk returns more than it asked for (and differs from the sibling "
                      "implementation)" % (show(n), lenp["n"]))
    return r


# ---------------------------------------------------------------- R-C10-7
def rule_counters_after_reset(prog, fixture=False, rule_id="R-C10-7"):
    r = RuleResult(rule_id, "zlib contract: inflateReset() restarts the stream's total_in/total_out counters, so in "
                   "a function that resets the stream they are never used as a position in the file (fseek/fsetpos/"
                   "lseek argument): from the second member on such a seek goes back into data already consumed",
                   floor=0)
    for fn in prog.functions.values():
        resets = []
        for n in fn.walk():
            if n.get("k") == "CallExpr" and notpl(n.get("q") or "") in ("inflateReset", "inflateReset2"):
                resets.append(n)
            elif is_call(n) and n.get("fn"):
                for t in prog.call_targets(fn, n):
                    if any(m.get("k") == "CallExpr" and notpl(m.get("q") or "") in ("inflateReset", "inflateReset2") for m in t.walk()):
                        resets.append(n)
        if not resets:
            continue
        k = 0
        uses = 0
        for n in fn.walk():
            if n.get("k") == "MemberExpr" and n.get("n") in ("total_in", "total_out"):
                uses += 1
                seek = None
                for a in fn.ancestors(n):
                    if a.get("k") == "CallExpr" and notpl(a.get("q") or "").split("::")[-1] in ("fseek", "fseeko", "fsetpos", "lseek", "seekg"):
                        seek = a
                        break
                total = None
                for a in fn.ancestors(n):
                    if a.get("k") == "ReturnStmt":
                        total = a
                        break
                    if a.get("k") == "BinaryOperator" and a.get("op") == "=" and any(x is n for x in walk(a["c"][1])):
                        t_ = strip_all(a["c"][0])
                        if t_ is not None and (t_.get("k") == "MemberExpr" or (t_.get("k") == "UnaryOperator" and t_.get("op") == "*")):
                            total = a
                            break
                if total is not None and seek is None:
                    k += 1
                    r.add("%s::%s::%s-as-total#%d" % (fn.relfile(), fn.qn, n.get("n"), k), fn.loc(total), False,
                          "`%s` hands %s on as if it counted the whole file, but inflateReset() restarts it for every gzip "
                          "member: for a multi-member file it is the size of the last member only" % (show(total)[:60], n.get("n")))
                if seek is not None:
                    k += 1
                    r.add("%s::%s::%s-as-position#%d" % (fn.relfile(), fn.qn, n.get("n"), k), fn.loc(seek), False,
                          "`%s`: %s counts from the last inflateReset(), not from the start of the file; for the "
                          "second member of a multi-member gzip file this seeks back into data already decompressed "
                          "(the same data is produced again, possibly for ever)" % (show(seek)[:70], n.get("n")))
        r.add("%s::%s::resets-stream" % (fn.relfile(), fn.qn), fn.loc(resets[0]), True,
              "resets the inflater; %d uses of its counters, none as a file position" % uses if not k else
              "resets the inflater", nontrivial=True)
    return r


# ---------------------------------------------------------------- R-C10-8
STATIC_ALLOWED = {("DFS::CIReg::get_command_map", "instance"): "the command registry singleton (filled at start-up, before any image is read)"}


def rule_no_carried_static_state(prog, fixture=False):
    r = RuleResult("R-C10-8", "no function of dfs keeps modifiable state in a function-local static (a cache shared "
                   "by every reader object): what is returned for one image never depends on what was read from "
                   "another", floor=0 if fixture else 3)
    for fn in prog.functions.values():
        for v in fn.walk():
            if v.get("k") != "VarDecl" or not v.get("sl"):
                continue
            written = [x for x in fn.walk() for d, _ in flow.written_decls(x) if d == v["d"]]
            # an object of class type: modified by any non-const member function or by a stream insertion into it
            for x in fn.walk():
                if x.get("k") == "CXXMemberCallExpr":
                    cal = strip(x["c"][0])
                    recv = cal["c"][0] if cal and cal.get("c") else None
                    if recv is not None and flow.lvalue_root(recv) == v["d"]:
                        info = prog.callees.get(x.get("fn")) or {}
                        if not info.get("const"):
                            written.append(x)
                elif x.get("k") == "CXXOperatorCallExpr" and x.get("op") in ("<<", ">>", "=", "+=") and len(x.get("c", [])) >= 2:
                    first = x["c"][1]
                    root = strip_all(first)
                    while root is not None and root.get("k") == "CXXOperatorCallExpr" and root.get("op") in ("<<", ">>") and len(root.get("c", [])) >= 2:
                        root = strip_all(root["c"][1])
                    if root is not None and root.get("k") == "DeclRefExpr" and root.get("d") == v["d"] and \
                            "const" not in (v.get("t") or "").split("<")[0]:
                        written.append(x)
            key = "%s::%s::static %s" % (fn.relfile(), fn.qn, v.get("n"))
            if not written:
                r.add(key, fn.loc(v), True, "never modified after initialisation", nontrivial=False)
                continue
            allowed = STATIC_ALLOWED.get((fn.qn, v.get("n")))
            r.add(key, fn.loc(v), bool(allowed), allowed if allowed else
                  "`static %s` is modified at %s and so carries data from one call to the next - across different "
                  "reader objects and image files: a later image can be answered from an earlier one's data" %
                  (v.get("n"), fn.loc(written[0])))
    # static data members: one object shared by every instance of the class (every drive, every image)
    recs = {notpl(q_) for q_ in prog.records}
    for gid, gl in prog.globals.items():
        q = notpl(gl.get("q") or "")
        owner = q.rsplit("::", 1)[0] if "::" in q else ""
        if not owner or owner not in recs or gl.get("const") or gl.get("constexpr"):
            continue
        loc = gid.split("|")[1] if "|" in gid else "?"
        if "/tests/" in loc:
            continue
        r.add("static member %s" % q, loc, False,
              "`%s` is a non-const static data member: every object of %s shares it, so what one drive or image put there "
              "is seen by the next (a cache keyed by sector number only answers for the wrong disc)" % (q, owner))
    return r


# ---------------------------------------------------------------- R-C10-9
def rule_short_read_keeps_data(prog, fixture=False):
    from . import c07, c09
    r = RuleResult("R-C10-9", "FileAccess::read of the decompressed file, like the plain one, hands back the bytes it did "
                   "get when the request runs past the end of the data: on the short edge of `got < want` every "
                   "return delivers the buffer, except where the buffer is known to be empty", floor=0 if fixture else 1)
    keys = c07._read_calls(prog) if not fixture else set()
    for fn, call, var, want, buf in c09._fread_sites(prog):
        if not ((fn.key in keys or (fixture and fn.name == "read")) and len(fn.params) == 2) or want is None:
            continue
        br = c09._short_read_branch(fn, call, var, want)
        key = "%s::%s::short-read" % (fn.relfile(), fn.qn)
        if br is None:
            r.undecided.append("%s: no branch on `result < requested` found after this fread" % fn.loc(call))
            continue
        bid, short, full = br
        rets = [strip_all(n["c"][0]) for n in fn.walk() if n.get("k") == "ReturnStmt" and n.get("c")]
        bufvars = set()
        for e in rets:
            x = e
            while x is not None and x.get("k") == "CXXConstructExpr" and len(x.get("c", [])) == 1:
                x = strip_all(x["c"][0])
            if x is not None and x.get("k") == "DeclRefExpr" and x.get("dk") == "Var" and "vector" in (x.get("t") or x.get("ct") or ""):
                bufvars.add(x["d"])
        g = Guards(fn)
        cfg = fn.cfg
        seen, st = set(), [short]
        problem = None
        while st and problem is None:
            x = st.pop()
            if x in seen or x < 0:
                continue
            seen.add(x)
            stop = False
            for n in flow.element_nodes(fn, x):
                if n.get("k") == "CallExpr" and notpl(n.get("q") or "") == "fread":
                    stop = True          # the next round of the loop: a new request
                    break
                if n.get("k") == "ReturnStmt" and n.get("c"):
                    e = strip_all(n["c"][0])
                    y = e
                    while y is not None and y.get("k") == "CXXConstructExpr" and len(y.get("c", [])) == 1:
                        y = strip_all(y["c"][0])
                    if y is not None and y.get("k") == "DeclRefExpr" and y.get("d") in bufvars:
                        stop = True
                        break
                    empty_known = any(truth and (strip_all(a) or {}).get("k") == "CXXMemberCallExpr" and
                                      (strip((strip_all(a))["c"][0]) or {}).get("n") == "empty"
                                      for a, truth in (g.truths(n) or []))
                    if not empty_known:
                        # ... or a running count of the bytes delivered so far (starts at 0, only ever `+= got`) is zero
                        for l, rel, rr in (g.cmps(n) or []):
                            for a, b in ((l, rr), (rr, l)):
                                av = strip_all(a)
                                if rel == "==" and folded(b) == 0 and av is not None and av.get("k") == "DeclRefExpr" and av.get("dk") == "Var":
                                    init0 = any(v.get("k") == "VarDecl" and v.get("d") == av["d"] and v.get("c") and folded(v["c"][0]) == 0
                                                for v in fn.walk())
                                    ws = [w for w in fn.walk() if w.get("k") in ("BinaryOperator", "CompoundAssignOperator", "UnaryOperator")
                                          and w.get("op") in flow.ASSIGN_OPS | {"++", "--"} and (strip_all(w["c"][0]) or {}).get("d") == av["d"]]
                                    adds = all(w.get("op") == "+=" and (strip_all(w["c"][1]) or {}).get("d") == var for w in ws)
                                    if init0 and ws and adds and var is not None:
                                        empty_known = True
                    if not empty_known:
                        problem = "%s: after a short read the function returns `%s` instead of the bytes it did read: a " \
                                  "request that runs past the end of the decompressed data yields nothing, while the same " \
                                  "request on the plain file yields the available bytes" % (fn.loc(n), show(e)[:40])
                    stop = True
                    break
                if n.get("k") == "CXXThrowExpr":
                    if any(truth and (strip_all(a) or {}).get("k") == "CXXMemberCallExpr" and
                           (strip((strip_all(a))["c"][0]) or {}).get("n") == "empty" for a, truth in (g.truths(n) or [])):
                        stop = True         # nothing was read at all: an error may be raised
                        break
                    problem = "%s: a short read raises an exception" % fn.loc(n)
                    break
            if not stop:
                st.extend(cfg.succ[x])
        r.add(key, fn.loc(call), problem is None, "short reads deliver what was read" if problem is None else problem)
    return r


# ---------------------------------------------------------------- R-C10-10
def rule_seek_back_offset(prog, fixture=False):
    r = RuleResult("R-C10-10", "an fseek offset that hands input back (SEEK_CUR) is negated after it was widened to a "
                   "signed type: negating the unsigned 32-bit count first and widening afterwards gives +4 GiB-n",
                   floor=0 if fixture else 1)
    for fn in prog.functions.values():
        for n in fn.walk():
            if n.get("k") != "CallExpr" or notpl(n.get("q") or "") not in ("fseek", "fseeko", "lseek"):
                continue
            a = call_args(n)
            if len(a) < 3 or folded(a[2]) != 1:       # SEEK_CUR
                continue
            key = "%s::%s::%s(SEEK_CUR)" % (fn.relfile(), fn.qn, notpl(n.get("q")))
            bad = None
            negs = 0
            for x in walk(a[1]):
                if x.get("k") == "UnaryOperator" and x.get("op") == "-":
                    negs += 1
                    opnd = strip(x["c"][0])
                    # the operand's own type (after the usual promotions) decides where the wrap happens
                    if x.get("w") and x.get("w") < 64 and x.get("sg") is False:
                        bad = x
                    elif opnd is not None and opnd.get("sg") is False and (x.get("w") or 64) < 64:
                        bad = x
            r.add(key, fn.loc(n), bad is None, "offset negated in a signed 64-bit type" if bad is None and negs else
                  ("no negation" if bad is None else
                   "`%s` negates an unsigned %d-bit value before it is widened: the offset becomes 2^%d - n, a forward "
                   "seek far past the end, and the gzip members after the first are lost" % (show(bad)[:40], bad.get("w"), bad.get("w"))),
                  nontrivial=bool(negs))
    return r


# ---------------------------------------------------------------- R-C10-11
def rule_no_size_limit(prog, fixture=False):
    r = RuleResult("R-C10-11", "decompression is not cut off by a size limit of its own: no throw/return/break in the "
                   "function that runs inflate() is controlled by a comparison of a running total (a variable the loop "
                   "adds to) with a constant - the plain file has no such limit, so a large valid image (a full MMB) "
                   "would open uncompressed and fail compressed", floor=0 if fixture else 1)
    for fn in prog.functions.values():
        if not any(n.get("k") == "CallExpr" and notpl(n.get("q") or "") == "inflate" for n in fn.walk()):
            continue
        totals = set()
        for n in fn.walk():
            if n.get("k") == "CompoundAssignOperator" and n.get("op") == "+=" and \
                    any(a.get("k") in ("WhileStmt", "ForStmt", "DoStmt") for a in fn.ancestors(n)):
                t = strip_all(n["c"][0])
                if t is not None and t.get("k") == "DeclRefExpr" and t.get("dk") == "Var":
                    totals.add(t["d"])

        def constant(e, depth=0):
            e = strip_all(e)
            if e is None:
                return False
            if folded(e) is not None:
                return True
            if e.get("k") == "DeclRefExpr" and e.get("dk") == "Var" and depth < 3 and \
                    not any(d_ == e["d"] for x in fn.walk() for d_, _ in flow.written_decls(x) if x.get("k") not in ("VarDecl", "DeclStmt")):
                for v in fn.walk():
                    if v.get("k") == "VarDecl" and v.get("d") == e["d"] and v.get("c"):
                        return constant(v["c"][0], depth + 1) or all(
                            y.get("k") != "DeclRefExpr" or y.get("dk") != "Var" or constant(y, depth + 1) for y in walk(v["c"][0]))
            return False
        bad = None
        for n in fn.walk():
            if n.get("k") not in ("CXXThrowExpr", "BreakStmt", "ReturnStmt"):
                continue
            for a in fn.ancestors(n):
                if a.get("k") != "IfStmt":
                    continue
                for c in walk(a["c"][a["parts"]["cond"]]):
                    if c.get("k") == "BinaryOperator" and c.get("op") in (">", ">=", "<", "<="):
                        l, rr = strip_all(c["c"][0]), strip_all(c["c"][1])
                        for x, y in ((l, rr), (rr, l)):
                            if x is not None and x.get("k") == "DeclRefExpr" and x.get("d") in totals and constant(y):
                                bad = (c, n)
        key = "%s::%s::size-limit" % (fn.relfile(), fn.qn)
        r.add(key, fn.loc(bad[0]) if bad else "%s:%d" % (fn.relfile(), fn.line), bad is None,
              "no exit depends on a running total (%d totals looked at)" % len(totals) if bad is None else
              "`%s` stops decompression when a running total passes a fixed limit: a valid image larger than the limit "
              "is refused when compressed although it opens when not" % show(bad[0])[:50])
    return r


def run(ctx):
    prog = ctx.prog("dfs", "N")
    return [rule_hint_name(prog), rule_gzip_only(prog), rule_zlib_census(prog), rule_all_members(prog),
            rule_openers(prog), rule_read_length(prog), rule_counters_after_reset(prog),
            rule_no_carried_static_state(prog), rule_short_read_keeps_data(prog), rule_seek_back_offset(prog),
            rule_no_size_limit(prog)]


SELFTESTS = [
    (rule_no_size_limit, ["c10_limit_bad.cc"], ["c10_limit_good.cc"], "size-limit"),
    (rule_hint_name, ["c10_bad.cc"], ["c10_good.cc"], ".ddd"),
    (rule_gzip_only, ["c10_bad.cc"], ["c10_good.cc"], "default"),
    (rule_zlib_census, ["c10_bad.cc"], ["c10_good.cc"], "inflateValidate"),
    (rule_all_members, ["c10_bad.cc"], ["c10_good.cc"], "members"),
    (rule_read_length, ["c10_read_bad.cc"], ["c10_read_good.cc"], "resize#1"),
    (rule_counters_after_reset, ["c10_seek_bad.cc"], ["c10_seek_good.cc"], "total_in-as-position"),
    (rule_short_read_keeps_data, ["c10_short_bad.cc"], ["c10_read_good.cc"], "short-read"),
    (rule_seek_back_offset, ["c10_back_bad.cc"], ["c10_back_good.cc"], "SEEK_CUR"),
]
