"""C16 - every attached image gets its own drive number.

R-C16-1  an attached surface is never moved, hidden or overwritten:
         (a) the drive tables (drives_, caches_) are mutated only inside
             StorageConfiguration::connect_internal;
         (b) connect_internal is called only from connect_drives, and each call
             is guarded: under the first-free policy by a must-fact
             `!is_drive_connected(n)` about the very slot being connected (no
             write to n in between); under the physical policy by the success
             edge of check_sequence_fits, with the placement loop stepping by
             the stride that function verified (two surfaces = one drive);
         (c) nothing ever erases or clears the tables
R-C16-2  check_sequence_fits: the tests "slot occupied" and "opposite surface
         occupied" are unconditional single-condition branches that return
         false, and dominate every other return
R-C16-3  lookups by drive number (select_drive, drive_format, mount*) only
         read the tables, with the requested selector as key

Not decided: the allocation function over histories (lowest free number, n and
n+2 for two-sided images): a search over runtime state.
"""
from ..runner import RuleResult
from ..facts import AnalysisBroken
from ..model import strip, strip_all, walk, show, notpl, is_call, call_args
from .. import flow
from ..flow import Guards, canon, same_expr, atomise, folded

EXPLANATION = (
    "Static decision of one clause of C16 for every option sequence: an attached surface is never moved or hidden. "
    "The drive tables are written only by connect_internal; every call of it is dominated by an occupancy test of "
    "exactly the slot being connected (first-free policy: a must-fact about the same selector, killed by any "
    "update of it) or by the success of check_sequence_fits whose own occupancy and opposite-side tests are "
    "unconditional (physical policy); nothing erases.  The allocation order itself (lowest free number, n and "
    "n+2) is a property of a search over runtime state and is not decided.")
ASSUMPTIONS = ["std::map::emplace/operator[] semantics; selectors are values (no aliasing)"]

TABLES = ("drives_", "caches_")
MUTATORS = {"emplace", "insert", "erase", "clear", "operator[]", "swap", "extract", "merge", "insert_or_assign",
            "try_emplace", "emplace_hint", "at"}
ERASERS = {"erase", "clear", "extract", "swap"}


def _table_member(e):
    e = strip_all(e)
    return e is not None and e.get("k") == "MemberExpr" and e.get("n") in TABLES


def rule_tables(prog, fixture=False):
    r = RuleResult("R-C16-1", "drive tables are mutated only in connect_internal; each connect_internal call is "
                   "guarded by an occupancy test of the slot it fills; nothing erases", floor=0 if fixture else 4)
    ci = prog.fnby("StorageConfiguration::connect_internal", required=not fixture)
    for fn in prog.functions.values():
        k = 0
        for n in fn.walk():
            mut = None
            kk = n.get("k")
            if kk == "CXXMemberCallExpr":
                cal = strip(n["c"][0])
                if cal and cal.get("c") and _table_member(cal["c"][0]) and cal.get("n") in MUTATORS:
                    # `at`/operator[] const lookups are reads when the table object is const
                    obj = strip_all(cal["c"][0])
                    is_const = (obj.get("ct") or obj.get("t") or "").startswith("const ")
                    if cal.get("n") in ("at",) or (cal.get("n") == "operator[]" and is_const):
                        continue
                    mut = cal.get("n")
            elif kk == "CXXOperatorCallExpr" and n.get("op") == "[]" and len(n["c"]) == 3 and _table_member(n["c"][1]):
                obj = strip_all(n["c"][1])
                if not (obj.get("ct") or obj.get("t") or "").startswith("const "):
                    mut = "operator[]"
            elif kk == "CXXOperatorCallExpr" and n.get("op") == "=" and len(n["c"]) == 3 and _table_member(n["c"][1]):
                mut = "operator="
            if mut is None:
                continue
            k += 1
            key = "%s::%s::%s.%s#%d" % (fn.relfile(), fn.qn, "table", mut, k)
            inside = fn.qn.endswith("StorageConfiguration::connect_internal")
            if mut in ERASERS:
                r.add(key, fn.loc(n), False, "%s on a drive table: an attached surface can disappear" % mut)
            else:
                r.add(key, fn.loc(n), inside, "inside connect_internal" if inside else
                      "%s mutates a drive table outside connect_internal: an attached surface can be overwritten or "
                      "moved without the occupancy checks" % fn.qn)
    # callers of connect_internal
    if ci:
        cikey = ci[0].key
        for fn in prog.functions.values():
            g = None
            k = 0
            for n in fn.walk():
                if not (is_call(n) and n.get("fn") == cikey):
                    continue
                k += 1
                key = "%s::%s::connect_internal#%d" % (fn.relfile(), fn.qn, k)
                if not fn.qn.endswith("StorageConfiguration::connect_drives"):
                    r.add(key, fn.loc(n), False, "connect_internal is called from %s, outside the allocation logic" % fn.qn)
                    continue
                if g is None:
                    g = Guards(fn)
                slot = call_args(n)[0]
                ok = False
                why = ""
                # (1) must-fact: is_drive_connected(slot) is false (same expression, not overwritten since)
                for atom, truth in (g.truths(n) or []):
                    a = strip_all(atom)
                    if not truth and is_call(a) and notpl(a.get("q") or "").endswith("is_drive_connected") and \
                            same_expr(call_args(a)[0], slot):
                        ok, why = True, "slot tested free on every path (first-free policy)"
                # (2) dominated by the success edge of check_sequence_fits, stepping by its stride
                if not ok:
                    dom = fn.cfg.dominators()
                    pos = fn.where().get(n["i"])
                    for bid in fn.cfg.reachable():
                        b = fn.cfg.blocks[bid]
                        if b.get("cond") is None or len(fn.cfg.succ[bid]) != 2:
                            continue
                        cond = fn.nodes.get(b["cond"])
                        for f in atomise(cond, True):
                            if f[0] == "T" and f[2] is True and is_call(strip_all(f[1])) and \
                                    notpl(strip_all(f[1]).get("q") or "").endswith("check_sequence_fits"):
                                s = fn.cfg.succ[bid][0]
                                if pos and s in dom.get(pos[0], set()):
                                    chk = strip_all(f[1])
                                    # the sequence checked starts at the slot variable and the loop advances it by 2 surfaces
                                    if same_expr(call_args(chk)[0], slot) and _steps_by_two(fn, slot):
                                        ok, why = True, "inside the success branch of check_sequence_fits, stepping one drive (2 surfaces) at a time"
                                    else:
                                        why = "the placement loop does not advance by the stride check_sequence_fits verified"
                # (2b) must-fact form (the search and the placement are separate loops): check_sequence_fits
                #      is known to have succeeded for the slot variable, or for the variable it was copied from
                if not ok:
                    origin = None
                    sv0 = strip_all(slot)
                    if sv0.get("k") == "DeclRefExpr":
                        for v in fn.walk():
                            if v.get("k") == "VarDecl" and v.get("d") == sv0.get("d") and v.get("c"):
                                o = strip_all(v["c"][0])
                                if o is not None and o.get("k") == "DeclRefExpr":
                                    origin = o
                    for atom, truth in (g.truths(n) or []):
                        a = strip_all(atom)
                        if truth and is_call(a) and notpl(a.get("q") or "").endswith("check_sequence_fits"):
                            first = call_args(a)[0]
                            if (same_expr(first, slot) or (origin is not None and same_expr(first, origin))) and \
                                    _steps_by_two(fn, slot):
                                ok, why = True, "check_sequence_fits succeeded for the first slot on every path; " \
                                    "stepping one drive (2 surfaces) at a time"
                # (2c) the search variable itself is stepped during placement: what must hold is that the image
                #      fits at the value it has when the placement loop is entered
                if not ok:
                    lp = None
                    for a in fn.ancestors(n):
                        if a.get("k") in ("CXXForRangeStmt", "ForStmt", "WhileStmt"):
                            lp = a
                            break
                    if lp is not None:
                        entry = None
                        parts = lp.get("parts", {})
                        for nm in ("range", "init", "cond"):
                            if nm in parts:
                                entry = lp["c"][parts[nm]]
                                break
                        for atom, truth in ((g.truths(entry) or []) if entry is not None else []):
                            a = strip_all(atom)
                            if truth and is_call(a) and notpl(a.get("q") or "").endswith("check_sequence_fits") and \
                                    same_expr(call_args(a)[0], slot) and _steps_by_two(fn, slot, within=lp):
                                ok, why = True, "check_sequence_fits succeeded for the slot the placement loop starts " \
                                    "from; stepping one drive (2 surfaces) at a time"
                # (3) the slot comes from a search helper that returns a slot only after
                #     check_sequence_fits succeeded for it, and the loop steps by the verified stride
                if not ok:
                    sv = strip_all(slot)
                    if sv.get("k") == "DeclRefExpr":
                        for v in fn.walk():
                            if v.get("k") == "VarDecl" and v.get("d") == sv.get("d") and v.get("c"):
                                src = _value_source_call(fn, v["c"][0])
                                if src is not None:
                                    for t in prog.call_targets(fn, src):
                                        if _returns_only_checked_slots(prog, t) and _steps_by_two(fn, slot):
                                            ok, why = True, "slot found by %s, which returns only slots for which " \
                                                "check_sequence_fits succeeded; stepping one drive at a time" % t.qn
                r.add(key, fn.loc(n), ok, why if ok else
                      "connect_internal(%s, ...) is not guarded by an occupancy test of that very slot%s: an image "
                      "can be attached on top of an occupied drive number" % (show(slot), ("; " + why) if why else ""))
    return r


def _value_source_call(fn, e, depth=0):
    """The call whose (optional) result the expression unwraps: *opt, opt.value(), opt where opt = f(...)."""
    e = strip_all(e)
    if e is None or depth > 4:
        return None
    if e.get("k") == "CXXOperatorCallExpr" and e.get("op") == "*" and len(e["c"]) >= 2:
        return _value_source_call(fn, e["c"][1], depth + 1)
    if e.get("k") == "CXXMemberCallExpr":
        cal = strip(e["c"][0])
        if cal and cal.get("n") == "value" and cal.get("c"):
            return _value_source_call(fn, cal["c"][0], depth + 1)
        return e
    if e.get("k") == "CallExpr":
        return e
    if e.get("k") == "DeclRefExpr":
        for v in fn.walk():
            if v.get("k") == "VarDecl" and v.get("d") == e.get("d") and v.get("c"):
                return _value_source_call(fn, v["c"][0], depth + 1)
    if e.get("k") == "CXXConstructExpr" and len(e.get("c", [])) == 1:
        return _value_source_call(fn, e["c"][0], depth + 1)
    return None


def _returns_only_checked_slots(prog, t):
    g = Guards(t)
    found = False
    for n in t.walk():
        if n.get("k") != "ReturnStmt" or not n.get("c"):
            continue
        e = strip_all(n["c"][0])
        x = e
        for _ in range(3):
            if x is not None and x.get("k") == "CXXConstructExpr" and len(x.get("c", [])) == 1:
                x = strip_all(x["c"][0])
        if x is not None and x.get("k") == "DeclRefExpr" and x.get("n") == "nullopt":
            continue
        ok = False
        for atom, truth in (g.truths(n) or []):
            a = strip_all(atom)
            if truth and is_call(a) and notpl(a.get("q") or "").endswith("check_sequence_fits") and \
                    same_expr(call_args(a)[0], x):
                ok = True
        if not ok:
            return False
        found = True
    return found


def _steps_by_two(fn, slot, within=None):
    """Every assignment to the slot variable inside loops containing a connect_internal call (or, if
    `within` is given, inside that loop only) is slot = slot.next().next() or
    corresponding_side_of_next_device(slot)."""
    s = strip_all(slot)
    if s.get("k") != "DeclRefExpr":
        return False
    ok_any = False
    for n in (walk(within) if within is not None else fn.walk()):
        if n.get("k") == "CXXOperatorCallExpr" and n.get("op") == "=" and len(n["c"]) == 3 and \
                strip_all(n["c"][1]).get("d") == s.get("d"):
            rhs = strip_all(n["c"][2])
            # count chained next() calls on slot
            cnt = 0
            x = rhs
            while x is not None and x.get("k") in ("CXXMemberCallExpr", "CXXConstructExpr", "MaterializeTemporaryExpr"):
                if x.get("k") == "CXXMemberCallExpr":
                    cal = strip(x["c"][0])
                    if cal and cal.get("n") == "next":
                        cnt += 1
                        x = strip_all(cal["c"][0]) if cal.get("c") else None
                        continue
                    break
                x = strip_all(x["c"][0]) if x.get("c") and len(x["c"]) == 1 else None
            in_placement = any(p.get("k") in ("CXXForRangeStmt",) for p in fn.ancestors(n))
            if in_placement:
                if cnt == 2 and x is not None and x.get("d") == s.get("d"):
                    ok_any = True
                elif is_call(rhs) and notpl(rhs.get("q") or "").endswith("corresponding_side_of_next_device"):
                    ok_any = True
                else:
                    return False
    return ok_any


def rule_sequence_check(prog, fixture=False):
    r = RuleResult("R-C16-2", "check_sequence_fits rejects unconditionally when the first slot or its opposite "
                   "surface is occupied, before anything else is decided", floor=0 if fixture else 2)
    for fn in prog.fnby("check_sequence_fits", required=not fixture):
        pi = fn.params[0]["d"]
        pocc = [p["d"] for p in fn.params if "function" in (p.get("ct") or p.get("t") or "")]
        dom = fn.cfg.dominators()
        rets = [n for n in fn.walk() if n.get("k") == "ReturnStmt"]
        found = {"self": None, "opposite": None}
        for bid in fn.cfg.reachable():
            b = fn.cfg.blocks[bid]
            if b.get("cond") is None or len(fn.cfg.succ[bid]) != 2:
                continue
            cond = strip_all(fn.nodes.get(b["cond"]))
            # the block that ends `a || b` / `a && b` evaluates b (a had its own block)
            while cond is not None and cond.get("k") == "BinaryOperator" and cond.get("op") in ("||", "&&"):
                cond = strip_all(cond["c"][1])
            # exactly one atom: occupied(<expr>)
            if not (cond.get("k") == "CXXOperatorCallExpr" and cond.get("op") == "()" and
                    strip_all(cond["c"][1]).get("d") in pocc):
                continue
            arg = strip_all(cond["c"][2])
            while arg is not None and arg.get("k") == "CXXConstructExpr" and len(arg.get("c", [])) == 1:
                arg = strip_all(arg["c"][0])
            which = None
            if arg.get("k") == "DeclRefExpr" and arg.get("d") == pi:
                which = "self"
            elif arg.get("k") == "CXXMemberCallExpr" and (strip(arg["c"][0]) or {}).get("n") == "opposite_surface" and \
                    strip_all(strip(arg["c"][0])["c"][0]).get("d") == pi:
                which = "opposite"
            if which is None or found[which] is not None:
                continue
            # true edge returns false; block is reached unconditionally w.r.t. the parameter i (i not yet modified)
            ts = fn.cfg.succ[bid][0]
            tret = [x for x in flow.element_nodes(fn, ts) if x.get("k") == "ReturnStmt"] if ts >= 0 else []
            ret_false = bool(tret) and folded(tret[0]["c"][0]) == 0
            # dominates all other returns (except those already in earlier unconditional checks)
            early = set()
            for d in dom.get(bid, set()):
                if d != bid:
                    early |= set(fn.cfg.succ[d])
            dominates = True
            for rt in rets:
                pos = fn.where().get(rt["i"])
                if pos is None:
                    continue
                rb = pos[0]
                if bid in dom.get(rb, set()) or rb in early:
                    continue
                dominates = False
            found[which] = (bid, ret_false, dominates, cond)
        for which, label in (("self", "the first slot"), ("opposite", "the opposite surface of the first slot")):
            key = "%s::%s::%s" % (fn.relfile(), fn.qn, which)
            f = found[which]
            if f is None:
                r.add(key, "%s:%d" % (fn.relfile(), fn.line), False,
                      "no unconditional test that %s is unoccupied (the test is missing or combined with another "
                      "condition): an image can be placed on the flip side of, or on top of, another image" % label)
            else:
                bid, ret_false, dominates, cond = f
                ok = ret_false and dominates
                r.add(key, fn.loc(cond), ok, "unconditional rejection" if ok else
                      "the test of %s does not unconditionally reject the sequence" % label)
    return r


def rule_lookups(prog, fixture=False):
    r = RuleResult("R-C16-3", "lookups by drive number use the requested selector as the key into the tables",
                   floor=0 if fixture else 3)
    for fn in prog.functions.values():
        if "StorageConfiguration::" not in fn.qn:
            continue
        k = 0
        for n in fn.walk():
            if n.get("k") == "CXXMemberCallExpr":
                cal = strip(n["c"][0])
                if cal and cal.get("c") and _table_member(cal["c"][0]) and cal.get("n") in ("find", "count", "at"):
                    k += 1
                    arg = strip_all(n["c"][1]) if len(n["c"]) > 1 else None
                    sel_params = [p["d"] for p in fn.params if "Selector" in (p.get("ct") or p.get("t") or "")]
                    lam_parent = fn.parent_key is not None
                    ok = arg is not None and arg.get("k") == "DeclRefExpr" and (arg.get("d") in sel_params or lam_parent)
                    key = "%s::%s::%s.%s#%d" % (fn.relfile(), fn.qn, strip_all(cal["c"][0]).get("n"), cal.get("n"), k)
                    r.add(key, fn.loc(n), ok, "keyed by the selector parameter" if ok else
                          "the table is searched with `%s`, not with the requested drive selector: a command "
                          "addressed to drive k could read another drive" % (show(arg) if arg else "?"))
    return r


# ---------------------------------------------------------------- R-C16-4
def _next_chain(rhs):
    """(number of chained .next() calls, innermost expression)"""
    cnt = 0
    x = strip_all(rhs)
    while x is not None and x.get("k") in ("CXXMemberCallExpr", "CXXConstructExpr", "MaterializeTemporaryExpr"):
        if x.get("k") == "CXXMemberCallExpr":
            cal = strip(x["c"][0])
            if cal and cal.get("n") == "next":
                cnt += 1
                x = strip_all(cal["c"][0]) if cal.get("c") else None
                continue
            break
        x = strip_all(x["c"][0]) if x.get("c") and len(x["c"]) == 1 else None
    return cnt, x


def rule_lowest_free(prog, fixture=False):
    r = RuleResult("R-C16-4", "the search for a drive number starts at drive 0 and moves on by one only past a "
                   "number that was found occupied (or from which the image does not fit): the lowest suitable "
                   "number is never skipped", floor=0 if fixture else 3)
    for fn in prog.functions.values():
        if not (fn.relfile().endswith("storage.cc") or fixture):
            continue
        g = None
        k = 0
        for n in fn.walk():
            if not (n.get("k") == "CXXOperatorCallExpr" and n.get("op") == "=" and len(n["c"]) == 3):
                continue
            tgt = strip_all(n["c"][1])
            if tgt is None or tgt.get("k") != "DeclRefExpr" or tgt.get("dk") != "Var":
                continue
            cnt, inner = _next_chain(n["c"][2])
            if cnt != 1 or inner is None or inner.get("d") != tgt.get("d"):
                continue
            if g is None:
                g = Guards(fn)
            k += 1
            key = "%s::%s::%s-advance#%d" % (fn.relfile(), fn.qn, tgt.get("n"), k)
            why = None
            for atom, truth in (g.truths(n) or []):
                a = strip_all(atom)
                if a is None or not is_call(a):
                    continue
                q = notpl(a.get("q") or "")
                args = call_args(a)
                if not args or not same_expr(args[0], tgt):
                    continue
                if truth and q.endswith("is_drive_connected"):
                    why = "the number left behind is occupied"
                if not truth and q.endswith("check_sequence_fits"):
                    why = "the image does not fit at the number left behind"
                if truth and "function" in (a.get("t") or "") + notpl(a.get("q") or ""):
                    why = why or None
            r.add(key, fn.loc(n), why is not None, why if why else
                  "`%s` moves on to the next drive number although the current one was not found occupied or "
                  "unsuitable: a free lower number can be skipped" % show(n))
            # where does the search start?
            init = None
            for v in fn.walk():
                if v.get("k") == "VarDecl" and v.get("d") == tgt.get("d"):
                    init = v
            key2 = "%s::%s::%s-start#%d" % (fn.relfile(), fn.qn, tgt.get("n"), k)
            if init is not None:
                e = strip_all(init["c"][0]) if init.get("c") else None
                zero = False
                x = e
                for _ in range(4):
                    if x is not None and x.get("k") in ("CXXConstructExpr", "CXXFunctionalCastExpr", "CXXTemporaryObjectExpr") and \
                            len([c for c in x.get("c", []) if (strip(c) or {}).get("k") != "CXXDefaultArgExpr"]) == 1:
                        x = strip_all(x["c"][0])
                if x is not None and folded(x) == 0:
                    zero = True
                r.add(key2, fn.loc(init), zero, "starts at drive 0" if zero else
                      "the search starts at `%s`, not at drive 0: free numbers below it are never considered" %
                      (show(e) if e is not None else "an unset value"))
    return r


# ---------------------------------------------------------------- R-C16-5
def rule_drive_number_range(prog, fixture=False):
    from .c08 import _interval
    r = RuleResult("R-C16-5", "where a drive number typed on the command line is converted to the narrower type used "
                   "as the key of the drive table, the value is known to fit (range facts about the unconverted "
                   "value dominate the conversion): a number beyond the type's range is rejected, never wrapped "
                   "onto another drive", floor=0 if fixture else 2)
    for fn in prog.functions.values():
        if not (fn.relfile().endswith("driveselector.cc") or fixture):
            continue
        g = None
        k = 0
        for n in fn.walk():
            if n.get("k") not in ("CXXStaticCastExpr", "CStyleCastExpr", "CXXFunctionalCastExpr", "ImplicitCastExpr"):
                continue
            if n.get("ck") != "IntegralCast" or not n.get("w") or not n.get("c"):
                continue
            src = strip(n["c"][0])
            while src is not None and src.get("k") == "ImplicitCastExpr" and src.get("ck") == "LValueToRValue":
                src = strip(src["c"][0])
            if src is None or src.get("k") != "DeclRefExpr" or src.get("dk") not in ("ParmVar", "Var") or not src.get("w"):
                continue
            sw, ss, tw, tsg = src["w"], bool(src.get("sg")), n["w"], bool(n.get("sg"))
            slo, shi = (-(1 << (sw - 1)), (1 << (sw - 1)) - 1) if ss else (0, (1 << sw) - 1)
            tlo, thi = (-(1 << (tw - 1)), (1 << (tw - 1)) - 1) if tsg else (0, (1 << tw) - 1)
            if tlo <= slo and shi <= thi:
                continue   # widening: always fits
            # only conversions whose result is kept (returned, stored, passed on) - not the operands of a comparison
            par = fn.parent(n)
            while par is not None and par.get("k") in ("ImplicitCastExpr", "ParenExpr", "ExprWithCleanups"):
                par = fn.parent(par)
            if par is not None and par.get("k") == "BinaryOperator" and par.get("op") in ("<", ">", "<=", ">=", "==", "!="):
                continue
            if g is None:
                g = Guards(fn)
            iv = _interval(fn, g, n, n["c"][0])
            k += 1
            key = "%s::%s::narrow(%s)#%d" % (fn.relfile(), fn.qn, src.get("n"), k)
            ok = iv is not None and tlo <= iv[0] and iv[1] <= thi
            r.add(key, fn.loc(n), ok, "value in [%d,%d] fits" % iv if ok else
                  "`%s` (%d-bit %s) is converted to a %d-bit %s value although it can be %s: a drive number outside the "
                  "range wraps round to a different, existing drive instead of being rejected" %
                  (src.get("n"), sw, "signed" if ss else "unsigned", tw, "signed" if tsg else "unsigned",
                   "anything" if iv is None else "as large as %d" % iv[1] if iv[1] > thi else "as small as %d" % iv[0]))
    return r


# ---------------------------------------------------------------- R-C16-6
def rule_show_config_covers_all(prog, fixture=False):
    r = RuleResult("R-C16-6", "--show-config lists every attached drive: on every path to the listing loop its upper "
                   "limit has been raised to the highest occupied drive number (or the table is known to be empty) - "
                   "not decided from how many drives there are", floor=0 if fixture else 1)
    for fn in prog.functions.values():
        if not fn.qn.endswith("StorageConfiguration::show_drive_configuration"):
            continue
        loops = [n for n in fn.walk() if n.get("k") in ("DoStmt", "WhileStmt", "ForStmt", "CXXForRangeStmt")]
        if len(loops) != 1:
            r.undecided.append("%s: expected one listing loop, found %d" % (fn.qn, len(loops)))
            continue
        lp = loops[0]
        key = "%s::%s::limit" % (fn.relfile(), fn.qn)
        if lp["k"] == "CXXForRangeStmt":
            rng = lp["c"][lp["parts"]["range"]]
            ok = any(x.get("k") == "MemberExpr" and x.get("n") == "drives_" for x in walk(rng))
            r.add(key, fn.loc(lp), ok, "iterates over the drive table itself" if ok else "the listing does not walk the drive table")
            continue
        if lp["k"] != "DoStmt" and "cond" not in lp.get("parts", {}):
            # for (k = 0; ; ++k) { ...; if (k == last) break; }
            cn = None
            for x in walk(lp["c"][lp["parts"]["body"]]):
                if x.get("k") == "IfStmt" and (strip_all(x["c"][x["parts"]["then"]]) or {}).get("k") == "BreakStmt" or \
                        (x.get("k") == "IfStmt" and any(y.get("k") == "BreakStmt" for y in walk(x["c"][x["parts"]["then"]])) and
                         len(list(walk(x["c"][x["parts"]["then"]]))) <= 3):
                    c_ = strip_all(x["c"][x["parts"]["cond"]])
                    if c_ is not None and c_.get("op") in ("==", ">="):
                        cn = dict(c_)
                        cn["op"] = "!="
        else:
            cn = strip_all(lp["c"][-1] if lp["k"] == "DoStmt" else lp["c"][lp["parts"]["cond"]])
        lim = None
        if cn is not None and cn.get("k") in ("CXXOperatorCallExpr", "BinaryOperator") and cn.get("op") in ("<", "<=", "!="):
            ops = cn["c"][1:] if cn["k"] == "CXXOperatorCallExpr" else cn["c"]
            for o in ops:
                o = strip_all(o)
                if o is not None and o.get("k") == "DeclRefExpr" and o.get("dk") == "Var" and not any(
                        x.get("k") in ("UnaryOperator", "CXXMemberCallExpr") and any(y.get("k") == "DeclRefExpr" and y.get("d") == o.get("d") for y in walk(x))
                        and (x.get("op") in ("++", "--") or (strip(x["c"][0]) or {}).get("n") in ("postincrement", "next"))
                        for x in walk(lp)):
                    lim = o
        if lim is None:
            r.undecided.append("%s: cannot identify the loop limit" % fn.qn)
            continue

        def highest_key(e, depth=0):
            # drives_.rbegin()->first, possibly inside std::max(...), possibly through a never-reassigned local
            if any(x.get("k") == "MemberExpr" and x.get("n") == "first" and
                   any(y.get("k") == "CXXMemberCallExpr" and (strip(y["c"][0]) or {}).get("n") in ("rbegin", "crbegin")
                       for y in walk(x)) for x in walk(e)):
                return True
            if depth > 3:
                return False
            for x in walk(e):
                if x.get("k") == "DeclRefExpr" and x.get("dk") == "Var" and x.get("d") != lim.get("d") and \
                        not any(d_ == x["d"] for y in fn.walk() for d_, _ in flow.written_decls(y)):
                    for v in fn.walk():
                        if v.get("k") == "VarDecl" and v.get("d") == x["d"] and v.get("c") and highest_key(v["c"][0], depth + 1):
                            return True
            return False

        def transfer(x):
            tgt = rhs = None
            if x.get("k") == "CXXOperatorCallExpr" and x.get("op") == "=" and len(x["c"]) == 3:
                tgt, rhs = strip_all(x["c"][1]), x["c"][2]
            elif x.get("k") == "BinaryOperator" and x.get("op") == "=":
                tgt, rhs = strip_all(x["c"][0]), x["c"][1]
            elif x.get("k") == "DeclStmt":
                for v in x.get("c", []):
                    if v.get("k") == "VarDecl" and v.get("d") == lim.get("d"):
                        return bool(v.get("c") and highest_key(v["c"][0]))
            if tgt is not None and tgt.get("k") == "DeclRefExpr" and tgt.get("d") == lim.get("d"):
                return highest_key(rhs)
            return None
        g = Guards(fn)

        def edge_gen(p_, s_):
            for k_ in g.edge_facts.get((p_, s_), ()):
                f = g.rep.get(k_)
                if f is not None and f[0] == "T" and f[2] is True:
                    a = strip_all(f[1])
                    if a is not None and a.get("k") == "CXXMemberCallExpr" and (strip(a["c"][0]) or {}).get("n") == "empty" and \
                            any(y.get("k") == "MemberExpr" and y.get("n") == "drives_" for y in walk(a)):
                        return True
            return False
        at = flow.must_hold_at(fn, transfer, edge_gen)
        body = lp["c"][0] if lp["k"] == "DoStmt" else lp["c"][lp["parts"]["body"]]
        probe = None
        for x in walk(body):
            if x["i"] in fn.where():
                probe = x
                break
        st = at(probe) if probe is not None else None
        if st is None:
            r.undecided.append("%s: cannot place the listing loop in the CFG" % fn.qn)
            continue
        r.add(key, fn.loc(lp), bool(st), "the limit is the highest occupied number whenever the table is not empty" if st else
              "on some path the listing loop runs with a limit that was not raised to the highest occupied drive "
              "number although the table may be non-empty: a drive above the default range is read by commands but "
              "missing from --show-config")
    return r


# ---------------------------------------------------------------- R-C16-7
def rule_enumeration_covers_all(prog, fixture=False):
    r = RuleResult("R-C16-7", "a method of the drive table that hands out the list of occupied drive numbers walks the "
                   "table itself: a loop that counts up and stops at the first unoccupied number misses every drive "
                   "behind a gap (side 2 of a double-sided image is drive 2 while drive 1 is empty)",
                   floor=0 if fixture else 1)
    for fn in prog.functions.values():
        if "StorageConfiguration::" not in fn.qn and not fixture:
            continue
        rt = fn.raw.get("rt") or fn.raw.get("t") or ""
        rets = [strip_all(n["c"][0]) for n in fn.walk() if n.get("k") == "ReturnStmt" and n.get("c")]
        vec = set()
        for e in rets:
            x = e
            while x is not None and x.get("k") == "CXXConstructExpr" and len(x.get("c", [])) == 1:
                x = strip_all(x["c"][0])
            if x is not None and x.get("k") == "DeclRefExpr" and x.get("dk") == "Var" and "vector" in (x.get("t") or x.get("ct") or ""):
                vec.add(x["d"])
        for d in vec:
            # filled by a standard algorithm over the whole table
            for n in fn.walk():
                if n.get("k") == "CallExpr" and notpl(n.get("q") or "") in ("std::transform", "std::copy", "std::for_each", "std::copy_if"):
                    a = call_args(n)
                    into = any(x.get("k") == "CallExpr" and notpl(x.get("q") or "") == "std::back_inserter" and
                               any(y.get("k") == "DeclRefExpr" and y.get("d") == d for y in walk(x)) for x in walk(n))
                    if not into or len(a) < 2:
                        continue

                    def ends(e, names):
                        e = strip_all(e)
                        return e is not None and e.get("k") == "CXXMemberCallExpr" and (strip(e["c"][0]) or {}).get("n") in names and \
                            any(x.get("k") == "MemberExpr" and "map" in (x.get("t") or x.get("ct") or "") for x in walk(e))
                    whole = ends(a[0], ("begin", "cbegin")) and ends(a[1], ("end", "cend"))
                    key = "%s::%s::enumeration" % (fn.relfile(), fn.qn)
                    if whole and notpl(n.get("q")) != "std::copy_if":
                        r.add(key, fn.loc(n), True, "standard algorithm over the whole table")
                    else:
                        r.undecided.append("%s: cannot tell which part of the table this algorithm call covers" % fn.loc(n))
            pushes = [n for n in fn.walk() if n.get("k") == "CXXMemberCallExpr" and
                      (strip(n["c"][0]) or {}).get("n") in ("push_back", "emplace_back") and
                      (strip_all((strip(n["c"][0]) or {}).get("c", [None])[0]) or {}).get("d") == d]
            for pb in pushes:
                # what is pushed must be a drive number: a key of the table or the loop's counter
                loop = None
                for a in fn.ancestors(pb):
                    if a.get("k") in ("ForStmt", "WhileStmt", "DoStmt", "CXXForRangeStmt"):
                        loop = a
                        break
                if loop is None:
                    continue
                key = "%s::%s::enumeration" % (fn.relfile(), fn.qn)
                if loop["k"] == "CXXForRangeStmt":
                    rng = loop["c"][loop["parts"]["range"]]
                    is_map = any(x.get("k") == "MemberExpr" and "map" in (x.get("t") or x.get("ct") or "") for x in walk(rng))
                    if is_map:
                        r.add(key, fn.loc(loop), True, "range-for over the table")
                    else:
                        r.undecided.append("%s: the range of this loop is not the drive table" % fn.loc(loop))
                    continue
                cond = loop["c"][-1] if loop["k"] == "DoStmt" else (loop["c"][loop["parts"]["cond"]] if "cond" in loop.get("parts", {}) else None)
                occ = None
                for x in walk(cond) if cond is not None else []:
                    if is_call(x):
                        nm = notpl(x.get("q") or "").split("::")[-1]
                        if nm in ("is_drive_connected", "count", "contains") or (nm == "find"):
                            occ = x
                if occ is not None:
                    r.add(key, fn.loc(loop), False, "the loop that collects the occupied drive numbers continues only while "
                          "`%s` holds: it stops at the first unoccupied number, so drives behind a gap are left out" % show(occ)[:50])
                elif cond is not None and any(x.get("k") == "CXXMemberCallExpr" and (strip(x["c"][0]) or {}).get("n") in ("end", "cend")
                                             for x in walk(cond)):
                    r.add(key, fn.loc(loop), True, "iterator loop to the end of the table")
                else:
                    r.undecided.append("%s: cannot tell how this enumeration loop is bounded" % fn.loc(loop))
    return r


# ---------------------------------------------------------------- R-C16-8
def rule_policy_in_force(prog, fixture=False):
    r = RuleResult("R-C16-8", "each image is attached under the allocation policy in force where its --file option "
                   "stands: the connect_drives call that takes the policy variable lies inside the option loop that "
                   "assigns that variable (a later loop would attach every image under the last policy given)",
                   floor=0 if fixture else 1)
    LOOPS = ("ForStmt", "WhileStmt", "DoStmt", "CXXForRangeStmt")

    def path_of(e):
        """(root DeclRefExpr, tuple of field names) of `x`, `x.f`, `x.f.g`; (None, ()) otherwise."""
        e = strip_all(e)
        fields = []
        while e is not None and e.get("k") == "MemberExpr" and e.get("dk") == "Field" and e.get("c"):
            fields.append(e.get("n"))
            e = strip_all(e["c"][0])
        if e is not None and e.get("k") == "DeclRefExpr" and e.get("dk") in ("Var", "ParmVar"):
            return e, tuple(reversed(fields))
        return None, ()

    def judge(fn, n, v, via, depth, fields=()):
        """n: a call in fn one of whose arguments carries the policy: the expression v followed by `fields`."""
        root, fs = path_of(v)
        if root is None or depth > 3:
            return
        fs = fs + tuple(fields)
        if root.get("dk") == "ParmVar":
            idx = [i for i, p_ in enumerate(fn.params) if p_["d"] == root["d"]]
            for g in prog.functions.values():
                for c in g.walk():
                    if is_call(c) and fn in prog.call_targets(g, c) and idx and idx[0] < len(call_args(c)):
                        judge(g, c, call_args(c)[idx[0]], via + [fn.name], depth + 1, fs)
            return
        writes = []
        for w in fn.walk():
            if w.get("k") in ("BinaryOperator", "CXXOperatorCallExpr") and w.get("op") == "=" and w.get("c"):
                wr, wf = path_of(w["c"][-2])
                if wr is not None and wr.get("d") == root["d"] and (wf == fs or wf == fs[:len(wf)]):
                    writes.append(w)
        name = ".".join((root.get("n"),) + fs)
        key = "%s::%s::connect_drives(%s)" % (fn.relfile(), fn.qn, name)
        if not writes:
            r.add(key, fn.loc(n), True, "the policy is never changed", nontrivial=False)
            return
        wl = set()
        for w in writes:
            for anc in fn.ancestors(w):
                if anc.get("k") in LOOPS:
                    wl.add(id(anc))
                    break
        mine = [id(anc) for anc in fn.ancestors(n) if anc.get("k") in LOOPS]
        ok = bool(wl) and all(x in mine for x in wl)
        r.add(key, fn.loc(n), ok, "attached in the option loop, where the policy is current%s" %
              (" (through %s)" % ", ".join(via) if via else "") if ok else
              "the images are attached outside the loop in which `%s` is assigned (%s): every image is placed under "
              "the policy given last, not the one in force at its --file" %
              (name, ", ".join(fn.loc(w) for w in writes[:2])))
    for fn in prog.functions.values():
        for n in fn.walk():
            if not is_call(n) or notpl(n.get("q") or "").split("::")[-1] != "connect_drives":
                continue
            for a in call_args(n):
                v = strip_all(a)
                if v is None or v.get("k") not in ("DeclRefExpr", "MemberExpr") or "DriveAllocation" not in (v.get("t") or v.get("ct") or ""):
                    continue
                if fn.name == "connect_drives":
                    continue            # the images' own connect_drives forwarding to the storage configuration
                judge(fn, n, v, [], 0)
    return r


# ---------------------------------------------------------------- R-C16-9
def _empty_entry_producers(prog):
    """(function, node): nullopt pushed into a vector<optional<DriveConfig>>."""
    producers = []
    for fn in prog.functions.values():
        for n in fn.walk():
            if n.get("k") == "CXXMemberCallExpr" and (strip(n["c"][0]) or {}).get("n") in ("push_back", "emplace_back"):
                obj = strip_all((strip(n["c"][0]) or {}).get("c", [None])[0])
                if obj is None or "DriveConfig" not in (obj.get("t") or obj.get("ct") or ""):
                    continue
                args = n["c"][1:]
                if not args or any(x.get("k") == "DeclRefExpr" and x.get("n") == "nullopt" for a in args for x in walk(a)) or \
                        any((strip_all(a) or {}).get("k") in ("CXXConstructExpr", "CXXTemporaryObjectExpr") and not (strip_all(a) or {}).get("c")
                            for a in args):
                    producers.append((fn, n))
    return producers


def rule_occupancy_is_presence(prog, fixture=False):
    r = RuleResult("R-C16-9", "a drive number is occupied as soon as the table has an entry for it, formatted or not: "
                   "either is_drive_connected answers false only for an absent key, or no image ever attaches a "
                   "surface without a configuration (an empty entry would otherwise be handed out again and two "
                   "surfaces would share a number)", floor=0 if fixture else 1)
    producers = _empty_entry_producers(prog)
    for fn in prog.functions.values():
        if fn.name != "is_drive_connected":
            continue
        g = Guards(fn)
        key = "%s::%s::false-only-when-absent" % (fn.relfile(), fn.qn)
        bad = None
        for n in fn.walk():
            if n.get("k") == "ReturnStmt" and n.get("c") and folded(n["c"][0]) == 0:
                absent = False
                for l, rel, rr in (g.cmps(n) or []):
                    if rel == "==" and any(x.get("k") == "CXXMemberCallExpr" and (strip(x["c"][0]) or {}).get("n") in ("end", "cend")
                                           for side in (l, rr) for x in walk(side)):
                        absent = True
                for atom, truth in (g.truths(n) or []):
                    a = strip_all(atom)
                    if a is not None and a.get("k") == "CXXOperatorCallExpr" and a.get("op") in ("==", "!=") and \
                            (truth == (a["op"] == "==")) and any(x.get("k") == "CXXMemberCallExpr" and
                                                                 (strip(x["c"][0]) or {}).get("n") in ("end", "cend") for x in walk(a)):
                        absent = True
                    if a is not None and a.get("k") == "CXXMemberCallExpr" and (strip(a["c"][0]) or {}).get("n") in ("count", "contains") and not truth:
                        absent = True
                if not absent:
                    bad = n
        if bad is None:
            r.add(key, "%s:%d" % (fn.relfile(), fn.line), True, "false is returned only for a key the table does not hold")
        elif not producers:
            r.add(key, fn.loc(bad), True, "false may be returned for an entry without configuration, but no image attaches such "
                  "an entry (%d producers)" % len(producers))
        else:
            pf, pn = producers[0]
            r.add(key, fn.loc(bad), False, "is_drive_connected can answer false for a key that is in the table (an entry without "
                  "configuration), and %s attaches such entries (%s): the number of an unformatted surface is handed out "
                  "again and two surfaces share it" % (pf.qn, pf.loc(pn)))
    return r


def run(ctx):
    prog = ctx.prog("dfs", "N")
    return [rule_tables(prog), rule_sequence_check(prog), rule_lookups(prog), rule_lowest_free(prog), rule_drive_number_range(prog),
            rule_show_config_covers_all(prog), rule_enumeration_covers_all(prog), rule_policy_in_force(prog),
            rule_occupancy_is_presence(prog), _shared_option_handlers(prog)]


def _shared_option_handlers(prog):
    from . import c18
    r = c18.rule_option_handlers(prog)
    r.rule = "R-C16-10"      # --ui keeps the drive chosen with --drive: the command reads the drive it was addressed to
    return r


SELFTESTS = [
    (rule_enumeration_covers_all, ["c16_enum_bad.cc"], ["c16_enum_good.cc"], "enumeration"),
    (rule_occupancy_is_presence, ["c16_enum_bad.cc"], ["c16_enum_good.cc"], "false-only-when-absent"),
    (rule_policy_in_force, ["c16_policy_bad.cc"], ["c16_policy_good.cc"], "connect_drives("),
    (rule_tables, ["c16_bad.cc"], ["c16_good.cc"], "connect_internal"),
    (rule_lowest_free, ["c16_first_bad.cc"], ["c16_first_good.cc"], "n-start"),
    (rule_drive_number_range, ["c16_first_bad.cc"], ["c16_first_good.cc"], "narrow(ld)"),
]
