"""C04 - sector-dump containers map (drive, track, sector) to the documented offset.

R-C04-1  strict bound: FileView::read_block continues only under
         `sector < total_` (the FileView instance of R-C17-1) and an
         unformatted view (take == 0) returns before any arithmetic
R-C04-2  a short block is no block: FilePresentedBlockwise::read_block returns
         data only when the file delivered a whole sector (R-C07-4 instance)
R-C04-3  MMB table agreement with doc/mmb.5: a slot is presented as a disc
         exactly for the statuses the man page calls Read-only / Read-write;
         the table size and image size constants give the documented 8192 and
         204800 bytes; the entry size and status offset are the documented ones
R-C04-4  an MMB slot's position is a function of its slot number only: the
         skip handed to the slot's view depends on loop indices and constants,
         never on a variable updated conditionally (e.g. only for present slots)
R-C04-5  the views of two-sided images have the documented shape: for
         interleaved files both sides take one track and leave one track, side 1
         starting one track in; for non-interleaved files each side takes
         everything, leaves nothing and starts where the previous side ended

R-C04-6  the stride formula of FileView::read_block equals
         skip + (x div take)*(take+leave) + x mod take as a polynomial identity

Not decided: geometry selection.
"""
import os
import re

from ..runner import RuleResult
from ..facts import AnalysisBroken
from .. import facts
from ..model import strip, strip_all, walk, show, notpl, is_call, call_args
from .. import flow
from ..flow import folded, same_expr, Guards
from . import c17, c07

EXPLANATION = (
    "Static decision of structural clauses of C04 for every container and slot: reads beyond a surface fail (strict "
    "bound, unformatted views answer before any arithmetic); a short block is never returned; the MMB slot-status "
    "switch, table size, entry size and image size agree with doc/mmb.5 (parsed on every run); a slot's offset "
    "depends on its number only; the view parameters of interleaved and non-interleaved two-sided files have the "
    "documented shape.  The stride arithmetic of FileView::read_block and geometry probing are not decided.")
ASSUMPTIONS = ["doc/mmb.5 is the specification of the MMB layout (the property says 'documented offset')"]


def rule_fileview_bound(prog, fixture=False):
    r0 = c17.rule_bounds(prog, fixture=True)
    r = RuleResult("R-C04-1", "FileView::read_block forwards only sectors below total_, and an unformatted view "
                   "fails before any offset arithmetic", floor=0 if fixture else 1)
    for i in r0.instances:
        if "FileView::read_block" in i.key:
            r.add(i.key, i.loc, i.ok, i.detail)
    for fn in prog.fnby("FileView::read_block", required=not fixture):
        # division by take_ is dominated by take_ != 0
        g = Guards(fn)
        for n in fn.walk():
            if n.get("k") == "BinaryOperator" and n.get("op") in ("/", "%"):
                den = n["c"][1]
                ok = False
                for l, rel, rr in (g.cmps(n) or []):
                    if rel == "!=" and ((same_expr(l, den) and folded(rr) == 0) or (same_expr(rr, den) and folded(l) == 0)):
                        ok = True
                for atom, truth in (g.truths(n) or []):
                    if truth and same_expr(atom, den):
                        ok = True
                r.add("%s::%s::%s" % (fn.relfile(), fn.qn, show(n)[:30]), fn.loc(n), ok,
                      "divisor known non-zero (formatted view)" if ok else
                      "division by %s without the unformatted-device test: an unformatted MMB slot would divide by zero" % show(den))
    return r


def rule_short_block(prog, fixture=False):
    r0 = c07.rule_short_reads(prog, fixture=True)
    r = RuleResult("R-C04-2", "FilePresentedBlockwise::read_block returns a sector only when the file delivered "
                   "all 256 bytes", floor=0 if fixture else 1)
    for i in r0.instances:
        if "FilePresentedBlockwise::read_block" in i.key:
            r.add(i.key, i.loc, i.ok, i.detail)
    return r


def doc_mmb(root):
    p = os.path.join(root, "doc", "mmb.5")
    try:
        text = open(p, encoding="latin-1").read()
    except OSError:
        raise AnalysisBroken("doc/mmb.5 not found")
    types = {}
    m = re.search(r"Disc Type\|Meaning\n(.*?)\n\.TE", text, re.S)
    if not m:
        raise AnalysisBroken("Disc Type table not found in doc/mmb.5")
    for line in m.group(1).splitlines():
        if "|" in line:
            a, b = line.split("|", 1)
            try:
                types[int(a.strip(), 16)] = b.strip()
            except ValueError:
                pass
    nums = {}
    m1 = re.search(r"it is (\d+) bytes long", text)
    m2 = re.search(r"All disc images are (\d+) bytes", text)
    if m1:
        nums["table_bytes"] = int(m1.group(1))
    if m2:
        nums["image_bytes"] = int(m2.group(1))
    m3 = re.search(r"0x0F\|Disc Type", text)
    nums["status_offset"] = 0x0F if m3 else None
    return types, nums


def rule_mmb_table(prog, root, fixture=False):
    r = RuleResult("R-C04-3", "the MMB reader agrees with doc/mmb.5: present exactly for Read-only/Read-write "
                   "slots; 32x256 = 8192-byte table; 16-byte entries with the type at offset 0x0F; images of "
                   "80x1x10x256 = 204800 bytes", floor=0 if fixture else 6)
    types, nums = doc_mmb(root)
    r.info["doc_types"] = {hex(k): v for k, v in types.items()}
    present_doc = set(k for k, v in types.items() if v.lower().startswith(("read-only", "read-write")))
    for fn in prog.functions.values():
        if not fn.qn.endswith("MmbFile::MmbFile"):
            continue
        loc = "%s:%d" % (fn.relfile(), fn.line)
        # which slots get a real view?  the guard of the statement that constructs the data-bearing FileView
        guard = None
        for n in fn.walk():
            if n.get("k") == "IfStmt" and "then" in n["parts"]:
                then = n["c"][n["parts"]["then"]]
                if any(x.get("k") in ("CXXConstructExpr", "CXXTemporaryObjectExpr") and notpl(x.get("cls") or "").endswith("FileView")
                       and len(x.get("c", [])) >= 8 for x in walk(then)):
                    guard = strip_all(n["c"][n["parts"]["cond"]])
        if guard is None:
            raise AnalysisBroken("MmbFile: cannot find the condition under which a slot's view is created")
        statuses = sorted(set(types) | {0x00, 0x0F, 0xF0, 0xFF})
        present = {}      # status -> 0/1, "default" -> 0/1
        sw = None
        if guard.get("k") == "DeclRefExpr":
            # flag set by a switch on the status byte
            pvar = None
            for n in fn.walk():
                if n.get("k") == "VarDecl" and n.get("d") == guard.get("d"):
                    pvar = n
                if n.get("k") == "SwitchStmt":
                    sw = n
            if pvar is None or sw is None:
                raise AnalysisBroken("MmbFile: slot-status switch not found")
            # the flag must start afresh for every table entry: declared inside the loop that holds the switch
            loop = None
            for a in fn.ancestors(sw):
                if a.get("k") == "ForStmt":
                    loop = a
                    break
            fresh = loop is not None and any(x is pvar for x in walk(loop))
            from .c08 import _switch_handlers
            handlers = _switch_handlers(fn, sw)
            init = folded(pvar["c"][0]) if pvar.get("c") else None

            def present_for(label):
                val = init if fresh else None
                for st in handlers.get(label, []):
                    for x in walk(st):
                        if x.get("k") == "BinaryOperator" and x.get("op") == "=" and strip_all(x["c"][0]).get("d") == pvar["d"]:
                            val = folded(x["c"][1])
                return val
            for status in statuses:
                present[status] = present_for(status if status in handlers else "default")
            present["default"] = present_for("default")
            anchor = sw
        elif guard.get("k") == "MemberExpr" and guard.get("dk") == "Field":
            # field of a status record looked up in a constant table
            field = guard.get("n")
            rec_t = notpl((strip_all(guard["c"][0]).get("ct") or strip_all(guard["c"][0]).get("t") or "").replace("const ", "").replace("&", "").strip())
            rec = [rc for rc in prog.records.values() if notpl(rc["q"]) == rec_t or notpl(rc["q"]).endswith("::" + rec_t.split("::")[-1])]
            if not rec:
                raise AnalysisBroken("MmbFile: record type of the slot status (%s) not found" % rec_t)
            fnames = [f["n"] for f in rec[0]["fields"]]
            fi = fnames.index(field)
            table, fallback = {}, None
            # (a) the record is returned by a classifying helper: `switch (status) { case K: return Rec{...}; }`
            basev = strip_all(guard["c"][0])
            if basev is not None and basev.get("k") == "DeclRefExpr":
                for v in fn.walk():
                    if v.get("k") == "VarDecl" and v.get("d") == basev.get("d") and v.get("c"):
                        call = strip_all(v["c"][0])
                        while call is not None and call.get("k") == "CXXConstructExpr" and len(call.get("c", [])) == 1:
                            call = strip_all(call["c"][0])
                        if call is not None and call.get("k") == "CallExpr":
                            for t in prog.call_targets(fn, call):
                                sws = [x for x in t.walk() if x.get("k") == "SwitchStmt"]
                                if not sws and len(t.params) == 1:
                                    # an if-chain: `if (status == K) return Rec{...}; ... return Rec{...};`
                                    gt = Guards(t)
                                    for x in t.walk():
                                        if x.get("k") != "ReturnStmt" or not x.get("c"):
                                            continue
                                        row = strip_all(x["c"][0])
                                        for _ in range(4):
                                            if row is not None and row.get("k") in ("CXXConstructExpr", "CXXFunctionalCastExpr",
                                                                                    "CXXTemporaryObjectExpr") and len(row.get("c", [])) == 1:
                                                row = strip_all(row["c"][0])
                                        if row is None or row.get("k") != "InitListExpr" or len(row.get("c", [])) <= fi:
                                            continue
                                        val = folded(row["c"][fi])
                                        labs = [folded(rr) for l, rel, rr in (gt.cmps(x) or [])
                                                if rel == "==" and (strip_all(l) or {}).get("d") == t.params[0]["d"] and folded(rr) is not None]
                                        if labs:
                                            for lab in labs:
                                                table[lab] = val
                                        else:
                                            fallback = val
                                    continue
                                if len(sws) != 1:
                                    continue
                                from .c08 import _switch_handlers
                                hs = _switch_handlers(t, sws[0])
                                for lab, stmts in hs.items():
                                    val = None
                                    for st in stmts:
                                        for x in walk(st):
                                            if x.get("k") == "ReturnStmt" and x.get("c") and val is None:
                                                row = strip_all(x["c"][0])
                                                for _ in range(4):
                                                    if row is not None and row.get("k") in ("CXXConstructExpr", "CXXFunctionalCastExpr",
                                                                                            "CXXTemporaryObjectExpr") and len(row.get("c", [])) == 1:
                                                        row = strip_all(row["c"][0])
                                                if row is not None and row.get("k") == "InitListExpr" and len(row.get("c", [])) > fi:
                                                    val = folded(row["c"][fi])
                                    if val is None:
                                        continue
                                    if lab == "default":
                                        fallback = val
                                    else:
                                        table[lab] = val
            for gl in prog.globals.values():
                gt = notpl((gl.get("ct") or gl.get("t") or "").replace("const ", ""))
                if rec_t.split("::")[-1] not in gt or not gl.get("init"):
                    continue
                init = strip_all(gl["init"])
                rows = init.get("c", []) if "[" in gt else [init]
                for row in rows:
                    row = strip_all(row)
                    vals = [folded(c) for c in row.get("c", [])]
                    if len(vals) != len(fnames) and len(vals) < fi + 1:
                        continue
                    if "[" in gt:
                        table[vals[0]] = vals[fi]
                    else:
                        fallback = vals[fi]
            if not table or fallback is None:
                raise AnalysisBroken("MmbFile: cannot fold the slot-status table")
            for status in statuses:
                present[status] = table.get(status, fallback)
            present["default"] = fallback
            anchor = guard
        else:
            raise AnalysisBroken("MmbFile: unrecognised view guard %s" % show(guard))
        for status in statuses:
            got = present[status]
            want = 1 if status in present_doc else 0
            r.add("%s::MmbFile::status 0x%02X" % (fn.relfile(), status), fn.loc(anchor), got == want,
                  "%s -> %s" % (types.get(status, "undocumented"), "disc" if want else "unformatted") if got == want else
                  "slot status 0x%02X (%s in mmb.5) is presented as %s" %
                  (status, types.get(status, "not documented"),
                   "a disc" if got else ("whatever the previous table entry was" if got is None else "unformatted")))
        d = present["default"]
        r.add("%s::MmbFile::status default" % fn.relfile(), fn.loc(anchor), d == 0,
              "unknown statuses are unformatted" if d == 0 else "an unknown slot status is not reliably presented as unformatted")
        # constants
        consts = {}
        for n in fn.walk():
            if n.get("k") == "VarDecl" and n.get("c"):
                v = folded(n["c"][0])
                if v is not None:
                    consts[n["n"]] = v
        for gid, gl in prog.globals.items():
            if gl["n"] in ("MMB_ENTRY_BYTES", "SECTOR_BYTES") and gl.get("init"):
                consts[gl["n"]] = folded(gl["init"])
        geom = None
        for n in fn.walk():
            if n.get("k") in ("CXXConstructExpr", "CXXTemporaryObjectExpr") and notpl(n.get("cls") or "") == "DFS::Geometry" \
                    and len(n.get("c", [])) >= 3 and all(folded(c) is not None for c in n["c"][:3]):
                geom = [folded(c) for c in n["c"][:3]]
        sb = consts.get("SECTOR_BYTES", 256)
        if "table_bytes" in nums:
            got = (consts.get("mmb_sectors") or 0) * sb
            r.add("%s::MmbFile::table-size" % fn.relfile(), loc, got == nums["table_bytes"],
                  "%d bytes" % got if got == nums["table_bytes"] else
                  "the disc table is taken to be %d bytes; mmb.5 says %d" % (got, nums["table_bytes"]))
        if "image_bytes" in nums and geom:
            got = geom[0] * geom[1] * geom[2] * sb
            r.add("%s::MmbFile::image-size" % fn.relfile(), loc, got == nums["image_bytes"],
                  "%d bytes" % got if got == nums["image_bytes"] else
                  "disc images are taken to be %d bytes (%dx%dx%d sectors); mmb.5 says %d" % (got, geom[0], geom[1], geom[2], nums["image_bytes"]))
        r.add("%s::MmbFile::entry-size" % fn.relfile(), loc, consts.get("MMB_ENTRY_BYTES") == 16,
              "16-byte entries" if consts.get("MMB_ENTRY_BYTES") == 16 else "entry size %s, documented 16" % consts.get("MMB_ENTRY_BYTES"))
        # status byte offset
        off = None
        for n in fn.walk():
            # the subscript of the per-entry pointer that feeds the status decision (not the diagnostic)
            if n.get("k") == "ArraySubscriptExpr" and strip_all(n["c"][0]).get("n") == "entry":
                par = fn.parent(n)
                while par is not None and par.get("k") in ("ImplicitCastExpr", "ParenExpr"):
                    par = fn.parent(par)
                if par is not None and (par.get("k") == "VarDecl" or (is_call(par) and par.get("k") == "CallExpr")):
                    off = folded(n["c"][1])
        r.add("%s::MmbFile::status-offset" % fn.relfile(), loc, off == nums.get("status_offset"),
              "type byte at 0x0F" if off == nums.get("status_offset") else "status read from offset %s, documented 0x0F" % off)
    return r


def _deps(fn, e, seen=None, depth=0):
    """Local variables an expression depends on (transitively through initialisers)."""
    seen = seen if seen is not None else {}
    for x in walk(e):
        if x.get("k") == "DeclRefExpr" and x.get("dk") == "Var" and x["d"] not in seen:
            seen[x["d"]] = x
            if depth < 6:
                for v in fn.walk():
                    if v.get("k") == "VarDecl" and v.get("d") == x["d"] and v.get("c"):
                        _deps(fn, v["c"][0], seen, depth + 1)
    return seen


def rule_slot_position(prog, fixture=False):
    r = RuleResult("R-C04-4", "the offset of an MMB slot's image depends on the slot number and constants only",
                   floor=0 if fixture else 1)
    for fn in prog.functions.values():
        if not fn.qn.endswith("MmbFile::MmbFile"):
            continue
        for n in fn.walk():
            if n.get("k") in ("CXXConstructExpr", "CXXTemporaryObjectExpr") and notpl(n.get("cls") or "").endswith("FileView") \
                    and len(n.get("c", [])) >= 8:
                skip = n["c"][4]
                deps = _deps(fn, skip)
                bad = None
                for d, ref in deps.items():
                    # assignments (not the initialiser) to a dependency
                    for a in fn.walk():
                        tgt = None
                        if a.get("k") in ("BinaryOperator", "CompoundAssignOperator") and a.get("op") in flow.ASSIGN_OPS:
                            tgt = a["c"][0]
                        elif a.get("k") == "UnaryOperator" and a.get("op") in ("++", "--"):
                            tgt = a["c"][0]
                        if tgt is None or strip_all(tgt).get("d") != d:
                            continue
                        # loop induction updates (in a ForStmt's inc) are fine
                        in_inc = False
                        for anc in fn.ancestors(a):
                            if anc.get("k") == "ForStmt" and "inc" in anc.get("parts", {}) and \
                                    any(y is a for y in walk(anc["c"][anc["parts"]["inc"]])):
                                in_inc = True
                        if not in_inc:
                            bad = (ref, a)
                key = "%s::MmbFile::slot-skip" % fn.relfile()
                r.add(key, fn.loc(n), bad is None, "skip = f(slot number)" if bad is None else
                      "the offset of a slot's image depends on `%s`, which is updated by `%s` as slots are visited: "
                      "slots after an unformatted or invalid entry are read from another slot's position" %
                      (bad[0].get("n"), show(bad[1])))
    return r


def rule_view_shapes(prog, fixture=False):
    r = RuleResult("R-C04-5", "views of two-sided files: interleaved = take one track / leave one track, side 1 one "
                   "track in; non-interleaved = take all / leave none, each side after the previous",
                   floor=0 if fixture else 3)
    for fn in prog.functions.values():
        inter = fn.qn.endswith("InterleavedFile::InterleavedFile") and "NonInterleaved" not in fn.qn
        non = fn.qn.endswith("NonInterleavedFile::NonInterleavedFile")
        if not (inter or non):
            continue
        views = [n for n in fn.walk() if n.get("k") in ("CXXConstructExpr", "CXXTemporaryObjectExpr")
                 and notpl(n.get("cls") or "").endswith("FileView") and len(n.get("c", [])) >= 8]
        if inter:
            # each construction is evaluated for every side it stands for: two explicit constructions
            # (side 0, side 1) or one construction in a loop `for (side = 0; side < 2; ++side)`
            cases = []
            if len(views) == 2:
                cases = [(0, views[0], None), (1, views[1], None)]
            elif len(views) == 1:
                lp = None
                for a in fn.ancestors(views[0]):
                    if a.get("k") == "ForStmt":
                        lp = a
                        break
                ivs = [x for x in walk(lp["c"][lp["parts"]["init"]]) if x.get("k") == "VarDecl"] if lp is not None and "init" in lp["parts"] else []
                cond = strip_all(lp["c"][lp["parts"]["cond"]]) if lp is not None and "cond" in lp["parts"] else None
                if ivs and cond is not None and folded(ivs[0]["c"][0]) == 0 and cond.get("op") == "<" and folded(cond["c"][1]) == 2 \
                        and strip_all(cond["c"][0]).get("d") == ivs[0]["d"]:
                    cases = [(0, views[0], ivs[0]["d"]), (1, views[0], ivs[0]["d"])]
            if not cases:
                r.undecided.append("InterleavedFile: the construction of the two side views has a shape the rule cannot follow")
                continue
            for idx, v, loopvar in cases:
                skip, take, leave, total = v["c"][4:8]
                probs = []
                if not same_expr(take, leave):
                    probs.append("take (%s) and leave (%s) differ" % (show(take), show(leave)))
                sk = _skip_for_side(fn, skip, loopvar, idx, take)
                if sk is None:
                    r.undecided.append("InterleavedFile: cannot evaluate the skip `%s` for side %d" % (show(skip), idx))
                    continue
                if idx == 0 and sk != 0:
                    probs.append("side 0 does not start at offset 0")
                if idx == 1 and sk != "take":
                    probs.append("side 1 starts at %s, not one track (%s) in" % (show(skip), show(take)))
                tk = strip_all(take)
                src = tk
                if tk.get("k") == "DeclRefExpr":
                    for d in fn.walk():
                        if d.get("k") == "VarDecl" and d.get("d") == tk.get("d") and d.get("c"):
                            src = strip_all(d["c"][0])
                if not (src.get("k") == "MemberExpr" and src.get("n") == "sectors"):
                    probs.append("the amount taken per stride is not the track length (geometry.sectors)")
                r.add("%s::InterleavedFile::side%d" % (fn.relfile(), idx), fn.loc(v), not probs,
                      "take track / leave track" if not probs else "; ".join(probs))
        if non:
            if len(views) != 1:
                raise AnalysisBroken("NonInterleavedFile: expected one view construction, found %d" % len(views))
            v = views[0]
            skip, take, leave, total = v["c"][4:8]
            probs = []
            if folded(leave) != 0:
                probs.append("leave is %s, not 0" % show(leave))
            if not same_expr(take, total):
                probs.append("take (%s) is not the whole side (%s)" % (show(take), show(total)))
            # skip advances by the side length after each side
            sk = strip_all(skip)
            adv = False
            for a in fn.walk():
                if a.get("k") == "BinaryOperator" and a.get("op") == "=" and strip_all(a["c"][0]).get("d") == sk.get("d"):
                    if any(same_expr(x, take) for x in walk(a["c"][1])) and any(
                            x.get("k") == "DeclRefExpr" and x.get("d") == sk.get("d") for x in walk(a["c"][1])):
                        adv = True
            if not adv:
                # closed form: skip = <side index> * <side length>, the index being the variable of the enclosing loop
                sdef = sk
                if sk is not None and sk.get("k") == "DeclRefExpr":
                    for d_ in fn.walk():
                        if d_.get("k") == "VarDecl" and d_.get("d") == sk.get("d") and d_.get("c"):
                            sdef = strip_all(d_["c"][0])
                while sdef is not None and sdef.get("k") in ("CStyleCastExpr", "CXXStaticCastExpr", "CXXFunctionalCastExpr", "CallExpr") and \
                        len([c for c in sdef.get("c", [])]) in (1, 2) and not (sdef.get("k") == "CallExpr" and len(call_args(sdef)) != 1):
                    sdef = strip_all(call_args(sdef)[0] if sdef["k"] == "CallExpr" else sdef["c"][0])
                lp_ = None
                for a_ in fn.ancestors(v):
                    if a_.get("k") == "ForStmt":
                        lp_ = a_
                        break
                if sdef is not None and sdef.get("k") == "BinaryOperator" and sdef.get("op") == "*" and lp_ is not None and "init" in lp_["parts"]:
                    ivs_ = [x for x in walk(lp_["c"][lp_["parts"]["init"]]) if x.get("k") == "VarDecl"]
                    def through_locals(e_, depth_=0):
                        e_ = strip_all(e_)
                        while e_ is not None and e_.get("k") in ("CStyleCastExpr", "CXXStaticCastExpr", "CXXFunctionalCastExpr") and e_.get("c"):
                            e_ = strip_all(e_["c"][0])
                        if e_ is not None and e_.get("k") == "DeclRefExpr" and e_.get("dk") == "Var" and depth_ < 3 and \
                                ivs_ and e_.get("d") != ivs_[0]["d"] and \
                                not any(d__ == e_["d"] for y__ in fn.walk() for d__, _ in flow.written_decls(y__)
                                        if y__.get("k") not in ("VarDecl", "DeclStmt")):
                            for v__ in fn.walk():
                                if v__.get("k") == "VarDecl" and v__.get("d") == e_["d"] and v__.get("c"):
                                    return through_locals(v__["c"][0], depth_ + 1)
                        return e_
                    ra_, rb_ = strip_all(sdef["c"][0]), strip_all(sdef["c"][1])
                    for x_, y_ in ((through_locals(ra_), rb_), (through_locals(rb_), ra_)):
                        if ivs_ and x_ is not None and x_.get("k") == "DeclRefExpr" and x_.get("d") == ivs_[0]["d"] and \
                                folded(ivs_[0]["c"][0]) == 0 and same_expr(y_, take):
                            adv = True
            if not adv:
                probs.append("the skip is not advanced by one side length per side")
            # the side length is that of the geometry the view itself is given (one side)
            tk = strip_all(take)
            src = tk
            if tk is not None and tk.get("k") == "DeclRefExpr":
                for d in fn.walk():
                    if d.get("k") == "VarDecl" and d.get("d") == tk.get("d") and d.get("c"):
                        src = strip_all(d["c"][0])
            if src is not None and src.get("k") == "CXXMemberCallExpr" and (strip(src["c"][0]) or {}).get("n") == "total_sectors":
                gobj = strip_all((strip(src["c"][0]) or {}).get("c", [None])[0])
                vgeom = strip_all(v["c"][3])
                if gobj is not None and vgeom is not None and gobj.get("k") == "DeclRefExpr" and vgeom.get("k") == "DeclRefExpr" \
                        and gobj.get("d") != vgeom.get("d"):
                    probs.append("the side length is `%s` of `%s`, but the view is described by `%s`: a side is as long "
                                 "as the single-sided geometry says, not as the whole image" %
                                 ("total_sectors()", gobj.get("n"), vgeom.get("n")))
            r.add("%s::NonInterleavedFile::sides" % fn.relfile(), fn.loc(v), not probs,
                  "contiguous sides" if not probs else "; ".join(probs))
    return r


def _skip_for_side(fn, skip, loopvar, side, take, depth=0):
    """0, "take" or None: value of the skip expression for the given side."""
    e = strip_all(skip)
    if e is None or depth > 5:
        return None
    v = folded(e)
    if v is not None:
        return 0 if v == 0 else None
    if same_expr(e, take):
        return "take"
    if e.get("k") == "DeclRefExpr":
        if loopvar is not None and e.get("d") == loopvar:
            return 0 if side == 0 else None
        for d in fn.walk():
            if d.get("k") == "VarDecl" and d.get("d") == e.get("d") and d.get("c"):
                return _skip_for_side(fn, d["c"][0], loopvar, side, take, depth + 1)
        return None
    if e.get("k") == "BinaryOperator" and e.get("op") == "*":
        a, b = strip_all(e["c"][0]), strip_all(e["c"][1])
        for x, y in ((a, b), (b, a)):
            if x.get("k") == "DeclRefExpr" and loopvar is not None and x.get("d") == loopvar and same_expr(y, take):
                return 0 if side == 0 else "take"
    if e.get("k") == "ConditionalOperator":
        c = strip_all(e["c"][0])
        if c.get("k") == "DeclRefExpr" and loopvar is not None and c.get("d") == loopvar:
            return _skip_for_side(fn, e["c"][1] if side else e["c"][2], loopvar, side, take, depth + 1)
    return None


# ---------------------------------------------------------------- R-C04-6
def rule_stride_formula(prog, fixture=False):
    from .. import poly
    r = RuleResult("R-C04-6", "FileView::read_block forwards view sector x to file sector  skip + (x div take) * "
                   "(take + leave) + (x mod take)  - compared as polynomials over the integers, so any algebraically "
                   "equal spelling is accepted", floor=0 if fixture else 1)
    for fn in prog.fnby("FileView::read_block", required=not fixture):
        # which members are skip / take / leave: by position in the constructor's parameter list
        ctor = [f for f in prog.functions.values() if f.cls == fn.cls and "inits" in f.raw and len(f.params) >= 8]
        if len(ctor) != 1:
            r.undecided.append("FileView: constructor with (.., initial_skip, take, leave, total) not found")
            continue
        role = {}
        for init in ctor[0].raw["inits"]:
            e = strip_all(init.get("init")) if init.get("init") else None
            while e is not None and e.get("k") in ("CXXConstructExpr", "InitListExpr") and len(e.get("c", [])) == 1:
                e = strip_all(e["c"][0])
            if e is not None and e.get("k") == "DeclRefExpr" and e.get("dk") == "ParmVar":
                idx = [i for i, p_ in enumerate(ctor[0].params) if p_["d"] == e["d"]]
                if idx and idx[0] in (4, 5, 6):
                    role[init.get("member")] = {4: "SKIP", 5: "TAKE", 6: "LEAVE"}[idx[0]]
        if sorted(role.values()) != ["LEAVE", "SKIP", "TAKE"]:
            r.undecided.append("FileView: cannot tell which members hold skip/take/leave")
            continue
        fwd = [n for n in fn.walk() if n.get("k") == "CXXMemberCallExpr" and (strip(n["c"][0]) or {}).get("n") == "read_block"]
        if len(fwd) != 1:
            r.undecided.append("FileView::read_block: expected one forwarded read, found %d" % len(fwd))
            continue
        x = fn.params[0]["n"]
        b = poly.Builder(prog, fn)
        try:
            got = b.build(fwd[0]["c"][1])
        except poly.NotPolynomial as ex:
            r.undecided.append("FileView::read_block: the forwarded position is not a polynomial the rule can form (%s)" % ex)
            continue
        # rename member atoms to their roles
        def rename(p):
            out = {}
            for m, c in p.items():
                m2 = []
                for a in m:
                    for member, ro in role.items():
                        a = a.replace(member, ro)
                    m2.append(a.replace(x, "X"))
                out[tuple(sorted(m2))] = out.get(tuple(sorted(m2)), 0) + c
            return out
        got = rename(got)
        X, S, T, L = poly.atom("X"), poly.atom("SKIP"), poly.atom("TAKE"), poly.atom("LEAVE")
        D = poly.atom("DIV(X,TAKE)")
        want = poly.add(poly.add(S, poly.mul(D, poly.add(T, L))), poly.add(X, poly.mul(D, T), -1))
        key = "%s::%s::position" % (fn.relfile(), fn.qn)
        ok = got == want
        r.add(key, fn.loc(fwd[0]), ok, "skip + (x/take)*(take+leave) + x%take" if ok else
              "the position forwarded is  %s  but the layout (take sectors, leave sectors, repeated after an initial "
              "skip) requires  %s : sectors are fetched from the wrong place in the image file" %
              (poly.text(got), poly.text(want)))
    return r


# ---------------------------------------------------------------- R-C04-7
def rule_every_slot_visited(prog, fixture=False):
    r = RuleResult("R-C04-7", "every entry of the MMB table is examined: the loops around the FileView construction "
                   "run to constant bounds - their conditions read nothing that the loop body assigns (beyond the "
                   "counter), and nothing breaks or returns out of them - so a slot is attached wherever its own "
                   "entry says so, whatever the entries before it hold", floor=0 if fixture else 1)
    for fn in prog.functions.values():
        if not (fn.qn.endswith("MmbFile::MmbFile") or (fixture and "mmb" in fn.name.lower())):
            continue
        views = [n for n in fn.walk() if n.get("k") in ("CXXConstructExpr", "CXXTemporaryObjectExpr") and
                 notpl(n.get("cls") or "").endswith("FileView")]
        for v in views[:1]:
            loops = [a for a in fn.ancestors(v) if a.get("k") in ("ForStmt", "WhileStmt", "DoStmt", "CXXForRangeStmt")]
            for depth, lp in enumerate(loops):
                key = "%s::%s::table-loop#%d" % (fn.relfile(), fn.qn, depth + 1)
                if lp["k"] == "CXXForRangeStmt":
                    r.add(key, fn.loc(lp), True, "range-for")
                    continue
                body = lp["c"][lp["parts"]["body"]]
                written = {}
                for x in walk(body):
                    for d_, _ in flow.written_decls(x):
                        written[d_] = x
                    if x.get("k") == "UnaryOperator" and x.get("op") in ("++", "--"):
                        d_ = flow.lvalue_root(x["c"][0])
                        if d_ is not None:
                            written[d_] = x
                cond = lp["c"][lp["parts"]["cond"]] if "cond" in lp.get("parts", {}) else None
                problem = None
                for x in walk(cond) if cond is not None else []:
                    if x.get("k") == "DeclRefExpr" and x.get("d") in written:
                        problem = "the loop condition reads `%s`, which the body sets (%s): the scan of the table can stop " \
                                  "before its end, and the slots behind that point are never attached" % (x.get("n"), fn.loc(written[x["d"]]))
                # exits from the loop body that are not inside a nested loop or switch
                for x in walk(body):
                    if x.get("k") in ("BreakStmt", "ReturnStmt", "GotoStmt"):
                        inner = False
                        for a in fn.ancestors(x):
                            if a is lp:
                                break
                            if a.get("k") in ("ForStmt", "WhileStmt", "DoStmt", "CXXForRangeStmt") or \
                                    (a.get("k") == "SwitchStmt" and x.get("k") == "BreakStmt"):
                                inner = True
                                break
                        if not inner and not (x.get("k") == "BreakStmt" and any(a.get("k") == "SwitchStmt" for a in fn.ancestors(x)
                                                                                 if any(y is a for y in walk(body)))):
                            problem = problem or "%s: `%s` leaves the table loop early" % (fn.loc(x), x.get("k"))
                r.add(key, fn.loc(lp), problem is None, "constant bound, no early exit" if problem is None else problem)
    return r


# ---------------------------------------------------------------- R-C04-8
NUMBER_PARSERS = {"stol": 2, "stoi": 2, "stoul": 2, "stoll": 2, "stoull": 2, "strtol": 2, "strtoul": 2, "strtoll": 2, "strtoull": 2}


def rule_decimal_arguments(prog, fixture=False):
    r = RuleResult("R-C04-8", "drive, track and sector numbers on the command line are read in base 10: every "
                   "strtol/stol-family call passes the constant base 10 (base 0 would read a zero-padded `010` as "
                   "octal 8 and address another sector)", floor=0 if fixture else 2)
    for fn in prog.functions.values():
        for n in fn.walk():
            if n.get("k") != "CallExpr":
                continue
            base = notpl(n.get("q") or "").split("::")[-1]
            if base not in NUMBER_PARSERS:
                continue
            a = call_args(n)
            bi = NUMBER_PARSERS[base]
            b = folded(a[bi]) if len(a) > bi else None
            if len(a) <= bi:
                dflt = [x for x in n.get("c", []) if (strip(x) or {}).get("k") == "CXXDefaultArgExpr"]
                b = 10 if dflt or base.startswith("sto") else None
            key = "%s::%s::%s" % (fn.relfile(), fn.qn, base)
            r.add(key, fn.loc(n), b == 10, "base 10" if b == 10 else
                  "%s is called with base %s: numbers are not read as plain decimal" % (base, b if b is not None else "?"))
    return r


# ---------------------------------------------------------------- R-C04-9
def rule_surface_keeps_its_device(prog, fixture=False):
    from . import c16
    r = RuleResult("R-C04-9", "every surface of an image is attached together with the device that reads it: where the "
                   "images hand their surfaces to the drive table, each entry is a DriveConfig built on that surface "
                   "(an entry without configuration has no device, and the sectors of a surface without a recognised "
                   "file system - the blank second side of a disc, say - could no longer be read by dump-sector)",
                   floor=0 if fixture else 3)
    for fn, n in c16._empty_entry_producers(prog):
        r.add("%s::%s::empty-entry" % (fn.relfile(), fn.qn), fn.loc(n), False,
              "`%s` attaches a surface without its device" % show(n)[:60])
    for fn in prog.functions.values():
        for n in fn.walk():
            if n.get("k") in ("CXXConstructExpr", "CXXTemporaryObjectExpr") and notpl(n.get("cls") or "").split("::")[-1] == "DriveConfig" \
                    and len(n.get("c", [])) == 2 and fn.name != "DriveConfig":
                dev = strip_all(n["c"][1])
                ok = dev is not None and not (folded(n["c"][1]) == 0 or dev.get("null"))
                r.add("%s::%s::DriveConfig#%d" % (fn.relfile(), fn.qn, len(r.instances) + 1), fn.loc(n), ok,
                      "built on `%s`" % show(dev)[:30] if ok else "DriveConfig built with a null device")
    return r


def run(ctx):
    prog = ctx.prog("dfs", "N")
    root = ctx.root or facts.REPO
    return [rule_fileview_bound(prog), rule_short_block(prog), rule_mmb_table(prog, root), rule_slot_position(prog),
            rule_view_shapes(prog), rule_stride_formula(prog), rule_every_slot_visited(prog),
            rule_decimal_arguments(prog), rule_surface_keeps_its_device(prog)]


SELFTESTS = [
    (rule_every_slot_visited, ["c04_mmb_bad.cc"], ["c04_mmb_good.cc"], "table-loop"),
    (rule_decimal_arguments, ["c04_arg_bad.cc"], ["c04_arg_good.cc"], "stol"),
]
