"""C19 - behaviour does not depend on whether assertions are compiled in.

R-C19-1  every assert condition is free of side effects (assertion-enabled
         configuration): no assignment/++/--/new/delete, every callee pure
R-C19-2  the two configurations are the same program modulo the expansion of
         assert: per function, the statement trees with assert expansions
         replaced by a placeholder are identical; same functions, same globals
R-C19-3  clang's uninitialised-value analysis reports the same (after the two
         justified suppressions: nothing) in both configurations
"""
import os
import re
import subprocess
from concurrent.futures import ThreadPoolExecutor

from ..runner import RuleResult
from ..facts import AnalysisBroken
from .. import facts
from ..model import strip, strip_all, walk, show, notpl, is_call, call_args, Program
from .. import flow

EXPLANATION = (
    "If every assert condition is side-effect free and the two configurations are otherwise the same program, the "
    "NDEBUG and assertion-enabled builds differ only on runs where an assertion fails - exactly the property.  "
    "R-C19-1 classifies every callee in every assert condition (AST purity: no store through a non-local lvalue, "
    "recursively; const-contract for library functions, with a table of non-const overloads that do not mutate); "
    "R-C19-2 compares, function by function, the two configurations' trees with assert expansions masked; "
    "R-C19-3 runs clang's CFG-based uninitialised-value analysis in both configurations.")
ASSUMPTIONS = [
    "glibc's assert macro (expands to a conditional whose false arm calls __assert_fail)",
    "const member functions / functions taking only values and pointers-to-const of the C and C++ standard "
    "libraries do not have observable side effects",
]

# library member functions with non-const overloads that nevertheless do not mutate
NONMUTATING = {"operator[]", "at", "begin", "end", "cbegin", "cend", "rbegin", "rend", "front", "back", "data",
               "find", "get", "operator*", "operator->", "value", "c_str", "lower_bound", "upper_bound", "count",
               "size", "empty", "has_value", "operator bool", "first", "second", "equal_range", "length"}
MUTATING_INDEX_CLASSES = ("std::map", "std::unordered_map")


def assert_sites(fn):
    """(expansion node, condition) for each expanded assert in fn.  glibc has
    two shapes: `cond ? void(0) : __assert_fail(...)` (C++) and
    `({ if (cond) ; else __assert_fail(...); })` (C)."""
    seen = set()
    for n in fn.walk():
        if n.get("k") != "CallExpr" or not (n.get("q") or "").endswith("__assert_fail"):
            continue
        child = n
        for a in fn.ancestors(n):
            k = a.get("k")
            if k == "ConditionalOperator" and len(a.get("c", [])) == 3 and a["c"][2] is child:
                if a["i"] not in seen:
                    seen.add(a["i"])
                    yield a, a["c"][0]
                break
            if k == "IfStmt":
                p = a.get("parts", {})
                if "else" in p and a["c"][p["else"]] is child and "cond" in p:
                    if a["i"] not in seen:
                        seen.add(a["i"])
                        yield a, a["c"][p["cond"]]
                    break
            child = a


# library algorithms that modify the elements of the range(s) given by their first N iterator arguments
MUTATING_ALGORITHMS = {"std::sort": 2, "std::stable_sort": 2, "std::partial_sort": 3, "std::nth_element": 3, "std::reverse": 2,
                       "std::rotate": 3, "std::fill": 2, "std::fill_n": 1, "std::generate": 2, "std::iota": 2, "std::remove": 2,
                       "std::remove_if": 2, "std::unique": 2, "std::replace": 2, "std::replace_if": 2, "std::partition": 2,
                       "std::stable_partition": 2, "std::shuffle": 2, "std::random_shuffle": 2, "std::swap_ranges": 3,
                       "std::next_permutation": 2, "std::prev_permutation": 2, "std::make_heap": 2, "std::push_heap": 2,
                       "std::pop_heap": 2, "std::sort_heap": 2, "std::inplace_merge": 3}


class Purity:
    def __init__(self, prog):
        self.prog = prog
        self.memo = {}

    def callee_pure(self, caller, call, depth=0, loc=None, ptr_like=()):
        """(pure?, reason).  When `loc` (the caller's by-value locals) is given,
        a library callee that takes a mutable pointer/reference is still pure
        for the outside world if every such argument designates a local."""
        key = call.get("fn")
        if not key:
            return False, "indirect call"
        info = self.prog.callees.get(key) or caller.unit["callees"].get(key, {})
        q = notpl(info.get("q") or call.get("q") or "?")
        if q.endswith("__assert_fail"):
            return True, ""
        targets = self.prog.call_targets(caller, call)
        if targets:
            for t in targets:
                ok, why = self.body_pure(t, depth + 1)
                if not ok:
                    return False, why
            return True, ""
        # no body in the program: library contract
        name = info.get("name") or q.split("::")[-1]
        if info.get("ctor"):
            return True, ""  # constructing a temporary value
        if info.get("method"):
            cls = notpl(info.get("class") or "")
            if info.get("const") or info.get("static"):
                return True, ""
            if name == "operator[]" and cls.startswith(MUTATING_INDEX_CLASSES):
                return False, "%s::operator[] inserts a missing key" % cls
            if name in NONMUTATING:
                return True, ""
            if loc is not None:
                rcv = call_receiver_of(call)
                if rcv is not None and self._local_object(caller, rcv, depth, loc, ptr_like):
                    # a mutating member of a local object; its other arguments are values
                    return True, ""
            return False, "non-const library member %s" % q
        params = info.get("params", [])
        args = call_args(call)
        if call.get("k") == "CXXOperatorCallExpr" and info.get("method"):
            args = args[1:]
        if q in MUTATING_ALGORITHMS:
            # these write through the iterators they are given: pure only if every range belongs to a local object
            for a in args[:MUTATING_ALGORITHMS[q]]:
                inner = strip_all(a)
                rcv = call_receiver_of(inner) if inner is not None and is_call(inner) else None
                root_ok = rcv is not None and loc is not None and self._local_object(caller, rcv, depth, loc, ptr_like)
                if not root_ok:
                    return False, "%s writes through the range it is given (%s)" % (q, show(a)[:30])
            return True, ""
        for i, p in enumerate(params):
            p = notpl(p)
            if ("*" in p or "&" in p) and not _points_to_const(p):
                if loc is not None and i < len(args) and self._local_object(caller, args[i], depth, loc, ptr_like):
                    continue
                return False, "library function %s takes a mutable pointer/reference (%s)" % (q, p)
        return True, ""

    def _local_object(self, caller, e, depth, loc, ptr_like):
        """The expression designates an object local to the caller: a by-value
        local, or the result of a (locally pure) call chained on one, such as
        `os << a` for a local stream os."""
        root = flow.lvalue_root(e)
        if root is not None:
            return root in loc and root not in ptr_like
        inner = strip_all(e)
        if inner is not None and is_call(inner) and depth < 40:
            ok, _ = self.callee_pure(caller, inner, depth + 1, loc, ptr_like)
            return ok
        return False

    def body_pure(self, f, depth=0):
        if f.uid in self.memo:
            return self.memo[f.uid]
        if depth > 12:
            return True, ""
        self.memo[f.uid] = (True, "")  # coinductive assumption for recursion
        res = self._body_pure(f, depth)
        self.memo[f.uid] = res
        return res

    def _locals(self, f):
        loc = set()
        for p in f.params:
            t = p.get("ct") or p.get("t") or ""
            if "&" not in t:
                loc.add(p["d"])          # by-value parameter (the pointer itself is local)
        for n in f.walk():
            if n.get("k") == "VarDecl" and not n.get("sl"):
                t = n.get("ct") or n.get("t") or ""
                if "&" not in t:
                    loc.add(n["d"])
        return loc

    def _body_pure(self, f, depth):
        loc = self._locals(f)
        ptr_like = set()
        for p in f.params:
            t = p.get("ct") or p.get("t") or ""
            if "*" in t:
                ptr_like.add(p["d"])
        for n in f.walk():
            k = n.get("k")
            tgt = None
            if k in ("BinaryOperator", "CompoundAssignOperator") and n.get("op") in flow.ASSIGN_OPS:
                tgt = n["c"][0]
            elif k == "UnaryOperator" and n.get("op") in ("++", "--"):
                tgt = n["c"][0]
            elif k == "CXXOperatorCallExpr" and n.get("op") in flow.ASSIGN_OPS | {"++", "--"} and len(n["c"]) > 1:
                tgt = n["c"][1]
            if tgt is not None:
                root = flow.lvalue_root(tgt)
                elem = flow._is_element_lvalue(tgt)
                t0 = strip_all(tgt)
                is_member_of_this = t0 is not None and t0.get("k") == "MemberExpr" and \
                    (not t0.get("c") or strip_all(t0["c"][0]).get("k") == "CXXThisExpr")
                if root is None or root not in loc or is_member_of_this or (elem and root in ptr_like):
                    return False, "%s stores to %s (%s)" % (f.qn, show(tgt), f.loc(n))
            if k in ("CXXNewExpr", "CXXDeleteExpr"):
                return False, "%s allocates/frees (%s)" % (f.qn, f.loc(n))
            if is_call(n) and k != "CXXConstructExpr":
                ok, why = self.callee_pure(f, n, depth, loc, ptr_like)
                if not ok:
                    return False, "%s -> %s" % (f.qn, why)
        return True, ""


def call_receiver_of(call):
    if call.get("k") == "CXXOperatorCallExpr" and len(call.get("c", [])) > 1:
        return call["c"][1]
    if call.get("k") == "CXXMemberCallExpr":
        callee = strip(call["c"][0])
        if callee is not None and callee.get("k") == "MemberExpr" and callee.get("c"):
            return callee["c"][0]
    return None


def _points_to_const(t):
    t = t.strip()
    # "const char *", "const std::string &", "char const *"
    base = re.sub(r"[*&]+\s*(const)?\s*$", "", t).strip()
    return base.startswith("const ") or base.endswith(" const")


def rule_assert_purity(progs, fixture=False):
    r = RuleResult("R-C19-1", "no assert condition has a side effect: no assignment, ++/--, new/delete, and "
                   "every function it calls is pure", floor=0 if fixture else 60)
    from ..exc import MayThrow, LIB_THROWERS
    for prog in progs:
        pur = Purity(prog)
        mt = MayThrow(prog)
        for fn in prog.functions.values():
            k = 0
            for cnode, cond in assert_sites(fn):
                k += 1
                key = "%s::%s::assert(%s)" % (fn.relfile(), fn.qn, show(cond)[:80])
                bad = None
                calls = 0
                for n in walk(cond):
                    kk = n.get("k")
                    if kk in ("BinaryOperator", "CompoundAssignOperator") and n.get("op") in flow.ASSIGN_OPS:
                        bad = "assignment %s inside the assertion" % show(n)
                    elif kk == "UnaryOperator" and n.get("op") in ("++", "--"):
                        bad = "%s inside the assertion" % show(n)
                    elif kk == "CXXOperatorCallExpr" and n.get("op") in flow.ASSIGN_OPS | {"++", "--"}:
                        bad = "overloaded %s inside the assertion" % n.get("op")
                    elif kk in ("CXXNewExpr", "CXXDeleteExpr"):
                        bad = "new/delete inside the assertion"
                    elif is_call(n) and kk != "CXXConstructExpr":
                        calls += 1
                        ok, why = pur.callee_pure(fn, n)
                        if not ok:
                            bad = "calls %s, which is not pure: %s" % (notpl(n.get("q") or "?"), why)
                        else:
                            q = notpl(n.get("q") or "")
                            thrown = set(LIB_THROWERS.get(q, ()))
                            for t in prog.call_targets(fn, n):
                                thrown |= mt.sets.get(t.uid, set())
                            if thrown:
                                bad = "calls %s, which can throw %s: the assertion-enabled build then leaves by an " \
                                      "exception where the NDEBUG build carries on" % (q, ", ".join(sorted(thrown)))
                    if bad:
                        break
                r.add(key, fn.loc(cnode), bad is None,
                      ("condition is pure (%d calls classified)" % calls) if bad is None else
                      bad + "; with NDEBUG the effect disappears", nontrivial=calls > 0)
    return r


# ------------------------------------------------------------------ R-C19-2
def _masked(n, out):
    """Canonical rendering of a tree with assert expansions masked."""
    if n is None:
        out.append("~")
        return
    if n.get("m") == "assert":
        out.append("ASSERT")
        return
    k = n.get("k")
    out.append(k)
    for f in ("op", "n", "v", "s", "fn", "ck", "label"):
        if f in n:
            out.append("%s=%r" % (f, n[f]))
    if k in ("NullStmt",):
        pass
    c = n.get("c", [])
    out.append("(")
    for x in c:
        _masked(x, out)
    out.append(")")


def _collapse(tokens):
    """`ASSERT` may be wrapped differently in the two builds (ParenExpr around
    the conditional vs around (void)0): drop wrapper tokens directly around it."""
    s = " ".join(tokens)
    prev = None
    while prev != s:
        prev = s
        s = re.sub(r"(ParenExpr|ImplicitCastExpr(?: ck='[A-Za-z]+')?|CStyleCastExpr(?: ck='[A-Za-z]+')?|ExprWithCleanups) \( ASSERT \)", "ASSERT", s)
    return s


def masked_function(fn):
    out = []
    for ini in fn.raw.get("inits", []):
        out.append("init:%s" % (ini.get("member") or ini.get("base") or "?"))
        _masked(ini.get("init"), out)
    _masked(fn.body, out)
    return _collapse(out)


def rule_same_program(progsN, progsA, fixture=False):
    r = RuleResult("R-C19-2", "the NDEBUG and assertion-enabled configurations are the same program modulo the "
                   "expansion of assert (per function: identical trees with assert masked; same function set)",
                   floor=0 if fixture else 300)
    for pn, pa in zip(progsN, progsA):
        fa = {f.uid: f for f in pa.functions.values()}
        fnn = {f.uid: f for f in pn.functions.values()}
        for uid in sorted(set(fa) | set(fnn)):
            a, b = fa.get(uid), fnn.get(uid)
            f = a or b
            key = "%s::%s" % (f.relfile(), f.qn)
            if a is None or b is None:
                r.add(key, "%s:%d" % (f.relfile(), f.line), False,
                      "function exists only in the %s configuration" % ("NDEBUG" if a is None else "assertion-enabled"))
                continue
            ma, mb = masked_function(a), masked_function(b)
            if ma != mb:
                # locate first difference for the report
                ta, tb = ma.split(" "), mb.split(" ")
                i = 0
                while i < min(len(ta), len(tb)) and ta[i] == tb[i]:
                    i += 1
                r.add(key, "%s:%d" % (f.relfile(), f.line), False,
                      "body differs between the configurations outside assert(): ...%s... vs ...%s..." %
                      (" ".join(ta[max(0, i - 3):i + 5]), " ".join(tb[max(0, i - 3):i + 5])))
            else:
                r.add(key, "%s:%d" % (f.relfile(), f.line), True, "", nontrivial="ASSERT" in ma)
        ga = set(g.split("|")[0] for g in pa.globals)
        gn = set(g.split("|")[0] for g in pn.globals)
        for g in sorted(ga ^ gn):
            r.add("global::" + g, g, False, "global exists in only one configuration")
    return r


# ------------------------------------------------------------------ R-C19-3 / R-C08-1
UNINIT_FLAGS = ["-Wuninitialized", "-Wsometimes-uninitialized", "-Wconditional-uninitialized"]
WARN_RE = re.compile(r"^(.*?):(\d+):(\d+): warning: (variable '([^']+)' .*?) \[-W([a-z-]*uninitialized)\]", re.M)
# symbol-level suppressions: infeasible by the typestate invariant R-C06-1(i) checks
# (sec_size is assigned whenever the decoder enters the record-wanted state)
UNINIT_SUPPRESS = {("sec_size", "dfs/track_fm.cc"), ("sec_size", "dfs/track_mfm.cc")}


def uninit_reports(cache_dir, root, which, cfg):
    """Run clang's uninitialised-value analysis over every product unit."""
    import json
    db = json.load(open(os.path.join(cache_dir, "compdb.json")))
    targets = facts.PRODUCT_TARGETS[which]
    units = [e for e in db if e["target"] in targets]

    def one(e):
        drv, flags = facts.unit_flags(e, cfg)
        flags = [f for f in flags if f != "-w"]
        cmd = [drv] + flags + UNINIT_FLAGS + ["-fsyntax-only", e["file"]]
        p = subprocess.run(cmd, stdout=subprocess.PIPE, stderr=subprocess.PIPE)
        return e, p.returncode, p.stderr.decode(errors="replace")
    out = []
    with ThreadPoolExecutor(facts.NJOBS) as ex:
        for e, rc, err in ex.map(one, units):
            if rc != 0:
                raise AnalysisBroken("clang -fsyntax-only failed on %s: %s" % (e["file"], err[-1500:]))
            for m in WARN_RE.finditer(err):
                f = os.path.relpath(m.group(1), root)
                out.append({"file": f, "line": int(m.group(2)), "msg": m.group(4), "var": m.group(5),
                            "unit": os.path.relpath(e["file"], root)})
    # de-duplicate (headers)
    seen, res = set(), []
    for w in out:
        k = (w["file"], w["var"], w["msg"])
        if k not in seen:
            seen.add(k)
            res.append(w)
    return res, len(units)


def rule_uninit(ctx, which_list, rule_id="R-C19-3", cfgs=("N", "A")):
    r = RuleResult(rule_id, "clang's CFG-based uninitialised-value analysis (-Wuninitialized "
                   "-Wsometimes-uninitialized -Wconditional-uninitialized) is silent in every configuration, "
                   "apart from two symbol-level suppressions justified by R-C06-1", floor=2)
    cache = ctx.cache_dir()
    root = ctx.root or facts.REPO
    for which in which_list:
        for cfg in cfgs:
            ws, nunits = uninit_reports(cache, root, which, cfg)
            key0 = "%s/cfg%s" % (which, cfg)
            live = []
            for w in ws:
                if (w["var"], w["file"]) in UNINIT_SUPPRESS:
                    r.add("%s::%s::%s" % (key0, w["file"], w["var"]), "%s:%d" % (w["file"], w["line"]), True,
                          "suppressed (infeasible path; invariant checked by R-C06-1): " + w["msg"], nontrivial=False)
                else:
                    live.append(w)
            for w in live:
                r.add("%s::%s::%s" % (key0, w["file"], w["var"]), "%s:%d" % (w["file"], w["line"]), False,
                      "in the %s configuration %s" % ("NDEBUG" if cfg == "N" else "assertion-enabled", w["msg"]))
            r.add(key0 + "::units", which, True, "%d units analysed, %d unsuppressed reports" % (nunits, len(live)))
    return r


def run(ctx):
    progsA = [ctx.prog("dfs", "A"), ctx.prog("basic", "A")]
    progsN = [ctx.prog("dfs", "N"), ctx.prog("basic", "N")]
    return [rule_assert_purity(progsA), rule_same_program(progsN, progsA),
            rule_uninit(ctx, ["dfs", "basic"])]


def _fx_purity(prog, fixture=True):
    return rule_assert_purity([prog], fixture=True)


SELFTESTS = [
    (_fx_purity, ["c19_bad.c"], ["c19_good.c"], "set_dialect", "A"),
]
