"""C06 - track decoding never returns damaged or misaddressed sector data.

R-C06-1  CRC gating in both decoders: (i) the record-wanted state is entered
         only on the success edges of the ID-field CRC test and of the ID
         decoder; (ii) a sector is yielded only while record-wanted and after
         the data CRC was found good (Boolean facts, unit propagation);
         (iii) every pass through the record-wanted branch leaves the decoder
         header-wanted again (the held ID is consumed exactly once)
R-C06-2  every decision on a CRC register read tests the whole register for
         zero (no mask, shift, narrowing or non-zero comparand in between)
R-C06-3  in both read_all_sectors functions, decoded sectors are appended to
         the result only on the success edge of check_track_is_supported
R-C06-4  both flux adapters select the sector they return by comparing its
         address (directly, or in the helper that finds it) - sibling rule
R-C06-5  in the FM and MFM decoders the data mark is accepted only within a bounded
         distance of the ID field that was just verified
R-C06-6  check_track_is_supported establishes head, cylinder and data-size
         equality for every sector (must-facts at the end of each iteration)
"""
from ..runner import RuleResult
from ..facts import AnalysisBroken
from ..model import strip, strip_all, walk, show, notpl, is_call, call_args
from .. import flow
from ..flow import Guards, PathStates, canon, folded, same_expr, atomise

EXPLANATION = (
    "Static decision of the gating clauses of C06 for every bit-stream: in decode_fm_track and decode_mfm_track a "
    "sector can be pushed only on paths where the ID CRC and ID decode succeeded (state entry), the decoder is in "
    "the record-wanted state, and the data CRC of the buffer being yielded was found zero/valid; the held ID is "
    "consumed by every pass through the record branch; track validation dominates every append of decoded "
    "sectors; the image-level adapters look sectors up by address.  Not decided: that scan_for finds the right "
    "bits (sync patterns, bit order) - a property of the decoded data.")
ASSUMPTIONS = ["the CRC helpers compute CRC-16/CCITT (their step function is checked under C02)",
               "clang CFG; enum-valued state variable is only changed by direct assignment"]

DECODERS = ["Track::decode_fm_track", "Track::decode_mfm_track"]


def _state_var(fn):
    """The enum-typed local the decoder switches on: the variable compared or
    switched on whose values are enumerators of a local enum with 2+ values."""
    cand = {}
    for n in fn.walk():
        if n.get("k") == "VarDecl" and "DecodeState" in (n.get("ct") or n.get("t") or ""):
            cand[n["d"]] = n
    if len(cand) != 1:
        raise AnalysisBroken("cannot identify the decoder state variable in %s (%d candidates)" % (fn.qn, len(cand)))
    return list(cand.values())[0]


def _push_sites(fn):
    for n in fn.walk():
        if n.get("k") == "CXXMemberCallExpr":
            callee = strip(n["c"][0])
            if callee and callee.get("n") in ("push_back", "emplace_back") and callee.get("c"):
                obj = strip_all(callee["c"][0])
                t = obj.get("ct") or obj.get("t") or ""
                if "Sector" in t and "vector" in t:
                    yield n, obj, n["c"][1] if len(n["c"]) > 1 else None


def _crc_ok_facts(fn, g, node):
    """Expressions (buffers) whose CRC is known good at node.
    Idioms: check_crc_with_a1s(buf, ..) true;  v == 0 / !v with v = get_crc(buf);
    v == 0 with v = crc.get() where crc.update(..buf..) was called."""
    out = []
    ts = g.truths(node) or []
    cs = g.cmps(node) or []
    zero_vars = []
    for atom, truth in ts:
        a = strip_all(atom)
        if truth and is_call(a) and "crc" in notpl(a.get("q") or "").lower() and "check" in notpl(a.get("q") or "").lower():
            args = call_args(a)
            if args:
                out.append(args[0])
        if not truth and a.get("k") == "DeclRefExpr":
            zero_vars.append(a)
        if not truth and is_call(a) and "crc" in notpl(a.get("q") or "").lower():
            args = call_args(a)
            if args:
                out.append(args[0])
    for l, rel, r in cs:
        if rel == "==" and folded(r) == 0:
            a = strip_all(l)
            if a.get("k") == "DeclRefExpr":
                zero_vars.append(a)
            elif is_call(a) and "crc" in notpl(a.get("q") or "").lower():
                args = call_args(a)
                if args:
                    out.append(args[0])
    for v in zero_vars:
        # how was v computed?
        for n in fn.walk():
            if n.get("k") == "VarDecl" and n.get("d") == v.get("d") and n.get("c"):
                init = strip_all(n["c"][0])
                while init is not None and init.get("k") == "CXXConstructExpr" and len(init.get("c", [])) == 1:
                    init = strip_all(init["c"][0])
                if init is None or not is_call(init):
                    continue
                q = notpl(init.get("q") or "")
                if "crc" in q.lower() and call_args(init) and init.get("k") == "CallExpr":
                    fed = _crc_fed_args(fn, init)
                    out.extend(fed if fed else [call_args(init)[0]])           # get_crc(buf)
                elif init.get("k") == "CXXMemberCallExpr":
                    callee = strip(init["c"][0])
                    if callee and callee.get("n") == "get" and callee.get("c"):
                        crcobj = strip_all(callee["c"][0])
                        ct = crcobj.get("ct") or crcobj.get("t") or ""
                        if "CRC" in ct.upper():
                            # buffers fed to this crc object
                            for u in fn.walk():
                                if u.get("k") == "CXXMemberCallExpr":
                                    cal = strip(u["c"][0])
                                    if cal and cal.get("n") == "update" and cal.get("c") and \
                                            same_expr(cal["c"][0], crcobj):
                                        for a in call_args(u):
                                            out.append(a)
    return out


def _crc_fed_args(fn, call):
    """The arguments of a call to a repo CRC helper that the helper feeds to a CRC object's update()."""
    prog = getattr(fn, "prog", None)
    if prog is None:
        return []
    out = []
    for t in prog.call_targets(fn, call):
        args = call_args(call)
        for i, p_ in enumerate(t.params):
            if i >= len(args):
                continue
            for u in t.walk():
                if u.get("k") == "CXXMemberCallExpr" and (strip(u["c"][0]) or {}).get("n") == "update" and \
                        any(x.get("k") == "DeclRefExpr" and x.get("d") == p_["d"] for a in call_args(u) for x in walk(a)):
                    out.append(args[i])
                    break
    return out


def _mentions_expr(hay, needle):
    """Does expression tree `hay` contain a sub-expression structurally equal to `needle`?"""
    ns = strip_all(needle)
    for x in walk(hay):
        if x.get("k") == ns.get("k") and same_expr(x, ns):
            return True
    return False


def _id_validated_problems(prog, fn, g, n, depth=0):
    """Why the facts at node n do not establish "ID field decoded and its CRC good" ([] if they do).
    Either directly (decode_sector_address_and_size succeeded on a buffer whose CRC was found good), or
    through a helper that returns true only where that is established."""
    ts = g.truths(n) or []
    dec_ok = None
    for atom, truth in ts:
        a = strip_all(atom)
        if truth and is_call(a) and "decode_sector_address" in notpl(a.get("q") or ""):
            dec_ok = a
    if dec_ok is None and n.get("k") == "ReturnStmt" and n.get("c"):
        # `return decode(...)` / `const bool ok = decode(...); ...; return ok;`: the function reports success
        # exactly when the decoder did
        e = strip_all(n["c"][0])
        if e is not None and e.get("k") == "DeclRefExpr" and e.get("d") in getattr(g, "bool_defs", {}):
            e = strip_all(g.bool_defs[e["d"]])
        if e is not None and is_call(e) and "decode_sector_address" in notpl(e.get("q") or ""):
            dec_ok = e
    problems = []
    if dec_ok is not None:
        crc_bufs = _crc_ok_facts(fn, g, n)
        idbuf = call_args(dec_ok)[0]
        if not any(_mentions_expr(idbuf, b) or _mentions_expr(b, idbuf) for b in crc_bufs):
            problems.append("no successful CRC check of the ID field (%s) dominates it" % show(idbuf))
        return problems
    if depth < 2:
        for atom, truth in ts:
            a = strip_all(atom)
            if not (truth and a is not None and a.get("k") == "CallExpr"):
                continue
            for t in prog.call_targets(fn, a):
                gt = Guards(t)
                rets = [m for m in t.walk() if m.get("k") == "ReturnStmt" and m.get("c") and folded(m["c"][0]) != 0]
                if rets and all(not _id_validated_problems(prog, t, gt, m, depth + 1) for m in rets):
                    return []
    return ["the ID decoder's success is not established"]


def _iteration_states(fn, g, did, init, assigns):
    """PathStates over (state at the start of this pass of the decoder loop, state now)."""
    cached = getattr(fn, "_c06_iter_states", None)
    if cached is not None:
        return cached
    loop_conds = set()
    for n in fn.walk():
        if n.get("k") == "WhileStmt":
            # the outer decoder loop: contains assignments to state
            if any(a[0]["i"] in set(x["i"] for x in walk(n)) for a in assigns):
                c = n["c"][n["parts"]["cond"]]
                loop_conds.add(strip(c)["i"])
                loop_conds.add(c["i"])
    svk = "d%s" % did

    def elem_tf(n, t):
        start, now = t
        if n["i"] in loop_conds:
            return (now, now)
        if n.get("k") == "BinaryOperator" and n.get("op") == "=" and strip_all(n["c"][0]).get("d") == did:
            v = folded(n["c"][1])
            return (start, v if v is not None else "?")
        return t

    def edge_tf(facts_, t):
        start, now = t
        for k in facts_:
            if k[0] == "S" and k[1] == svk and k[2] != "default":
                if now not in ("?", k[2]):
                    return None
                now = k[2]
                if start == "?":
                    start = now
            if k[0] == "C" and svk in (k[1], k[3]):
                other = k[3] if k[1] == svk else k[1]
                if other.startswith("#"):
                    v = int(other[1:])
                    if k[2] == "==":
                        if now not in ("?", v):
                            return None
                        now = v
                    elif k[2] == "!=" and now == v:
                        return None
        return (start, now)
    ps = PathStates(fn, (init, init), elem_tf, edge_tf, guards=g)
    ps.loop_conds = loop_conds
    fn._c06_iter_states = ps
    return ps


def rule_crc_gating(prog, fixture=False):
    r = RuleResult("R-C06-1", "decoder typestate: record-wanted is entered only after the ID CRC and ID decode "
                   "succeeded; a sector is pushed only while record-wanted and with a good data CRC; each pass "
                   "through the record branch returns the decoder to header-wanted", floor=0 if fixture else 6)
    for q in DECODERS:
        fns = prog.fn(q, required=not fixture)
        for fn in fns:
            sv = _state_var(fn)
            did = sv["d"]
            g = Guards(fn)
            # enumerators: initial value = header-wanted; the other = record-wanted
            init = folded(sv["c"][0]) if sv.get("c") else None
            if init is None:
                raise AnalysisBroken("decoder state in %s has no constant initial value" % fn.qn)
            assigns = []
            for n in fn.walk():
                if n.get("k") == "BinaryOperator" and n.get("op") == "=" and strip_all(n["c"][0]).get("d") == did:
                    assigns.append((n, folded(n["c"][1])))
            rec_vals = set(v for _, v in assigns if v is not None and v != init)
            if len(rec_vals) != 1:
                raise AnalysisBroken("cannot identify the record-wanted state value in %s" % fn.qn)
            REC = list(rec_vals)[0]
            # (i) entry into REC
            for n, v in assigns:
                if v != REC:
                    continue
                key = "%s::%s::enter-record-state" % (fn.relfile(), fn.qn)
                problems = _id_validated_problems(prog, fn, g, n)
                r.add(key, fn.loc(n), not problems, "ID CRC good and ID decoded on all paths" if not problems else
                      "the decoder starts waiting for a data record although " + " and ".join(problems) +
                      ": a damaged ID could address the next record")
            # (ii) pushes
            for n, vec, arg in _push_sites(fn):
                key = "%s::%s::push" % (fn.relfile(), fn.qn)
                fs = g.at(n)
                if fs is None:
                    continue
                in_rec = False
                # the state variable may already have been set for the next round: what counts is the
                # state this pass of the loop was entered with (tracked path-sensitively below)
                sts = _iteration_states(fn, g, did, init, assigns).before(n)
                if sts and all(start == REC for (start, now) in sts):
                    in_rec = True
                for k in fs:
                    if k[0] == "S" and k[1] == "d%s" % did and k[2] == REC:
                        in_rec = True
                    if k[0] == "C" and k[2] == "==" and ("d%s" % did) in (k[1], k[3]) and ("#%s" % REC) in (k[1], k[3]):
                        in_rec = True
                    if k[0] == "C" and k[2] == "!=" and ("d%s" % did) in (k[1], k[3]) and ("#%s" % init) in (k[1], k[3]):
                        in_rec = True
                crc_bufs = _crc_ok_facts(fn, g, n)
                # data being pushed: <arg>.data ; its sources
                data_ok = False
                pushed = strip_all(arg) if arg is not None else None
                srcs = []
                for u in fn.walk():
                    # std::copy(src.begin()+.., .., sec.data.begin())
                    if u.get("k") == "CallExpr" and notpl(u.get("q") or "") == "std::copy":
                        a = call_args(u)
                        if len(a) == 3 and any(x.get("k") == "MemberExpr" and x.get("n") == "data" for x in walk(a[2])):
                            srcs.append(a[0])
                    # sec.data.assign(src.begin()+.., ..) / sec.data = vector(src.begin()+.., ..)
                    if u.get("k") == "CXXMemberCallExpr" and (strip(u["c"][0]) or {}).get("n") == "assign" and len(u["c"]) >= 3:
                        recv = (strip(u["c"][0]) or {}).get("c", [None])[0]
                        if recv is not None and any(x.get("k") == "MemberExpr" and x.get("n") == "data" for x in walk(recv)):
                            srcs.append(u["c"][1])
                # a source given through a never-reassigned local (an iterator `body = buf.begin() + 1`)
                more = []
                for s_ in srcs:
                    for y in walk(s_):
                        if y.get("k") == "DeclRefExpr" and y.get("dk") == "Var" and \
                                not any(d_ == y["d"] for x in fn.walk() for d_, _ in flow.written_decls(x)):
                            for v in fn.walk():
                                if v.get("k") == "VarDecl" and v.get("d") == y["d"] and v.get("c"):
                                    more.append(v["c"][0])
                srcs = srcs + more
                for b in crc_bufs:
                    if any(x.get("k") == "MemberExpr" and x.get("n") == "data" and pushed is not None and
                           any(y.get("k") == "DeclRefExpr" and y.get("d") == pushed.get("d") for y in walk(x))
                           for x in walk(b)):
                        data_ok = True      # the sector's own data buffer was CRC-checked
                    for s in srcs:
                        bs = strip_all(b)
                        if bs.get("k") == "DeclRefExpr" and any(y.get("k") == "DeclRefExpr" and y.get("d") == bs.get("d")
                                                                 for y in walk(s)):
                            data_ok = True  # copied from the CRC-checked buffer
                problems = []
                if not in_rec:
                    problems.append("the decoder is not known to be in the record-wanted state")
                if not data_ok:
                    problems.append("no good data-field CRC of the buffer being yielded holds on every path")
                r.add(key, fn.loc(n), not problems, "record-wanted and data CRC good" if not problems else
                      "a sector is yielded although " + " and ".join(problems))
            # (iii) the ID is consumed: iteration that starts record-wanted ends header-wanted
            ps = _iteration_states(fn, g, did, init, assigns)
            loop_conds = ps.loop_conds
            bad = False
            for cid in loop_conds:
                n = fn.nodes.get(cid)
                if n is None or cid not in fn.where():
                    continue
                b, idx = fn.where()[cid]
                # states arriving over back edges = all IN states of the loop-head block except the initial entry
                for (start, now) in ps.IN.get(b, set()):
                    if start == REC and now == REC:
                        bad = True
            key = "%s::%s::id-consumed" % (fn.relfile(), fn.qn)
            r.add(key, "%s:%d" % (fn.relfile(), fn.line), not bad, "every pass through the record branch resets the state" if not bad else
                  "a pass through the record-wanted branch can leave the decoder record-wanted: the held ID would be "
                  "paired with the data field of a later sector")
    return r


def rule_track_validation(prog, fixture=False):
    r = RuleResult("R-C06-3", "decoded sectors are appended to an image's sector list only on the success edge "
                   "of check_track_is_supported for that same list", floor=0 if fixture else 2)
    for fn in prog.functions.values():
        if not fn.qn.endswith("read_all_sectors"):
            continue
        g = Guards(fn)
        for n in fn.walk():
            if n.get("k") != "CallExpr" or notpl(n.get("q") or "") != "std::copy":
                continue
            a = call_args(n)
            if len(a) != 3 or not any(x.get("k") == "CallExpr" and "back_inserter" in (x.get("q") or "") for x in walk(a[2])):
                continue
            src = None
            for x in walk(a[0]):
                if x.get("k") == "DeclRefExpr" and x.get("dk") == "Var":
                    src = x
            # only appends of decoded sectors (vector<Sector>)
            if src is None or "Sector" not in (src.get("ct") or src.get("t") or ""):
                continue
            ok = False
            for atom, truth in (g.truths(n) or []):
                at = strip_all(atom)
                if truth and is_call(at) and notpl(at.get("q") or "").endswith("check_track_is_supported"):
                    if any(x.get("k") == "DeclRefExpr" and x.get("d") == src.get("d") for x in walk(call_args(at)[0])):
                        ok = True
            key = "%s::%s::append(%s)" % (fn.relfile(), fn.qn, src.get("n"))
            r.add(key, fn.loc(n), ok, "dominated by successful track validation" if ok else
                  "sectors of `%s` are appended without check_track_is_supported having succeeded on every path: "
                  "duplicate, misplaced or wrongly sized sectors would be served" % src.get("n"))
    return r


def rule_address_lookup(prog, fixture=False):
    r = RuleResult("R-C06-4", "each flux-image adapter returns the data of a sector selected by comparing its "
                   "recorded address with the address wanted (directly or in the helper that finds it)",
                   floor=0 if fixture else 2)
    for fn in prog.functions.values():
        if not fn.qn.endswith("DataAccessAdapter::read_block"):
            continue
        g = Guards(fn)
        key = "%s::%s" % (fn.relfile(), fn.qn)
        copies = []
        for n in fn.walk():
            if n.get("k") == "CallExpr" and notpl(n.get("q") or "") == "std::copy":
                a = call_args(n)
                if len(a) == 3 and any(x.get("k") == "MemberExpr" and x.get("n") == "data" for x in walk(a[0])):
                    copies.append(n)
        if not copies:
            r.add(key, "%s:%d" % (fn.relfile(), fn.line), False, "cannot find where the sector data is copied out")
            continue
        for n in copies:
            a = call_args(n)
            # the sector object whose .data is copied
            secobj = None
            for x in walk(a[0]):
                if x.get("k") == "MemberExpr" and x.get("n") == "data" and x.get("c"):
                    secobj = x["c"][0]
            ok = False
            why = ""
            # (a) direct guard: a fact comparing <sec>.address
            for atom, truth in (g.truths(n) or []):
                if truth and any(x.get("k") == "MemberExpr" and x.get("n") == "address" for x in walk(atom)):
                    ok, why = True, "guarded by an address comparison"
            for l, rel, rr in (g.cmps(n) or []):
                if rel == "==" and any(x.get("k") == "MemberExpr" and x.get("n") == "address" for e in (l, rr) for x in walk(e)):
                    ok, why = True, "guarded by an address comparison"
            # (b) the sector comes from a helper that compares addresses
            if not ok and secobj is not None:
                root = None
                for x in walk(secobj):
                    if x.get("k") == "DeclRefExpr" and x.get("dk") == "Var":
                        root = x
                if root is not None:
                    for v in fn.walk():
                        if v.get("k") == "VarDecl" and v.get("d") == root.get("d") and v.get("c"):
                            for c in walk(v["c"][0]):
                                if is_call(c) and c.get("fn"):
                                    for t in prog.call_targets(fn, c):
                                        if _helper_compares_address(t, prog):
                                            ok, why = True, "found by %s, which compares addresses" % t.qn
                                # the search written out here: std::find_if with a predicate (a lambda of this
                                # function) that compares addresses
                                if c.get("k") == "CallExpr" and notpl(c.get("q") or "") in ("std::find_if", "std::find_if_not") \
                                        and _helper_compares_address(fn, prog):
                                    ok, why = True, "found by std::find_if with an address-comparing predicate"
            r.add(key + "::copy", fn.loc(n), ok, why if ok else
                  "the sector returned is not selected by its recorded address (e.g. taken by ordinal position): when "
                  "a damaged sector has been dropped, another sector's data is returned in its place")
    return r


# ---------------------------------------------------------------- R-C06-2
DECISION_OPS = {"==", "!=", "&&", "||"}


def _crc_value_uses(prog, fn, node, seen, out, origin):
    """Classify how the value computed by `node` (a CRC register read) is used.
    out gets (function, node, ok, text)."""
    cur = node
    while True:
        p = fn.parent(cur)
        if p is None:
            return
        k = p.get("k")
        if k in ("ImplicitCastExpr", "CStyleCastExpr", "CXXStaticCastExpr", "CXXFunctionalCastExpr", "ParenExpr",
                 "ExprWithCleanups", "ConstantExpr", "MaterializeTemporaryExpr", "CXXConstructExpr"):
            w = p.get("w")
            if w is not None and 1 < w < 16:
                out.append((fn, p, False, "the CRC register read at %s is narrowed to %d bits before it is tested" % (origin, w)))
                return
            if p.get("ck") == "IntegralToBoolean" or w == 1:
                out.append((fn, p, True, "whole register tested for zero"))
                return
            cur = p
            continue
        break
    if k == "ReturnStmt":
        if fn.uid in seen:
            return
        seen.add(fn.uid)
        n_callers = 0
        for g in prog.functions.values():
            for c in g.walk():
                if c.get("k") in ("CallExpr", "CXXMemberCallExpr") and c.get("fn") == fn.key and \
                        fn in prog.call_targets(g, c):
                    n_callers += 1
                    _crc_value_uses(prog, g, c, seen, out, origin)
        return
    if k == "VarDecl":
        did = p["d"]
        for u in fn.walk():
            if u.get("k") == "DeclRefExpr" and u.get("d") == did:
                _crc_value_uses(prog, fn, u, seen, out, origin)
        return
    if k in ("IfStmt", "WhileStmt", "ConditionalOperator", "DoStmt", "ForStmt"):
        out.append((fn, p, True, "whole register tested for zero"))
        return
    if k == "UnaryOperator" and p.get("op") == "!":
        out.append((fn, p, True, "whole register tested for zero"))
        return
    if k == "BinaryOperator" and p.get("op") in ("==", "!="):
        other = p["c"][1] if p["c"][0] is cur or strip(p["c"][0]) is strip(cur) else p["c"][0]
        if folded(other) == 0:
            out.append((fn, p, True, "whole register compared with zero"))
        else:
            out.append((fn, p, False, "the CRC register read at %s is compared with %s, not with zero" % (origin, show(other))))
        return
    if k == "BinaryOperator" and p.get("op") in ("&&", "||"):
        out.append((fn, p, True, "whole register tested for zero"))
        return
    if k == "CXXOperatorCallExpr" and p.get("op") == "<<":
        return  # printed in a diagnostic
    if k in ("CallExpr", "CXXMemberCallExpr"):
        return  # passed on (e.g. to a printing helper): not a decision
    out.append((fn, p, False, "the CRC register read at %s passes through `%s` before it is tested: a residue that is "
                "non-zero only in the discarded bits is accepted as a good CRC" % (origin, show(p)[:60])))


def rule_crc_whole_register(prog, fixture=False):
    r = RuleResult("R-C06-2", "every decision taken on a CRC register (CRC16Base::get()) tests the whole register "
                   "for zero: no mask, shift, narrowing cast or non-zero comparand between the read and the test",
                   floor=0 if fixture else 4)
    for fn in prog.functions.values():
        for n in fn.walk():
            if n.get("k") != "CXXMemberCallExpr":
                continue
            callee = strip(n["c"][0])
            if not callee or callee.get("n") != "get" or "CRC" not in notpl(n.get("q") or "").upper():
                continue
            # the property is about the CRC-16/CCITT of ID and data fields: reads of a CCITT register (the
            # tape/XMODEM CRC written into .inf files is reported, never tested)
            recv = strip_all(callee["c"][0]) if callee.get("c") else None
            rt = ((recv or {}).get("ct") or (recv or {}).get("t") or "")
            if "TapeCRC" in rt:
                continue
            origin = fn.loc(n)
            uses = []
            _crc_value_uses(prog, fn, n, set(), uses, origin)
            for i, (f, node, ok, text) in enumerate(uses):
                key = "%s::%s::crc-read@%s#%d" % (f.relfile(), f.qn, fn.qn.split("::")[-1], i + 1)
                r.add(key, f.loc(node), ok, text)
    for fn in prog.functions.values():
        if fn.name == "get" and "CRC" in (fn.cls or "").upper():
            rets = [n for n in fn.walk() if n.get("k") == "ReturnStmt" and n.get("c")]
            for n in rets:
                e = strip_all(n["c"][0])
                ok = e is not None and e.get("k") == "MemberExpr" and e.get("dk") == "Field"
                r.add("%s::%s::return" % (fn.relfile(), fn.qn), fn.loc(n), ok,
                      "returns the register itself" if ok else
                      "get() returns `%s`, not the whole CRC register" % show(e))
    return r


# ---------------------------------------------------------------- R-C06-6
def _mentions_member(e, names):
    return any(x.get("k") == "MemberExpr" and x.get("n") in names for x in walk(e))


def _is_size_of_data(e):
    for x in walk(e):
        if x.get("k") == "CXXMemberCallExpr":
            cal = strip(x["c"][0])
            if cal and cal.get("n") == "size" and cal.get("c") and _mentions_member(cal["c"][0], {"data"}):
                return True
    return False


TRACK_CHECKS = [
    ("head", lambda e: _mentions_member(e, {"head"}), "the head number of every sector equals the side being read"),
    ("cylinder", lambda e: _mentions_member(e, {"cylinder"}), "the cylinder number of every sector equals the track being read"),
    ("data-size", _is_size_of_data, "the data size of every sector equals the supported sector size"),
]


def rule_track_checks_unconditional(prog, fixture=False, rule_id="R-C06-6"):
    r = RuleResult(rule_id, "check_track_is_supported validates head, cylinder and data size of every sector: at "
                   "the end of each iteration of its per-sector loop the three equalities are must-facts (no "
                   "check is skipped under a side condition)", floor=0 if fixture else 3)
    for fn in prog.fnby("check_track_is_supported", required=not fixture):
        loops = [n for n in fn.walk() if n.get("k") == "CXXForRangeStmt" and "inc" in n.get("parts", {})]
        loops = [n for n in loops if "Sector" in ((([x for x in walk(n["c"][n["parts"]["loopvar"]])
                                                     if x.get("k") == "VarDecl"] or [{}])[0]).get("t") or "")]
        if len(loops) != 1:
            r.undecided.append("%s: cannot identify the per-sector loop (%d candidates)" % (fn.qn, len(loops)))
            continue
        loop = loops[0]
        g = Guards(fn)
        incpos = g.position(loop["c"][loop["parts"]["inc"]])
        if incpos is None:
            r.undecided.append("%s: loop increment not found in the CFG" % fn.qn)
            continue
        inc = incpos[0]
        preds = [p for p in fn.cfg.pred[inc] if g.out_facts(p) is not None]
        if not preds:
            r.undecided.append("%s: loop body never completes an iteration" % fn.qn)
            continue
        for name, pred, text in TRACK_CHECKS:
            key = "%s::%s::%s" % (fn.relfile(), fn.qn, name)
            ok = True
            for p in preds:
                fs = g.edge(p, inc) or set()
                have = False
                for k in fs:
                    if k[0] == "C" and k[2] == "==":
                        f = g.rep[k]
                        if pred(f[1]) or pred(f[3]):
                            have = True
                if not have:
                    ok = False
            if not ok:
                # is the comparison there at all?
                anywhere = any(n.get("k") == "BinaryOperator" and n.get("op") in ("==", "!=") and
                               (pred(n["c"][0]) or pred(n["c"][1])) for n in fn.walk())
                if not anywhere and any(pred(c) for n in fn.walk() if is_call(n) and prog.call_targets(fn, n)
                                        for t in prog.call_targets(fn, n) for c in [t.body]):
                    r.undecided.append("%s: the %s check is made in a helper this rule does not follow" % (fn.qn, name))
                    continue
                msg = ("%s is not established on every path through the per-sector loop: the comparison is %s, so a "
                       "track with a misplaced or wrongly sized sector is accepted" %
                       (text, "skipped under a side condition" if anywhere else "missing"))
                r.add(key, fn.loc(loop), False, msg)
            else:
                r.add(key, fn.loc(loop), True, text)
    return r


def _helper_compares_address(f, prog=None):
    """The helper selects by address: an `if` on an address comparison, or a standard search
    algorithm whose predicate (a lambda inside the helper) compares addresses."""
    for n in f.walk():
        if n.get("k") == "IfStmt":
            cond = n["c"][n["parts"]["cond"]]
            if any(x.get("k") == "MemberExpr" and x.get("n") == "address" for x in walk(cond)):
                return True
    if prog is not None:
        uses_search = any(n.get("k") == "CallExpr" and notpl(n.get("q") or "") in
                          ("std::find_if", "std::find_if_not", "std::any_of", "std::lower_bound", "std::partition_point")
                          for n in f.walk())
        if uses_search:
            for lam in prog.lambdas_in(f):
                for n in lam.walk():
                    if n.get("k") == "ReturnStmt" and n.get("c"):
                        e = n["c"][0]
                        cmp_ = any((x.get("k") == "CXXOperatorCallExpr" and x.get("op") == "==") or
                                   (x.get("k") == "BinaryOperator" and x.get("op") == "==") for x in walk(e))
                        if cmp_ and any(x.get("k") == "MemberExpr" and x.get("n") == "address" for x in walk(e)):
                            return True
    return False


def rule_fm_mark_distance(prog, fixture=False):
    r = RuleResult("R-C06-5", "in the FM and MFM decoders the data field is read only when the data address mark lies "
                   "within a bounded distance of the ID field just verified (a position saved when the ID was "
                   "accepted is compared with the current position)", floor=0 if fixture else 2)
    for fn in prog.fn("Track::decode_fm_track", required=not fixture) + \
            prog.fn("Track::decode_mfm_track", required=not fixture):
        sv = _state_var(fn)
        did = sv["d"]
        g = Guards(fn)
        # position variables saved where the record state is entered
        saved = set()
        for n in fn.walk():
            if n.get("k") == "BinaryOperator" and n.get("op") == "=" and strip_all(n["c"][0]).get("d") == did:
                blk = fn.where().get(n["i"])
                if blk is None:
                    continue
                for e in flow.element_nodes(fn, blk[0]):
                    if e.get("k") == "BinaryOperator" and e.get("op") == "=" and e is not n:
                        t = strip_all(e["c"][0])
                        s = strip_all(e["c"][1])
                        if t.get("k") == "DeclRefExpr" and s.get("k") == "DeclRefExpr" and (s.get("w") or 0) >= 32:
                            saved.add((t["d"], s["d"]))
        for n, vec, arg in _push_sites(fn):
            key = "%s::%s::mark-distance" % (fn.relfile(), fn.qn)
            ok = False
            narrowed = None
            for l, rel, rr in (g.cmps(n) or []):
                if rel not in ("<", "<="):
                    continue
                ids = flow.decl_ids(l)
                # the distance may first be put into a local (possibly scaled by a constant): follow it,
                # but a local narrower than the positions it is computed from loses the high part
                ls = strip_all(l)
                if ls is not None and ls.get("k") == "DeclRefExpr" and ls.get("dk") == "Var":
                    for v in fn.walk():
                        if v.get("k") == "VarDecl" and v.get("d") == ls.get("d") and v.get("c"):
                            ids2 = flow.decl_ids(v["c"][0])
                            if any(sv_ in ids2 and cur in ids2 for sv_, cur in saved):
                                if (v.get("w") or 0) >= 32:
                                    ids = ids | ids2
                                else:
                                    narrowed = v
                # the bound is a constant, directly or as a constant-initialised local
                bound_const = folded(rr) is not None
                if not bound_const:
                    rs = strip_all(rr)
                    if rs is not None and rs.get("k") == "DeclRefExpr":
                        for v in fn.walk():
                            if v.get("k") == "VarDecl" and v.get("d") == rs.get("d") and v.get("c") and folded(v["c"][0]) is not None:
                                bound_const = True
                if any(sv_ in ids and cur in ids for sv_, cur in saved) and bound_const:
                    ok = True
            if not ok and narrowed is not None:
                r.add(key, fn.loc(n), False, "the distance from the ID field is kept in `%s`, a %d-bit value: distances "
                      "are compared modulo %d, so a data field a multiple of that further on is accepted under this ID" %
                      (narrowed.get("n"), narrowed.get("w") or 0, 1 << (narrowed.get("w") or 0)))
                continue
            r.add(key, fn.loc(n), ok, "distance from ID field to data mark is bounded" if ok else
                  "nothing bounds the distance between the verified ID field and the data mark that is accepted: if "
                  "a sector's own data mark is damaged, the data field of the next sector is returned under this ID")
    return r


# ---------------------------------------------------------------- R-C06-7
class _NoValue(Exception):
    pass


def _ceval(fn, e, is_input, value, depth=0):
    """Value of an integer/bool expression in which the expressions selected by is_input stand for `value` and
    every other operand is a constant or a never-reassigned local with such an initialiser."""
    e = strip_all(e)
    if e is None or depth > 12:
        raise _NoValue("depth")
    if is_input(e):
        return value
    v = folded(e)
    if v is not None:
        return v
    k = e.get("k")
    if k in ("CStyleCastExpr", "CXXStaticCastExpr", "CXXFunctionalCastExpr", "ImplicitCastExpr", "ParenExpr") and e.get("c"):
        x = _ceval(fn, e["c"][0], is_input, value, depth + 1)
        w = e.get("w")
        if w and not e.get("sg"):
            x &= (1 << w) - 1
        return x
    if k == "DeclRefExpr" and e.get("dk") == "Var":
        if any(d_ == e["d"] for y in fn.walk() for d_, _ in flow.written_decls(y)):
            raise _NoValue("`%s` is reassigned" % e.get("n"))
        for vd in fn.walk():
            if vd.get("k") == "VarDecl" and vd.get("d") == e["d"] and vd.get("c"):
                return _ceval(fn, vd["c"][0], is_input, value, depth + 1)
        raise _NoValue("no initialiser for `%s`" % e.get("n"))
    if k == "ConditionalOperator":
        return _ceval(fn, e["c"][1] if _ceval(fn, e["c"][0], is_input, value, depth + 1) else e["c"][2], is_input, value, depth + 1)
    if k == "UnaryOperator" and e.get("op") in ("!", "~", "-"):
        x = _ceval(fn, e["c"][0], is_input, value, depth + 1)
        return int(not x) if e["op"] == "!" else (~x if e["op"] == "~" else -x)
    if k == "BinaryOperator":
        op = e.get("op")
        a = _ceval(fn, e["c"][0], is_input, value, depth + 1)
        if op == "&&":
            return int(bool(a) and bool(_ceval(fn, e["c"][1], is_input, value, depth + 1)))
        if op == "||":
            return int(bool(a) or bool(_ceval(fn, e["c"][1], is_input, value, depth + 1)))
        b = _ceval(fn, e["c"][1], is_input, value, depth + 1)
        table = {"==": lambda: int(a == b), "!=": lambda: int(a != b), "<": lambda: int(a < b), "<=": lambda: int(a <= b),
                 ">": lambda: int(a > b), ">=": lambda: int(a >= b), "&": lambda: a & b, "|": lambda: a | b,
                 "^": lambda: a ^ b, "+": lambda: a + b, "-": lambda: a - b, "<<": lambda: a << b, ">>": lambda: a >> b,
                 "*": lambda: a * b}
        if op in ("/", "%") and b:
            # C semantics: truncation towards zero
            q_ = abs(a) // abs(b) * (1 if (a >= 0) == (b >= 0) else -1)
            return q_ if op == "/" else a - q_ * b
        if op in table:
            return table[op]()
    raise _NoValue("expression `%s`" % show(e)[:40])


def _fm_split(p):
    """(clock byte, data byte) of a 16-bit FM cell pattern: clock and data bits alternate, clock first."""
    clock = data = 0
    for i in range(8):
        clock |= ((p >> (2 * i + 1)) & 1) << i
        data |= ((p >> (2 * i)) & 1) << i
    return clock, data


def rule_fm_mark_is_checked_mark(prog, fixture=False):
    r = RuleResult("R-C06-7", "FM decoder: the data-address-mark byte that is fed to the CRC is the mark that was "
                   "recorded - for every 16-bit cell pattern the mark search accepts, the byte placed ahead of the "
                   "data field in the CRC computation equals the pattern's data bits and its clock bits are the "
                   "mark clock 0xC7 (all patterns the scan mask admits are enumerated)", floor=0 if fixture else 2)

    def unwrap(e):
        e = strip_all(e)
        for _ in range(4):
            if e is not None and e.get("k") in ("CXXConstructExpr", "CXXTemporaryObjectExpr", "CXXFunctionalCastExpr",
                                                "CXXBindTemporaryExpr") and len(e.get("c", [])) == 1:
                e = strip_all(e["c"][0])
        return e
    for sf in prog.functions.values():
        scans = [n for n in sf.walk() if n.get("k") == "CXXMemberCallExpr" and (strip(n["c"][0]) or {}).get("n") == "scan_for"]
        if len(scans) != 1 or len(scans[0]["c"]) < 4:
            continue
        pat, mask = folded(scans[0]["c"][2]), folded(scans[0]["c"][3])
        if pat is None or mask is None or (mask & 0xFFFF) == 0xFFFF:
            continue
        pat16, mask16 = pat & 0xFFFF, mask & 0xFFFF
        free = [i for i in range(16) if not (mask16 >> i) & 1]
        if len(free) > 8:
            r.undecided.append("%s: the scan mask leaves %d bits open" % (sf.loc(scans[0]), len(free)))
            continue
        cands = []
        for m in range(1 << len(free)):
            v = pat16 & mask16
            for j, i in enumerate(free):
                v |= ((m >> j) & 1) << i
            cands.append(v)
        res = [v for v in sf.walk() if v.get("k") == "VarDecl" and v.get("c") and any(x is scans[0] for x in walk(v))]
        if len(res) != 1:
            continue
        rd = res[0]["d"]

        def is_pattern(e, rd=rd):
            return e.get("k") == "MemberExpr" and e.get("n") == "second" and any(
                x.get("k") == "DeclRefExpr" and x.get("d") == rd for x in walk(e))

        def derived(e, depth=0):
            """e mentions the pattern, directly or through never-reassigned locals."""
            for y in walk(e):
                if is_pattern(y):
                    return True
                if depth < 3 and y.get("k") == "DeclRefExpr" and y.get("dk") == "Var" and y.get("d") != rd:
                    for v in sf.walk():
                        if v.get("k") == "VarDecl" and v.get("d") == y["d"] and v.get("c") and derived(v["c"][0], depth + 1):
                            return True
            return False
        other_writes = [y for y in sf.walk() if y.get("k") in ("BinaryOperator", "CompoundAssignOperator") and
                        y.get("op") in flow.ASSIGN_OPS and is_pattern(strip_all(y["c"][0]) or {}) and
                        not (y.get("op") == "&=" and folded(y["c"][1]) == 0xFFFF)]
        rets = [x for x in sf.walk() if x.get("k") == "ReturnStmt" and x.get("c") and derived(x["c"][0])]
        if other_writes or not rets:
            r.undecided.append("%s: the mark search does not hand back the pattern it found in a form this rule follows" % sf.loc(scans[0]))
            continue
        # which part of the returned value carries the pattern: the value itself, or a field of a record
        field = None
        rv = unwrap(rets[0]["c"][0])
        if rv is not None and rv.get("k") == "InitListExpr":
            idx = [i for i, c in enumerate(rv.get("c", [])) if derived(c)]
            rt = notpl((rv.get("t") or rv.get("ct") or "").replace("const ", "").replace("struct ", ""))
            rec = [rc for q_, rc in prog.records.items() if notpl(q_).split("::")[-1] == rt.split("::")[-1]]
            if len(idx) == 1 and rec and idx[0] < len(rec[0]["fields"]):
                field = rec[0]["fields"][idx[0]]["n"]
                pat_expr = rv["c"][idx[0]]
            else:
                r.undecided.append("%s: cannot tell which field of the returned record carries the pattern" % sf.loc(rets[0]))
                continue
        accepted = set()
        try:
            for v in cands:
                for ret in rets:
                    ok = True
                    labels = []
                    child = ret
                    for a in sf.ancestors(ret):
                        if a.get("k") == "IfStmt":
                            cond = a["c"][a["parts"]["cond"]]
                            if derived(cond):
                                sense = any(x is child for x in walk(a["c"][a["parts"]["then"]]))
                                if bool(_ceval(sf, cond, is_pattern, v)) != sense:
                                    ok = False
                        elif a.get("k") == "CaseStmt" and a.get("v") is not None:
                            labels.append(a["v"])
                        elif a.get("k") == "DefaultStmt":
                            labels.append("default")
                        elif a.get("k") == "SwitchStmt":
                            cond = a["c"][a["parts"]["cond"]] if a.get("parts") and "cond" in a["parts"] else a["c"][0]
                            if derived(cond):
                                if "default" in labels:
                                    raise _NoValue("return under a default label")
                                if _ceval(sf, cond, is_pattern, v) not in labels:
                                    ok = False
                            labels = []
                        child = a
                    if ok:
                        accepted.add(v)
        except _NoValue as e:
            r.undecided.append("%s: cannot evaluate the acceptance test of the mark search (%s)" % (sf.loc(rets[0]), e))
            continue
        # the caller: the variable holding the search result, and the mark byte given to the CRC first
        for fn in prog.functions.values():
            holders = [v for v in fn.walk() if v.get("k") == "VarDecl" and v.get("c") and
                       any(x.get("k") in ("CXXOperatorCallExpr", "CallExpr") and sf in prog.call_targets(fn, x) for x in walk(v))]
            for h in holders:
                hd = h["d"]

                def is_mark(e, hd=hd, field=field):
                    mentions = any(x.get("k") == "DeclRefExpr" and x.get("d") == hd for x in walk(e))
                    if field is not None:
                        return e.get("k") == "MemberExpr" and e.get("n") == field and mentions
                    if e.get("k") == "CXXOperatorCallExpr" and e.get("op") == "*" and len(e.get("c", [])) >= 2:
                        return (strip_all(e["c"][1]) or {}).get("d") == hd
                    if e.get("k") == "CXXMemberCallExpr" and (strip(e["c"][0]) or {}).get("n") == "value":
                        return mentions
                    return False
                seed = None
                for n in fn.walk():
                    if seed is not None:
                        break
                    if n.get("k") == "CXXMemberCallExpr" and (strip(n["c"][0]) or {}).get("n") == "update" and \
                            "CRC" in notpl((strip(n["c"][0]) or {}).get("q") or ""):
                        a0 = strip_all(n["c"][1]) if len(n["c"]) > 1 else None
                        if a0 is not None and a0.get("k") == "UnaryOperator" and a0.get("op") == "&":
                            a0 = strip_all(a0["c"][0])
                        if a0 is not None and a0.get("k") == "DeclRefExpr":
                            seed = a0
                    elif n.get("k") == "CallExpr" and "crc" in notpl(n.get("q") or "").lower():
                        for a in _crc_fed_args(fn, n):
                            sa = strip(a)
                            if sa is not None and (sa.get("w") == 8 or (strip_all(a) or {}).get("w") == 8):
                                seed = strip_all(a)
                                break
                if seed is None:
                    r.undecided.append("%s: cannot find the mark byte given to the CRC ahead of the data field" % fn.loc(h))
                    continue
                # an array `byte m[1] = { expr }` stands for its element
                elem = seed
                if seed.get("k") == "DeclRefExpr":
                    for vd in fn.walk():
                        if vd.get("k") == "VarDecl" and vd.get("d") == seed["d"] and vd.get("c"):
                            il = strip_all(vd["c"][0])
                            if il is not None and il.get("k") == "InitListExpr" and len(il.get("c", [])) == 1:
                                elem = il["c"][0]
                for v in sorted(accepted):
                    key = "%s::%s::mark 0x%04X" % (fn.relfile(), fn.qn, v)
                    clock, data = _fm_split(v)
                    try:
                        sv = _ceval(fn, elem, is_mark, v) & 0xFF
                    except _NoValue as e:
                        r.undecided.append("%s: cannot evaluate the mark byte given to the CRC (%s)" % (fn.loc(h), e))
                        break
                    ok = clock == 0xC7 and sv == data
                    r.add(key, sf.loc(rets[0]), ok, "clock 0xC7, data 0x%02X = the byte checked by the CRC" % data if ok else
                          "the mark search accepts the cell pattern 0x%04X (clock 0x%02X, data 0x%02X) but the CRC is computed as "
                          "if the mark byte were 0x%02X: a data field whose mark was damaged passes the CRC check and its "
                          "sector is returned as good" % (v, clock, data, sv))
    return r


def run(ctx):
    prog = ctx.prog("dfs", "N")
    return [rule_crc_gating(prog), rule_crc_whole_register(prog), rule_track_validation(prog),
            rule_address_lookup(prog), rule_fm_mark_distance(prog), rule_track_checks_unconditional(prog),
            rule_fm_mark_is_checked_mark(prog)]


SELFTESTS = [
    (rule_fm_mark_is_checked_mark, ["c06_mark_bad.cc"], ["c06_mark_good.cc"], "mark 0xF56B"),
    (rule_crc_gating, ["c06_bad.cc"], ["c06_good.cc"], "push"),
    (rule_crc_gating, ["c06_bad.cc"], ["c06_good.cc"], "enter-record-state"),
    (rule_address_lookup, ["c06_bad.cc"], ["c06_good.cc"], "read_block"),
    (rule_crc_whole_register, ["c06_crc_bad.cc"], ["c06_crc_good.cc"], "check_block"),
    (rule_crc_whole_register, ["c06_crc_bad.cc"], ["c06_crc_good.cc"], "low_crc"),
    (rule_track_checks_unconditional, ["c06_track_bad.cc"], ["c06_track_good.cc"], "data-size"),
]
