"""C13 - file-system variant and geometry are identified from the markers only.

R-C13-1  the "does a file start in sector 2" guard of the Watford test compares
         the full 10-bit start sector (bit-provenance domain, must equal the
         provenance of CatalogEntry::start_sector)
R-C13-2  decision table: on every path of probe_format (and of the Acorn test)
         that yields format F, the marker predicates have the outcomes the
         property states
R-C13-3  what identification reads: constant sector numbers read during
         probing are the confirmed marker sectors {1, 2, 16}
R-C13-4  Opus volume-table self-consistency checks that do not involve the
         geometry are not conditional on a geometry being supplied (the prober
         supplies none)
"""
from ..runner import RuleResult
from ..facts import AnalysisBroken
from ..model import strip, strip_all, walk, show, notpl, is_call, call_args
from ..bits import BV, Evaluator, Unsupported
from ..fields import catalog_input_hook, byte_bits, expected_bv, compare
from .. import flow
from ..flow import Guards, folded, decl_ids

EXPLANATION = (
    "Static decision of structural clauses of C13 for every disc: the Watford sector-2 guard uses all ten bits of "
    "each start sector (bit-provenance, exhaustive); every path of probe_format that returns a variant carries "
    "the marker-predicate outcomes of the property's decision table as branch facts; identification reads only "
    "the marker sectors by constant number; the Opus table's self-consistency checks run without a geometry.  "
    "Content-independence for arbitrary file bodies as such, and the geometry preference order, are not decided.")
ASSUMPTIONS = ["the predicates smells_like_* are the marker tests (their own bodies are checked by R-C13-1/4 and C02's layout)"]


def rule_watford_guard(prog, fixture=False):
    r = RuleResult("R-C13-1", "the value compared with 2 in the Watford test carries all ten bits of the entry's "
                   "start sector", floor=0 if fixture else 1)
    ev = Evaluator(prog, catalog_input_hook)
    for top in prog.fnby("smells_like_watford", required=not fixture):
        # the comparison may live in the function itself or in a helper it hands the catalogue sector to,
        # with the sector number 2 passed as an argument
        cands = [(top, {})]
        found_env = {}
        for n in top.walk():
            if is_call(n) and n.get("fn") and n.get("k") == "CallExpr":
                for t in prog.call_targets(top, n):
                    consts = {}
                    for p_, a in zip(t.params, call_args(n)):
                        if folded(a) is not None:
                            consts[p_["d"]] = folded(a)
                        elif not p_.get("w"):
                            # an array handed on by reference/pointer keeps denoting the caller's array
                            try:
                                found_env.setdefault(t.uid, {})[p_["d"]] = ev._pointer(top, a, {}, 0)
                            except Unsupported:
                                pass
                    cands.append((t, consts))
        found = None
        for fn, consts in cands:
            for n in fn.walk():
                if n.get("k") == "BinaryOperator" and n.get("op") == "==":
                    for a, b in ((n["c"][0], n["c"][1]), (n["c"][1], n["c"][0])):
                        bs = strip_all(b)
                        is_two = folded(b) == 2 or (bs.get("k") == "DeclRefExpr" and consts.get(bs.get("d")) == 2)
                        if is_two and folded(a) is None:
                            found = (fn, n, a)
        if found is None:
            r.undecided.append("smells_like_watford: no comparison of a catalogue value with sector 2 found (directly or in a helper)")
            continue
        fn, n, val = found
        env = dict(found_env.get(fn.uid, {}))
        # first iteration of the enclosing loop: the induction variable takes its initial value, and the
        # declarations of the loop body that precede the comparison are evaluated in order
        loop = None
        for a in fn.ancestors(n):
            if a.get("k") == "ForStmt":
                loop = a
                break
        try:
            if loop is not None and "init" in loop["parts"]:
                init = loop["c"][loop["parts"]["init"]]
                for x in walk(init):
                    if x.get("k") == "VarDecl" and x.get("c") and x.get("w") and folded(x["c"][0]) is not None:
                        env[x["d"]] = BV.const(folded(x["c"][0]), x["w"])
                    elif x.get("k") == "VarDecl" and x.get("c") and x.get("w") and "cond" in loop["parts"]:
                        # a loop that counts down from a value read from the catalogue: every pass applies the same
                        # formula to its entry number, so the pass at the loop's lower bound stands for all
                        conj = [strip_all(loop["c"][loop["parts"]["cond"]])]
                        while conj and conj[0] is not None and conj[0].get("k") == "BinaryOperator" and conj[0].get("op") == "&&":
                            c0 = conj.pop(0)
                            conj = [strip_all(c0["c"][0]), strip_all(c0["c"][1])] + conj
                        for cnd in conj:
                            if cnd is not None and cnd.get("k") == "BinaryOperator" and (strip_all(cnd["c"][0]) or {}).get("d") == x["d"] \
                                    and folded(cnd["c"][1]) is not None and cnd.get("op") in (">=", ">", "!="):
                                lo = folded(cnd["c"][1]) + (0 if cnd["op"] == ">=" else 1)
                                env[x["d"]] = BV.const(lo, x["w"])
                    elif x.get("k") == "BinaryOperator" and x.get("op") == "=" and folded(x["c"][1]) is not None:
                        t = strip_all(x["c"][0])
                        if t.get("k") == "DeclRefExpr" and t.get("w"):
                            env[t["d"]] = BV.const(folded(x["c"][1]), t["w"])
                body = loop["c"][loop["parts"]["body"]]
                for st in (body.get("c", []) if body.get("k") == "CompoundStmt" else []):
                    if any(x is n for x in walk(st)):
                        break
                    if st.get("k") == "DeclStmt":
                        res = ev._stmt(fn, st, {}, env, 0)
                        if len(res) != 1:
                            raise Unsupported("forking declaration")
                        env = res[0][1]
            got = ev._expr(fn, val, env, 0)
        except Unsupported as ex:
            r.undecided.append("cannot evaluate the start-sector expression of the Watford guard: %s" % ex)
            continue
        gv = got[0][1]
        w = max(gv.width, 16)
        want = expected_bv(byte_bits("s1", 15) + byte_bits("s1", 14, 0, 1), w)
        diff = compare(gv.resize(w), want)
        r.add("%s::%s::start==2" % (top.relfile(), top.qn), fn.loc(n), not diff,
              "all 10 bits of the start sector" if not diff else
              "the sector-2-in-use guard does not look at the whole start sector (%s): a file starting at sector "
              "0x102/0x202/0x302 is mistaken for one starting in sector 2, or vice versa" % "; ".join(diff[:3]))
    return r


# ---------------------------------------------------------------- R-C13-2
TABLE = {
    "HDFS": {"hdfs": True},
    "WDFS": {"watford": True, "hdfs": False},
    "OpusDDOS": {"opus_ddos": True, "hdfs": False, "watford": False},
    "DFS": {"acorn_dfs": True, "hdfs": False, "watford": False, "opus_ddos": False},
}
ACORN_TABLE = {"watford": False, "opus_ddos": False, "valid_dfs_catalog": True}


def _pred_outcomes(fn, g, node):
    out = {}
    for atom, truth in (g.truths(node) or []):
        a = strip_all(atom)
        if is_call(a):
            q = notpl(a.get("q") or "")
            for tag in ("smells_like_", "has_"):
                if tag in q:
                    out[q.split(tag)[-1]] = truth
    return out


def rule_decision_table(prog, fixture=False):
    r = RuleResult("R-C13-2", "every path that identifies a variant carries the marker-predicate outcomes of the "
                   "property's decision table", floor=0 if fixture else 5)
    for fn in prog.fnby("probe_format", required=not fixture):
        g = Guards(fn)
        for n in fn.walk():
            # an identifying point: `return <something naming Format::X>`, or the place where the result that is
            # returned later is given its value (`result.emplace(Format::X, ...)`, `result = make_pair(Format::X, ...)`)
            src = None
            if n.get("k") == "ReturnStmt" and n.get("c"):
                src = n["c"][0]
            elif n.get("k") == "CXXMemberCallExpr" and (strip(n["c"][0]) or {}).get("n") in ("emplace", "reset", "assign"):
                src = n
            elif n.get("k") == "CXXOperatorCallExpr" and n.get("op") == "=" and len(n["c"]) == 3:
                src = n["c"][2]
            if src is None:
                continue
            fmt = None
            for x in walk(src):
                if x.get("k") == "DeclRefExpr" and x.get("dk") == "EnumConstant" and "Format" in (x.get("q") or ""):
                    fmt = x.get("n")
            if fmt is None:
                continue
            got = _pred_outcomes(fn, g, n)
            want = TABLE.get(fmt)
            key = "%s::%s::return %s" % (fn.relfile(), fn.qn, fmt)
            if want is None:
                r.add(key, fn.loc(n), False, "unknown format %s returned" % fmt)
                continue
            missing = ["%s=%s" % (k, v) for k, v in want.items() if got.get(k) != v]
            r.add(key, fn.loc(n), not missing, "requires " + ", ".join("%s=%s" % kv for kv in want.items()) if not missing else
                  "%s is returned on a path where %s is not established (facts: %s): the variant no longer follows "
                  "from its markers alone" % (fmt, ", ".join(missing), got))
    for fn in prog.fnby("smells_like_acorn_dfs", required=not fixture):
        g = Guards(fn)
        for n in fn.walk():
            if n.get("k") == "ReturnStmt" and n.get("c") and folded(n["c"][0]) == 1:
                got = _pred_outcomes(fn, g, n)
                missing = ["%s=%s" % (k, v) for k, v in ACORN_TABLE.items() if got.get(k) != v]
                # HDFS bit clear
                hd = False
                for atom, truth in (g.truths(n) or []):
                    a = strip_all(atom)
                    if not truth and a.get("k") == "BinaryOperator" and a.get("op") == "&" and \
                            8 in (folded(a["c"][0]), folded(a["c"][1])):
                        hd = True
                if not hd:
                    missing.append("HDFS flag bit clear")
                r.add("%s::%s::return true" % (fn.relfile(), fn.qn), fn.loc(n), not missing,
                      "Acorn only without HDFS/Watford/Opus markers and with a valid catalogue" if not missing else
                      "Acorn DFS is accepted without establishing %s" % ", ".join(missing))
    return r


# ---------------------------------------------------------------- R-C13-3
MARKER_SECTORS = {1, 2, 16}


def rule_probe_reads(prog, fixture=False):
    r = RuleResult("R-C13-3", "identification reads, by constant number, only the marker sectors 1, 2 and 16",
                   floor=0 if fixture else 3)
    for fn in prog.functions.values():
        if not fn.relfile().endswith(("identify.cc", "opus_cat.cc")) and not fixture:
            continue
        for n in fn.walk():
            if n.get("k") == "CXXMemberCallExpr" and (strip(n["c"][0]) or {}).get("n") == "read_block" and len(n["c"]) > 1:
                v = folded(n["c"][1])
                if v is None:
                    continue
                r.add("%s::%s::read_block(%d)" % (fn.relfile(), fn.qn, v), fn.loc(n), v in MARKER_SECTORS,
                      "marker sector" if v in MARKER_SECTORS else
                      "identification reads sector %d, which is not a marker sector: the variant could depend on "
                      "file contents" % v)
    return r


# ---------------------------------------------------------------- R-C13-4
def rule_opus_selfcheck(prog, fixture=False):
    r = RuleResult("R-C13-4", "in the Opus volume-table constructor, a consistency check that does not use the "
                   "geometry is not skipped when no geometry is supplied", floor=0 if fixture else 3)
    for fn in prog.fnby("OpusDiscCatalogue::OpusDiscCatalogue", required=not fixture):
        gp = [p for p in fn.params if "Geometry" in (p.get("ct") or p.get("t") or "")]
        if not gp:
            raise AnalysisBroken("OpusDiscCatalogue constructor has no geometry parameter")
        gid = gp[0]["d"]
        g = Guards(fn)
        k = 0
        for n in fn.walk():
            if n.get("k") != "CXXThrowExpr":
                continue
            k += 1
            fs = g.at(n)
            if fs is None:
                continue
            guarded = ("T", "d%s" % gid, True) in fs
            uses = False
            for l, rel, rr in (g.cmps(n) or []):
                if gid in decl_ids(l) or gid in decl_ids(rr):
                    uses = True
            key = "%s::%s::check#%d" % (fn.relfile(), fn.qn, k)
            ok = (not guarded) or uses
            r.add(key, fn.loc(n), ok, "geometry-dependent check" if guarded else "unconditional self-consistency check" if ok else "",
                  nontrivial=True) if ok else \
                r.add(key, fn.loc(n), False,
                      "this self-consistency check does not involve the geometry but only runs when one is supplied; "
                      "the prober supplies none, so an inconsistent volume table in sector 16 is accepted as Opus DDOS")
    return r


# ---------------------------------------------------------------- R-C13-5
def rule_sides_from_hdfs_only(prog, fixture=False):
    r = RuleResult("R-C13-5", "bit 2 of byte 6 of sector 1 means 'two-sided' only on HDFS discs (elsewhere it belongs to "
                   "the sector count of a Watford large disc): the function geometry probing asks answers 'not "
                   "single-sided' only where the format is known to be HDFS", floor=0 if fixture else 1)
    hd = None
    for q, e in prog.enums.items():
        if notpl(q).endswith("Format"):
            for c in e.get("consts", []):
                if c["n"] == "HDFS":
                    hd = c["v"]
    for fn in prog.fnby("single_sided_filesystem", required=not fixture):
        fp = [p_ for p_ in fn.params if "Format" in (p_.get("t") or "")]
        if hd is None or not fp:
            r.undecided.append("single_sided_filesystem: format parameter or the HDFS enumerator not found")
            continue
        g = Guards(fn)
        k = 0
        for n in fn.walk():
            if n.get("k") != "ReturnStmt" or not n.get("c") or folded(n["c"][0]) != 0:
                continue
            k += 1
            ok = False
            for l, rel, rr in (g.cmps(n) or []):
                ls = strip_all(l)
                if rel == "==" and ls is not None and ls.get("k") == "DeclRefExpr" and ls.get("d") == fp[0]["d"] and folded(rr) == hd:
                    ok = True
            r.add("%s::%s::two-sided#%d" % (fn.relfile(), fn.qn, k), fn.loc(n), ok, "only for HDFS" if ok else
                  "`return false` (two-sided) can be reached for a format other than HDFS: on a Watford large disc the "
                  "same bit is part of the sector count, so geometry selection starts to depend on what is stored "
                  "where the other side's catalogue would be")
        if k == 0:
            r.add("%s::%s::never-two-sided" % (fn.relfile(), fn.qn), "%s:%d" % (fn.relfile(), fn.line), True, "always single-sided")
    return r


# ---------------------------------------------------------------- R-C13-7
def _root_decl(e):
    e = strip_all(e)
    for _ in range(6):
        if e is None:
            return None
        if e.get("k") == "UnaryOperator" and e.get("op") in ("&", "*"):
            e = strip_all(e["c"][0])
        elif e.get("k") in ("CXXConstructExpr", "CXXTemporaryObjectExpr", "CXXFunctionalCastExpr") and len(e.get("c", [])) == 1:
            e = strip_all(e["c"][0])
        elif e.get("k") == "MemberExpr" and e.get("c"):
            e = strip_all(e["c"][0])
        else:
            break
    return e.get("d") if e is not None and e.get("k") == "DeclRefExpr" else None


def rule_format_of_own_surface(prog, fixture=False):
    r = RuleResult("R-C13-7", "the format recorded for a surface (DriveConfig(format, device)) is the result of "
                   "identify_file_system applied to that same device in the same pass of the loop over the "
                   "surfaces - never a value carried over from another surface", floor=0 if fixture else 3)
    for fn in prog.functions.values():
        for n in fn.walk():
            if n.get("k") not in ("CXXConstructExpr", "CXXTemporaryObjectExpr") or \
                    notpl(n.get("cls") or "").split("::")[-1] != "DriveConfig" or len(n.get("c", [])) != 2:
                continue
            if fn.name == "DriveConfig":
                continue
            dev = _root_decl(n["c"][1])
            loop = None
            for a in fn.ancestors(n):
                if a.get("k") in ("ForStmt", "CXXForRangeStmt", "WhileStmt", "DoStmt"):
                    loop = a
                    break
            key = "%s::%s::DriveConfig@%d" % (fn.relfile(), fn.qn, len(r.instances) + 1)
            in_loop = {id(x) for x in walk(loop)} if loop is not None else set()
            body = loop["c"][loop["parts"]["body"]] if loop is not None and "body" in loop.get("parts", {}) else None
            in_body = {id(x) for x in walk(body)} if body is not None else set()
            problem, undec = None, None
            seen = set()
            todo = [n["c"][0]]
            leaves = 0
            while todo and problem is None:
                e = strip_all(todo.pop())
                for _ in range(4):
                    if e is not None and e.get("k") in ("CXXConstructExpr", "CXXTemporaryObjectExpr", "CXXFunctionalCastExpr",
                                                        "CXXBindTemporaryExpr") and len(e.get("c", [])) == 1:
                        e = strip_all(e["c"][0])
                if e is None or id(e) in seen:
                    continue
                seen.add(id(e))
                k = e.get("k")
                if k in ("CXXConstructExpr", "CXXTemporaryObjectExpr", "CXXNullPtrLiteralExpr") and not e.get("c"):
                    continue            # an empty optional: "unformatted"
                if k == "DeclRefExpr" and e.get("n") == "nullopt":
                    continue
                if k == "ConditionalOperator":
                    todo.append(e["c"][1])
                    todo.append(e["c"][2])
                    continue
                if k == "CallExpr" and notpl(e.get("q") or "").endswith("identify_file_system"):
                    a = call_args(e)
                    leaves += 1
                    if dev is not None and a and _root_decl(a[0]) != dev:
                        problem = "%s: the file system is identified on `%s` but recorded for `%s`" % (
                            fn.loc(e), show(a[0])[:30], show(n["c"][1])[:30])
                    elif loop is not None and id(e) not in in_body:
                        problem = "%s: the identification is made outside the loop over the surfaces" % fn.loc(e)
                    else:
                        # the call must be executed in every pass that uses it: not under a condition on state
                        # that survives from one pass to the next
                        for anc in fn.ancestors(e):
                            if id(anc) not in in_body:
                                break
                            if anc.get("k") == "IfStmt":
                                cond = anc["c"][anc["parts"]["cond"]]
                                for x in walk(cond):
                                    if x.get("k") == "DeclRefExpr" and x.get("dk") == "Var":
                                        decl_in_body = any(v.get("k") == "VarDecl" and v.get("d") == x["d"] and id(v) in in_body
                                                           for v in fn.walk())
                                        if not decl_in_body and any(d_ == x["d"] for y in walk(body) for d_, _ in flow.written_decls(y)):
                                            problem = "%s: whether the surface is probed depends on `%s`, which is carried " \
                                                      "over from the surfaces handled before" % (fn.loc(cond), x.get("n"))
                    continue
                if k == "DeclRefExpr" and e.get("dk") == "Var":
                    d = e["d"]
                    decl = [v for v in fn.walk() if v.get("k") == "VarDecl" and v.get("d") == d]
                    writes = [y for y in fn.walk() for d_, _ in flow.written_decls(y) if d_ == d]
                    if loop is not None and decl and id(decl[0]) not in in_body and any(id(y) in in_body for y in writes):
                        problem = "%s: the recorded format comes from `%s`, which is declared outside the loop over the " \
                                  "surfaces and assigned inside it: a later surface inherits the variant identified for " \
                                  "an earlier one instead of being identified from its own markers" % (fn.loc(e), e.get("n"))
                        continue
                    for v in decl:
                        if v.get("c"):
                            todo.append(v["c"][0])
                    for y in writes:
                        if y.get("op") == "=" and y.get("c"):
                            todo.append(y["c"][-1])
                        elif y.get("k") != "VarDecl":
                            undec = "%s: `%s` is written in a way this rule does not follow" % (fn.loc(y), e.get("n"))
                    continue
                if k == "DeclRefExpr" and e.get("dk") == "ParmVar":
                    continue        # a format chosen by the caller for this one device
                undec = "%s: cannot follow where the format `%s` comes from" % (fn.loc(e), show(e)[:40])
            if problem:
                r.add(key, fn.loc(n), False, problem)
            elif undec:
                r.undecided.append(undec)
            else:
                r.add(key, fn.loc(n), True, "identified on the same device, in the same pass (%d identification call%s)" %
                      (leaves, "" if leaves == 1 else "s"), nontrivial=leaves > 0)
    return r


# ---------------------------------------------------------------- R-C13-10
def rule_probe_ignores_bodies(prog, fixture=False):
    r = RuleResult("R-C13-10", "identification never reads where the catalogue entries point: in the probing functions no "
                   "read_block argument is computed from an entry's start_sector()/last_sector()/file_length() - what a "
                   "file body holds, or whether it is there at all, cannot change the variant a disc is taken for",
                   floor=0 if fixture else 3)
    ENTRY_POS = {"start_sector", "last_sector", "file_length"}
    for fn in prog.functions.values():
        if not (fn.relfile() == "dfs/identify.cc" or fixture):
            continue
        for n in fn.walk():
            if n.get("k") != "CXXMemberCallExpr" or (strip(n["c"][0]) or {}).get("n") != "read_block":
                continue
            key = "%s::%s::read_block#%d" % (fn.relfile(), fn.qn, len(r.instances) + 1)
            bad = None
            for a in call_args(n):
                for x in walk(a):
                    if x.get("k") == "CXXMemberCallExpr" and (strip(x["c"][0]) or {}).get("n") in ENTRY_POS and \
                            "CatalogEntry" in notpl((strip(x["c"][0]) or {}).get("q") or ""):
                        bad = x
                    if x.get("k") == "DeclRefExpr" and x.get("dk") == "Var":
                        for v in fn.walk():
                            if v.get("k") == "VarDecl" and v.get("d") == x["d"] and v.get("c") and any(
                                    y.get("k") == "CXXMemberCallExpr" and (strip(y["c"][0]) or {}).get("n") in ENTRY_POS
                                    for y in walk(v["c"][0])):
                                bad = v
            r.add(key, fn.loc(n), bad is None, "sector number independent of the catalogue entries" if bad is None else
                  "the probe reads a sector computed from a catalogue entry (`%s`): identification now depends on file bodies "
                  "being present" % show(bad)[:50])
    return r


def run(ctx):
    from . import c01
    prog = ctx.prog("dfs", "N")
    return [rule_watford_guard(prog), rule_decision_table(prog), rule_probe_reads(prog), rule_opus_selfcheck(prog),
            rule_sides_from_hdfs_only(prog), c01.rule_opus_catalogue_slot(prog, rule_id="R-C13-6"),
            rule_format_of_own_surface(prog), _shared_validator_rule(prog), _shared_table_walk(prog),
            rule_probe_ignores_bodies(prog)]


def _shared_table_walk(prog):
    from . import c01
    r = c01.rule_degenerate_continue(prog)
    r.rule = "R-C13-9"       # every entry of the Opus volume table is examined and validated
    return r


def _shared_validator_rule(prog):
    from . import c01
    r = c01.rule_empty_files_do_not_overlap(prog)
    r.rule = "R-C13-8"       # a well-formed catalogue is not refused (which would turn the disc into another variant)
    return r


SELFTESTS = [
    (rule_watford_guard, ["c13_bad.cc"], ["c13_good.cc"], "start==2"),
    (rule_sides_from_hdfs_only, ["c13_bad.cc"], ["c13_good.cc"], "two-sided"),
    (rule_format_of_own_surface, ["c13_surf_bad.cc"], ["c13_surf_good.cc"], "DriveConfig@"),
]
