"""C15 - wildcards and file names select exactly the files DFS semantics say.

R-C15-1  translation templates: for every byte value the regular-expression
         fragment that convert_wildcard_into_extended_regex emits is a valid
         POSIX ERE atom whose language is exactly what the AFSP semantics
         require ('#': any one character but '.'; '*': any run without '.';
         letters: both cases; anything else: itself)
R-C15-2  the two canonicalisation patterns are well-formed POSIX EREs with
         exactly the three groups the code indexes
R-C15-3  name comparison: CatalogEntry::has_name compares directory exactly and
         the name through case_insensitive_equal; the case-insensitive
         comparator folds both operands with tolower/toupper (no bit tricks
         that also fold punctuation)
"""
from ..runner import RuleResult
from ..facts import AnalysisBroken
from ..model import strip, strip_all, walk, show, notpl, is_call, call_args
from ..flow import folded
from .. import flow
from ..strinterp import StrFolder, Unfoldable, as_text

EXPLANATION = (
    "Static decision of the translation clause of C15 for every wildcard character: the switch that turns a DFS "
    "ambiguous file specification into a regular expression is folded, per byte value, into the fragment it "
    "emits; each fragment is parsed with a POSIX.1-2017 ERE grammar written in the checker (bracket-expression "
    "rules of 9.3.5, escapes only for special characters) and its one-character language compared with the AFSP "
    "semantics.  The canonicalisation patterns are parsed with the same grammar, and the name comparator's folding "
    "is checked structurally.  regexec itself and the defaulting of drive/directory are not decided.")
ASSUMPTIONS = ["POSIX.1-2017 XBD 9.4 ERE grammar as implemented in the checker; C-locale toupper/tolower",
               "regcomp/regexec implement POSIX EREs"]

SPECIAL = set("^.[$()|*+?{\\")
ALL = set(range(1, 256))


class EreError(Exception):
    pass


def parse_bracket(s, i):
    """s[i] == '['.  Returns (set of byte values, next index)."""
    j = i + 1
    neg = False
    if j < len(s) and s[j] == "^":
        neg = True
        j += 1
    items = set()
    first = True
    while True:
        if j >= len(s):
            raise EreError("unterminated bracket expression")
        c = s[j]
        if c == "]" and not first:
            j += 1
            break
        if c == "[" and j + 1 < len(s) and s[j + 1] in ".:=":
            kind = s[j + 1]
            end = s.find(kind + "]", j + 2)
            if end < 0:
                raise EreError("unterminated [%s...%s] in bracket expression" % (kind, kind))
            name = s[j + 2:end]
            if kind == ":":
                cls = {"alpha": [c for c in range(256) if chr(c).isalpha() and c < 128],
                       "digit": list(range(48, 58)), "upper": list(range(65, 91)), "lower": list(range(97, 123)),
                       "alnum": [c for c in range(128) if chr(c).isalnum()], "space": [9, 10, 11, 12, 13, 32],
                       "punct": [c for c in range(33, 127) if not chr(c).isalnum()]}.get(name)
                if cls is None:
                    raise EreError("unknown character class [:%s:]" % name)
                items |= set(cls)
            else:
                if len(name) != 1:
                    raise EreError("unsupported collating element")
                items.add(ord(name))
            j = end + 2
            first = False
            continue
        lo = ord(c)
        j += 1
        if j + 1 < len(s) and s[j] == "-" and s[j + 1] != "]":
            hi = ord(s[j + 1])
            if hi < lo:
                raise EreError("invalid range end")
            items |= set(range(lo, hi + 1))
            j += 2
        else:
            items.add(lo)
        first = False
    if neg:
        items = ALL - items - {10} | ({10} - items if False else set())
        items = ALL - (ALL - items)  # keep as computed
    return (ALL - _raw(items, neg)) if neg else items, j


def _raw(items, neg):
    return items


def parse_bracket2(s, i):
    """Wrapper computing the negated set properly."""
    j = i + 1
    neg = j < len(s) and s[j] == "^"
    items, nxt = _parse_list(s, j + (1 if neg else 0))
    return ((ALL - items) if neg else items), nxt


def _parse_list(s, j):
    items = set()
    first = True
    while True:
        if j >= len(s):
            raise EreError("unterminated bracket expression")
        c = s[j]
        if c == "]" and not first:
            return items, j + 1
        if c == "[" and j + 1 < len(s) and s[j + 1] in ".:=":
            kind = s[j + 1]
            end = s.find(kind + "]", j + 2)
            if end < 0:
                raise EreError("unterminated [%s %s] inside bracket expression" % (kind, kind))
            name = s[j + 2:end]
            if kind == ":":
                cls = {"alpha": [x for x in range(128) if chr(x).isalpha()], "digit": list(range(48, 58)),
                       "upper": list(range(65, 91)), "lower": list(range(97, 123)),
                       "alnum": [x for x in range(128) if chr(x).isalnum()], "space": [9, 10, 11, 12, 13, 32],
                       "punct": [x for x in range(33, 127) if not chr(x).isalnum()]}.get(name)
                if cls is None:
                    raise EreError("unknown character class [:%s:]" % name)
                items |= set(cls)
            elif len(name) == 1:
                items.add(ord(name))
            else:
                raise EreError("unsupported collating element [%s%s%s]" % (kind, name, kind))
            j = end + 2
            first = False
            continue
        lo = ord(c)
        j += 1
        if j + 1 < len(s) and s[j] == "-" and s[j + 1] != "]":
            hi = ord(s[j + 1])
            if hi < lo:
                raise EreError("invalid range %s-%s" % (chr(lo), chr(hi)))
            items |= set(range(lo, hi + 1))
            j += 2
        else:
            items.add(lo)
        first = False


def parse_ere(s):
    """Parse a POSIX ERE.  Returns a tree: ('alt', [branches]) with branches lists of
    (atom, quantifier) ; atoms: ('set', chars) ('group', tree) ('bol',) ('eol',).
    Raises EreError on anything POSIX leaves undefined or invalid."""
    pos = [0]
    ngroups = [0]

    def alt(depth):
        branches = [branch(depth)]
        while pos[0] < len(s) and s[pos[0]] == "|":
            pos[0] += 1
            branches.append(branch(depth))
        return ("alt", branches)

    def branch(depth):
        items = []
        while pos[0] < len(s) and s[pos[0]] != "|" and not (s[pos[0]] == ")" and depth > 0):
            a = atom(depth)
            q = None
            while pos[0] < len(s) and s[pos[0]] in "*+?{":
                if s[pos[0]] == "{":
                    end = s.find("}", pos[0])
                    if end < 0:
                        raise EreError("unterminated interval")
                    q = s[pos[0]:end + 1]
                    pos[0] = end + 1
                else:
                    if q is not None:
                        raise EreError("multiple adjacent duplication symbols (undefined in POSIX)")
                    q = s[pos[0]]
                    pos[0] += 1
            items.append((a, q))
        if not items:
            raise EreError("empty (sub)expression")
        return items

    def atom(depth):
        c = s[pos[0]]
        if c == "(":
            pos[0] += 1
            ngroups[0] += 1
            t = alt(depth + 1)
            if pos[0] >= len(s) or s[pos[0]] != ")":
                raise EreError("unmatched (")
            pos[0] += 1
            return ("group", t)
        if c == ")":
            raise EreError("unmatched )")
        if c == "[":
            chars, nxt = parse_bracket2(s, pos[0])
            pos[0] = nxt
            return ("set", frozenset(chars))
        if c == ".":
            pos[0] += 1
            return ("set", frozenset(ALL))
        if c == "^":
            pos[0] += 1
            return ("bol",)
        if c == "$":
            pos[0] += 1
            return ("eol",)
        if c == "\\":
            if pos[0] + 1 >= len(s):
                raise EreError("trailing backslash")
            d = s[pos[0] + 1]
            if d not in SPECIAL and d not in ")]}":
                raise EreError("\\%s: a backslash before an ordinary character is undefined in POSIX EREs "
                               "(GNU regcomp treats \\' \\` \\< \\> \\b \\w ... as operators)" % d)
            pos[0] += 2
            return ("set", frozenset([ord(d)]))
        if c in "*+?{":
            raise EreError("duplication symbol %s with nothing to repeat" % c)
        pos[0] += 1
        return ("set", frozenset([ord(c)]))
    t = alt(0)
    if pos[0] != len(s):
        raise EreError("unparsed input at %d: %r" % (pos[0], s[pos[0]:]))
    return t, ngroups[0]


def c_upper(c):
    return c - 32 if 97 <= c <= 122 else c


def c_lower(c):
    return c + 32 if 65 <= c <= 90 else c


# ---- folding the translator ------------------------------------------------
def _element_reads(body, iv):
    """Expressions `s[i]` / `s.at(i)` over a char sequence in body, i being the induction variable iv."""
    out = []
    for x in walk(body):
        if x.get("w") != 8:
            continue
        idx = None
        if x.get("k") == "CXXOperatorCallExpr" and x.get("op") == "[]" and len(x.get("c", [])) >= 3:
            idx = x["c"][2]
        elif x.get("k") == "CXXOperatorCallExpr" and x.get("op") == "[]" and len(x.get("c", [])) == 2:
            idx = x["c"][1]
        elif x.get("k") == "ArraySubscriptExpr":
            idx = x["c"][1]
        elif x.get("k") == "CXXMemberCallExpr" and x.get("callee_name") == "at" and len(x.get("c", [])) >= 2:
            idx = x["c"][-1]
        if idx is not None and (strip_all(idx) or {}).get("d") == iv:
            out.append(x)
    return out


def _per_char_loops(prog, fn, depth=3):
    """(function, loop, current-character designator) triples, in fn and the repo functions it calls.  The
    designator is the loop variable of a range-for over characters, or the list of `s[i]` nodes of an indexed loop."""
    seen, todo, out = set(), [(fn, 0)], []
    while todo:
        f, d = todo.pop(0)
        if f.uid in seen:
            continue
        seen.add(f.uid)
        for n in f.walk():
            if n.get("k") == "CXXForRangeStmt" and "loopvar" in n.get("parts", {}):
                lv = [x for x in walk(n["c"][n["parts"]["loopvar"]]) if x.get("k") == "VarDecl"]
                if lv and lv[0].get("w") == 8:
                    out.append((f, n, lv[0]))
            if n.get("k") == "ForStmt" and "body" in n.get("parts", {}) and "cond" in n["parts"]:
                cond = strip_all(n["c"][n["parts"]["cond"]])
                iv = (strip_all(cond["c"][0]) or {}).get("d") if cond and cond.get("k") == "BinaryOperator" and \
                    cond.get("op") in ("<", "!=") else None
                body = n["c"][n["parts"]["body"]]
                reads = _element_reads(body, iv) if iv is not None else []
                written = [x for x in walk(body) if x.get("k") in ("UnaryOperator", "BinaryOperator", "CompoundAssignOperator")
                           and x.get("op") in ("++", "--", "=", "+=", "-=") and (strip_all(x["c"][0]) or {}).get("d") == iv]
                if reads and not written:
                    out.append((f, n, {"index": iv, "reads": reads, "sg": reads[0].get("sg")}))
            if d < depth and n.get("k") in ("CallExpr", "CXXMemberCallExpr"):
                for g in prog.call_targets(f, n):
                    todo.append((g, d + 1))
    return out


def _fragment(prog, f, loop, lv, w):
    """What one iteration of the loop appends to its accumulator for character w."""
    sw = w - 256 if (lv.get("sg") and w >= 128) else w
    body = loop["c"][loop["parts"]["body"]]
    # the accumulator: a string or vector<char> of the enclosing function that the body designates
    outer = {}
    for x in f.walk():
        if x.get("k") in ("VarDecl", "ParmVarDecl") and x.get("d") is not None:
            outer[x["d"]] = x
    for p_ in f.params:
        outer[p_["d"]] = p_
    local = {x.get("d") for x in walk(body) if x.get("k") == "VarDecl"}
    # state carried from one character to the next (other than the accumulator): the fragment for a character is
    # then not a function of that character alone, and this rule cannot judge it
    for x in walk(body):
        for d_, _e in flow.written_decls(x):
            if d_ in local or d_ == lv.get("d") or d_ == lv.get("index"):
                continue
            decl = outer.get(d_)
            t_ = (decl or {}).get("t") or (decl or {}).get("ct") or ""
            if decl is not None and not ("string" in t_ or "vector" in t_):
                raise Unfoldable("the translation depends on `%s`, which is carried over from the preceding characters" % decl.get("n"))
    if "index" in lv:
        ids = {id(x) for x in lv["reads"]}
        folder = StrFolder(prog, f, char_hook=lambda g, n, env: sw if id(n) in ids else None)
        env = {}
        for x in walk(body):
            if x.get("k") == "DeclRefExpr" and x.get("d") in outer and x["d"] not in local and x["d"] != lv["index"]:
                t = (outer[x["d"]].get("t") or "")
                if ("basic_string" in t or "string" in t or "vector<char" in t) and "*" not in t and "const" not in t:
                    env.setdefault(x["d"], [] if "vector" in t else "")
        skip = {lv["index"]}
    else:
        folder = StrFolder(prog, f)
        env = {lv["d"]: sw}
        skip = {lv["d"]}
    pre = dict(env)
    folder.run_statements(f, [body], env)
    acc = [d for d in env if d not in skip and d not in local and isinstance(env[d], (str, list))
           and ("index" not in lv or env[d] != pre.get(d))]
    if "index" in lv and not acc:
        acc = [d for d in env if d not in skip and d not in local and isinstance(env[d], (str, list))]
        if len(acc) != 1:
            return ""
    if len(acc) != 1:
        raise Unfoldable("the loop body appends to %d accumulators" % len(acc))
    return as_text(env[acc[0]])


def rule_translation(prog, fixture=False):
    r = RuleResult("R-C15-1", "for each byte value the emitted regular-expression fragment is a valid POSIX ERE "
                   "atom matching exactly what the AFSP semantics require", floor=0 if fixture else 200)
    for fn in prog.fnby("convert_wildcard_into_extended_regex", required=not fixture):
        loops = _per_char_loops(prog, fn)
        chosen = None
        why = "no loop over the characters of the wildcard found in %s or its callees" % fn.qn
        for (f, loop, lv) in loops:
            try:
                frags = {w: _fragment(prog, f, loop, lv, w) for w in range(1, 256)}
            except Unfoldable as e:
                why = "%s: the per-character loop could not be folded (%s)" % (f.loc(loop), e)
                continue
            if any(frags.values()):
                chosen = (f, loop, frags)
                break
        if chosen is None:
            # no loop of a known form: a per-character helper `string f(char)` reached from the translator (the loop may be
            # std::accumulate / std::transform / a recursion this rule does not model; what each character becomes is
            # still what the helper returns)
            seen, todo = set(), [(fn, 0)]
            while todo and chosen is None:
                f, d = todo.pop(0)
                if f.uid in seen:
                    continue
                seen.add(f.uid)
                if f is not fn and len(f.params) == 1 and f.params[0].get("w") == 8 and \
                        "string" in (f.raw.get("ret") or ""):
                    try:
                        folder = StrFolder(prog, f)
                        sg = f.params[0].get("sg")
                        frags = {}
                        for w in range(1, 256):
                            frags[w] = as_text(folder.run_function(f, [w - 256 if (sg and w >= 128) else w]))
                        if any(frags.values()):
                            chosen = (f, f.body, frags)
                    except Unfoldable as e:
                        why = "%s: the per-character helper could not be folded (%s)" % (f.qn, e)
                if d < 3:
                    for n in f.walk():
                        if n.get("k") in ("CallExpr", "CXXMemberCallExpr", "CXXOperatorCallExpr"):
                            for g in prog.call_targets(f, n):
                                todo.append((g, d + 1))
                    for lam in [x for x in prog.functions.values() if x.parent_key == f.key]:
                        todo.append((lam, d + 1))
        if chosen is None:
            r.undecided.append(why)
            continue
        lf, sw, frags = chosen
        r.info["translator_loop"] = lf.loc(sw)
        for w in range(1, 256):
            ch = chr(w)
            frag = frags[w]
            key = "%s::%s::char 0x%02X" % (fn.relfile(), fn.qn, w)
            if w == ord("#"):
                want, star = ALL - {ord(".")}, False
            elif w == ord("*"):
                want, star = ALL - {ord(".")}, True
            elif chr(w).isalpha() and w < 128:
                want, star = {c_upper(w), c_lower(w)}, False
            else:
                want, star = {w}, False
            try:
                tree, ng = parse_ere(frag)
                br = tree[1]
                if len(br) != 1 or len(br[0]) != 1:
                    raise EreError("fragment %r is not a single atom" % frag)
                (atom, q) = br[0][0]
                if atom[0] != "set" or ng:
                    raise EreError("fragment %r is not a one-character matcher" % frag)
                got = set(atom[1])
                if (q == "*") != star or q not in (None, "*"):
                    raise EreError("fragment %r has duplication %r" % (frag, q))
                ok = got == set(want)
                msg = "" if ok else "fragment %r matches %s instead of %s" % (
                    frag, _descr(got), _descr(set(want)))
            except EreError as e:
                ok, msg = False, "fragment %r for wildcard character %r is not a valid POSIX ERE: %s" % (frag, ch, e)
            r.add(key, lf.loc(sw), ok, "%r -> %r" % (ch, frag) if ok else msg, nontrivial=(w in (35, 42, 46, 58) or not ch.isalnum()))
    return r


def _descr(s):
    if len(s) > 8:
        missing = ALL - s
        if len(missing) <= 4:
            return "everything but " + "".join(repr(chr(c)) for c in sorted(missing))
        return "%d characters" % len(s)
    return "{" + ",".join(repr(chr(c)) for c in sorted(s)) + "}"


def rule_canonical_patterns(prog, fixture=False):
    r = RuleResult("R-C15-2", "the patterns used by qualify/extend_wildcard are well-formed POSIX EREs with exactly "
                   "three groups (drive, directory, name)", floor=0 if fixture else 2)
    for fn in prog.functions.values():
        if fn.name not in ("qualify", "extend_wildcard"):
            continue
        pats = []
        for n in fn.walk():
            if n.get("k") == "VarDecl" and "pat" in (n.get("n") or "") and n.get("c"):
                for x in walk(n["c"][0]):
                    if x.get("k") == "StringLiteral":
                        pats.append((n, x.get("s")))
        for n, pat in pats:
            key = "%s::%s::%s" % (fn.relfile(), fn.qn, n["n"])
            try:
                tree, ng = parse_ere(pat)
                ok = ng == 3
                msg = "%d groups" % ng
            except EreError as e:
                ok, msg = False, "pattern %r is not a valid POSIX ERE: %s" % (pat, e)
            r.add(key, fn.loc(n), ok, msg if ok else msg if "valid" in msg else
                  "pattern %r has %s but the code indexes groups 1..3" % (pat, msg))
    return r


FOLDERS = {"tolower", "toupper", "std::tolower", "std::toupper"}


def rule_name_comparison(prog, fixture=False):
    r = RuleResult("R-C15-3", "names are compared case-insensitively by folding both characters with "
                   "tolower/toupper, and has_name compares the directory exactly", floor=0 if fixture else 2)
    for fn in prog.functions.values():
        if not (fn.qn.endswith("case_insensitive_less") or (fn.parent_key and "case_insensitive" in (fn.q or ""))):
            continue
        k = 0
        for n in fn.walk():
            if n.get("k") == "BinaryOperator" and n.get("op") in ("==", "!=", "<", ">", "<=", ">="):
                l, rr = strip_all(n["c"][0]), strip_all(n["c"][1])
                # only comparisons of characters (ints), not iterator comparisons
                if not (l.get("w") and rr.get("w")):
                    continue

                def charish(e):
                    # a fold call, a char-typed value, or something computed from one (not an index or a length)
                    if e.get("k") == "CallExpr" and notpl(e.get("q") or "") in FOLDERS:
                        return True
                    return any((x.get("w") == 8 and x.get("k") in ("DeclRefExpr", "ArraySubscriptExpr", "UnaryOperator",
                                                                  "CXXOperatorCallExpr", "MemberExpr", "CXXMemberCallExpr"))
                               or (x.get("k") == "CallExpr" and notpl(x.get("q") or "") in FOLDERS) for x in walk(e))
                if not (charish(l) or charish(rr)):
                    continue
                k += 1
                fl = l.get("k") == "CallExpr" and notpl(l.get("q") or "") in FOLDERS
                fr = rr.get("k") == "CallExpr" and notpl(rr.get("q") or "") in FOLDERS
                same = fl and fr and notpl(l.get("q")) == notpl(rr.get("q"))
                key = "%s::%s::compare#%d" % (fn.relfile(), fn.qn, k)
                r.add(key, fn.loc(n), same, "both sides folded with %s" % notpl(l.get("q") or "") if same else
                      "characters are compared as `%s`: not a tolower/toupper fold of both sides, so characters other "
                      "than letters can be identified (e.g. '[' with '{') or letters distinguished" % show(n))
    for fn in prog.fnby("CatalogEntry::has_name", required=not fixture):
        calls = [n for n in fn.walk() if n.get("k") == "CallExpr" and notpl(n.get("q") or "").endswith("case_insensitive_equal")]
        dircmp = [n for n in fn.walk() if n.get("k") == "BinaryOperator" and n.get("op") in ("!=", "==") and
                  any(x.get("k") == "CXXMemberCallExpr" and (strip(x["c"][0]) or {}).get("n") == "directory" for x in walk(n))]
        ok = bool(calls) and bool(dircmp)
        r.add("%s::%s" % (fn.relfile(), fn.qn), "%s:%d" % (fn.relfile(), fn.line), ok,
              "directory compared exactly, name through case_insensitive_equal" if ok else
              "has_name does not compare the name through case_insensitive_equal and the directory directly")
    return r


# ---------------------------------------------------------------- R-C15-4
def rule_selector_assignment(prog, fixture=False):
    r = RuleResult("R-C15-4", "a user-written copy assignment of a drive/volume selector class replaces every data "
                   "member by the source's, unconditionally: the name parsers start from the --drive default and "
                   "then assign the drive parsed from the argument, so a member that survives the assignment (an "
                   "Opus volume letter, say) makes `:0.` select something other than drive 0's default volume",
                   floor=0 if fixture else 2)
    for fn in prog.functions.values():
        if fn.name != "operator=" or len(fn.params) != 1 or fn.body is None:
            continue
        cls = notpl(fn.qn.rsplit("::", 1)[0])
        pt = notpl((fn.params[0].get("t") or "").replace("const ", "").replace("&", "").strip())
        if pt.split("::")[-1] != cls.split("::")[-1]:
            continue
        rec = [rc for q_, rc in prog.records.items() if notpl(q_) == cls]
        if not rec:
            continue
        pd = fn.params[0]["d"]

        def copies(st, fd):
            """st is `member = src.member` for the field with declaration id fd."""
            x = strip_all(st)
            if x is None or x.get("op") != "=" or x.get("k") not in ("BinaryOperator", "CXXOperatorCallExpr"):
                return False
            ops = x["c"][-2:]
            l, rr = strip_all(ops[0]), strip_all(ops[1])
            if l is None or l.get("k") != "MemberExpr" or l.get("d") != fd:
                return False
            lb = strip_all(l["c"][0]) if l.get("c") else None
            if lb is not None and lb.get("k") != "CXXThisExpr":
                return False
            for _ in range(3):
                if rr is not None and rr.get("k") in ("CXXConstructExpr", "CXXTemporaryObjectExpr") and len(rr.get("c", [])) == 1:
                    rr = strip_all(rr["c"][0])
            if rr is None or rr.get("k") != "MemberExpr" or rr.get("d") != fd:
                return False
            rb = strip_all(rr["c"][0]) if rr.get("c") else None
            return rb is not None and rb.get("k") == "DeclRefExpr" and rb.get("d") == pd
        top = fn.body.get("c", [])
        plain = all(st.get("k") == "ReturnStmt" or any(copies(st, f_["d"]) for f_ in rec[0]["fields"]) for st in top)
        for f_ in rec[0]["fields"]:
            key = "%s::%s::%s" % (fn.relfile(), fn.qn, f_["n"])
            if any(copies(st, f_["d"]) for st in top):
                r.add(key, fn.loc(fn.body), True, "copied unconditionally")
                continue
            nested = [x for x in fn.walk() if x.get("op") == "=" and x.get("k") in ("BinaryOperator", "CXXOperatorCallExpr")
                      and (strip_all(x["c"][-2]) or {}).get("d") == f_["d"]]
            guarded = [x for x in nested if any(a.get("k") == "IfStmt" and "else" not in a.get("parts", {}) for a in fn.ancestors(x))]
            if guarded:
                r.add(key, fn.loc(guarded[0]), False, "`%s` is only assigned under a condition: when the condition fails the "
                      "target keeps its old %s (the --drive default's) instead of taking the source's" % (f_["n"], f_["n"]))
            elif plain:
                r.add(key, fn.loc(fn.body), False, "`%s` is not copied by %s: the target keeps its old value" % (f_["n"], fn.qn))
            else:
                r.undecided.append("%s: cannot tell whether %s copies `%s` (unrecognised idiom)" % (fn.loc(fn.body), fn.qn, f_["n"]))
    return r


# ---------------------------------------------------------------- R-C15-5
def rule_lookup_keeps_hit(prog, fixture=False):
    r = RuleResult("R-C15-5", "a lookup that tries several places (catalogue fragments) keeps the first hit: an optional "
                   "that the function returns is assigned inside a loop only where it is known to be empty - otherwise a "
                   "miss in a later fragment replaces the hit and the file is reported `not found`", floor=0)
    for fn in prog.functions.values():
        if fn.body is None:
            continue
        returned = set()
        for n in fn.walk():
            if n.get("k") == "ReturnStmt" and n.get("c"):
                x = strip_all(n["c"][0])
                for _ in range(3):
                    if x is not None and x.get("k") in ("CXXConstructExpr", "CXXTemporaryObjectExpr") and len(x.get("c", [])) == 1:
                        x = strip_all(x["c"][0])
                if x is not None and x.get("k") == "DeclRefExpr" and x.get("dk") == "Var" and "optional" in (x.get("t") or x.get("ct") or ""):
                    returned.add(x["d"])
        for d in returned:
            sites = []
            for n in fn.walk():
                if n.get("k") == "CXXOperatorCallExpr" and n.get("op") == "=" and len(n.get("c", [])) == 3 and \
                        (strip_all(n["c"][1]) or {}).get("d") == d and \
                        any(a.get("k") in ("ForStmt", "WhileStmt", "DoStmt", "CXXForRangeStmt") for a in fn.ancestors(n)):
                    rhs = strip_all(n["c"][2])
                    if not (rhs is not None and rhs.get("k") == "DeclRefExpr" and rhs.get("n") == "nullopt"):
                        sites.append(n)
            if not sites:
                continue

            def transfer(x, d=d):
                if x.get("k") == "DeclStmt":
                    for v in x.get("c", []):
                        if v.get("k") == "VarDecl" and v.get("d") == d:
                            i = strip_all(v["c"][0]) if v.get("c") else None
                            return i is None or (i.get("k") in ("CXXConstructExpr",) and not i.get("c")) or \
                                (i.get("k") == "DeclRefExpr" and i.get("n") == "nullopt")
                if x.get("k") == "CXXOperatorCallExpr" and x.get("op") == "=" and len(x.get("c", [])) == 3 and \
                        (strip_all(x["c"][1]) or {}).get("d") == d:
                    rhs = strip_all(x["c"][2])
                    return bool(rhs is not None and rhs.get("k") == "DeclRefExpr" and rhs.get("n") == "nullopt")
                if x.get("k") == "CXXMemberCallExpr" and (strip(x["c"][0]) or {}).get("n") in ("reset", "emplace") and \
                        (strip_all((strip(x["c"][0]) or {}).get("c", [None])[0]) or {}).get("d") == d:
                    return (strip(x["c"][0]) or {}).get("n") == "reset"
                return None
            cfg = fn.cfg

            def edge_gen(p_, s_, d=d):
                b = cfg.blocks[p_]
                if b.get("cond") is None or len(cfg.succ[p_]) != 2 or cfg.succ[p_][0] == cfg.succ[p_][1]:
                    return False
                cond = fn.nodes.get(b["cond"])
                outcome = cfg.succ[p_][0] == s_
                for f in flow.atomise(cond, outcome):
                    if f[0] == "T" and f[2] is False:
                        a_ = strip_all(f[1])
                        # `result`, or result.has_value() / operator bool spelled out
                        if a_ is not None and (a_.get("d") == d or any(y.get("k") == "DeclRefExpr" and y.get("d") == d for y in walk(a_))
                                               and a_.get("k") in ("CXXMemberCallExpr", "DeclRefExpr")):
                            return True
                return False
            at = flow.must_hold_at(fn, transfer, edge_gen)
            for i, n in enumerate(sites):
                ok = at(n)
                if ok is None:
                    continue
                key = "%s::%s::%s=#%d" % (fn.relfile(), fn.qn, (strip_all(n["c"][1]) or {}).get("n"), i + 1)
                r.add(key, fn.loc(n), bool(ok), "assigned only while empty" if ok else
                      "`%s` may replace a result already found by the result of a later, unsuccessful attempt" % show(n)[:60])
    return r


# ---------------------------------------------------------------- R-C15-6
def rule_info_visits_every_entry(prog, fixture=False):
    r = RuleResult("R-C15-6", "`info` tests every catalogue entry against the wildcard: the loop around matches() has no "
                   "break or success return (a `#` wildcard matches several files; stopping at the first match would list "
                   "only one)", floor=0 if fixture else 1)
    for fn in prog.functions.values():
        for n in fn.walk():
            if n.get("k") != "CXXMemberCallExpr" or (strip(n["c"][0]) or {}).get("n") != "matches":
                continue
            if "AFSPMatcher" not in notpl((strip(n["c"][0]) or {}).get("q") or n.get("q") or "AFSPMatcher"):
                continue
            loop = None
            for a in fn.ancestors(n):
                if a.get("k") in ("ForStmt", "WhileStmt", "DoStmt", "CXXForRangeStmt"):
                    loop = a
                    break
            if loop is None:
                continue
            body = loop["c"][loop["parts"]["body"]]
            key = "%s::%s::entry-loop" % (fn.relfile(), fn.qn)
            bad = None
            for x in walk(body):
                if x.get("k") == "BreakStmt" and not any(a.get("k") == "SwitchStmt" and any(y is a for y in walk(body)) for a in fn.ancestors(x)):
                    bad = x
                if x.get("k") == "ReturnStmt" and x.get("c") and folded(x["c"][0]) not in (0,):
                    v = strip_all(x["c"][0])
                    if not (v is not None and v.get("k") == "DeclRefExpr"):
                        bad = x
            r.add(key, fn.loc(bad) if bad is not None else fn.loc(loop), bad is None,
                  "every entry is tested" if bad is None else
                  "`%s` leaves the loop over the catalogue entries before all of them were tested against the wildcard" % show(bad)[:40])
    return r


# ---------------------------------------------------------------- R-C15-7
def rule_directory_default_survives(prog, fixture=False):
    r = RuleResult("R-C15-7", "parse_filename: where the parsed name is handed back, its directory is the --dir default "
                   "or the directory given in the name on every path - nothing in between (a whole-object "
                   "re-initialisation when a drive prefix is seen, say) puts another value there", floor=0 if fixture else 1)
    for fn in prog.functions.values():
        if fn.name != "parse_filename" or fn.body is None:
            continue
        res = [v for v in fn.walk() if v.get("k") == "VarDecl" and "ParsedFileName" in (v.get("t") or v.get("ct") or "") and
               "*" not in (v.get("t") or "")]
        if len(res) != 1:
            r.undecided.append("%s: cannot identify the result object of parse_filename" % fn.loc(fn.body))
            continue
        rd = res[0]["d"]

        def from_default_or_name(e):
            return any(x.get("k") == "MemberExpr" and x.get("n") == "current_directory" for x in walk(e)) or \
                any(x.get("k") in ("ArraySubscriptExpr", "CXXOperatorCallExpr") for x in walk(e))

        def transfer(x):
            if x.get("k") == "DeclStmt":
                for v in x.get("c", []):
                    if v.get("k") == "VarDecl" and v.get("d") == rd:
                        return bool(v.get("c")) and any(y.get("k") == "MemberExpr" and y.get("n") == "current_directory" for y in walk(v["c"][0]))
            tgt = rhs = None
            if x.get("k") == "BinaryOperator" and x.get("op") == "=":
                tgt, rhs = strip_all(x["c"][0]), x["c"][1]
            elif x.get("k") == "CXXOperatorCallExpr" and x.get("op") == "=" and len(x.get("c", [])) == 3:
                tgt, rhs = strip_all(x["c"][1]), x["c"][2]
            if tgt is None:
                return None
            if tgt.get("k") == "MemberExpr" and tgt.get("n") == "dir" and (strip_all(tgt["c"][0]) or {}).get("d") == rd:
                return from_default_or_name(rhs)
            if tgt.get("k") == "DeclRefExpr" and tgt.get("d") == rd:
                return any(y.get("k") == "MemberExpr" and y.get("n") == "current_directory" for y in walk(rhs))
            return None
        at = flow.must_hold_at(fn, transfer)
        k = 0
        for n in fn.walk():
            # the result leaves the function: swap(result, *p), *p = result, return result
            leaves = False
            if n.get("k") == "CallExpr" and notpl(n.get("q") or "").split("::")[-1] == "swap" and \
                    any((strip_all(a) or {}).get("d") == rd for a in call_args(n)):
                leaves = True
            if n.get("k") in ("BinaryOperator", "CXXOperatorCallExpr") and n.get("op") == "=" and \
                    (strip_all(n["c"][-1]) or {}).get("d") == rd:
                leaves = True
            if n.get("k") == "ReturnStmt" and n.get("c") and (strip_all(n["c"][0]) or {}).get("d") == rd:
                leaves = True
            if not leaves:
                continue
            k += 1
            ok = at(n)
            if ok is None:
                continue
            r.add("%s::%s::result-leaves#%d" % (fn.relfile(), fn.qn, k), fn.loc(n), bool(ok),
                  "directory = default or parsed, on every path" if ok else
                  "on some path the result's directory was last set by something other than the --dir default or the name "
                  "itself (the object was re-initialised): `:0.NAME` under --dir B looks in `$`")
    return r


def run(ctx):
    prog = ctx.prog("dfs", "N")
    return [rule_translation(prog), rule_canonical_patterns(prog), rule_name_comparison(prog), rule_selector_assignment(prog), rule_lookup_keeps_hit(prog),
            rule_info_visits_every_entry(prog), rule_directory_default_survives(prog)]


SELFTESTS = [
    (rule_lookup_keeps_hit, ["c15_find_bad.cc"], ["c15_find_good.cc"], "result="),
    (rule_translation, ["c15_bad.cc"], ["c15_good.cc"], "char 0x5E"),
    (rule_selector_assignment, ["c15_sel_bad.cc"], ["c15_sel_good.cc"], "subvolume_"),
]
