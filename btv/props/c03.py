"""C03 - bbcbasic_to_text lists every well-formed program as doc/bbcbasic.5 defines.

R-C03-1  the 0x8D line-number decoding equals the C expression printed in
         doc/bbcbasic.5 (LINE NUMBERS), compared in the bit-provenance domain:
         identical XOR-affine form for all 16 result bits, hence for all 2^24
         operand values
R-C03-3  input-source independence: the decoders consume their input only
         through getc/fgetc/fread on the FILE* they are given; nothing
         distinguishes standard input from a file (stdin is referenced only
         where the input is chosen; ftell-derived values reach only
         diagnostics; no fseek/isatty/fileno/fstat)
R-C03-4  indentation state: the indentation counter changes only by the
         LISTO-controlled amounts (2 per FOR/NEXT/REPEAT/UNTIL token counted
         on the line) and is never clamped or reset between lines
"""
import os
import re

from ..runner import RuleResult
from ..facts import AnalysisBroken
from .. import facts
from ..model import strip, strip_all, walk, show, notpl, is_call, call_args
from ..bits import BV, Evaluator, Unsupported, bconst, bvar, bv_and, bv_or, bv_xor, bv_shl, bv_shr
from ..fields import compare, eval_prefix
from ..flow import folded
from .. import flow

EXPLANATION = (
    "Static decision of two clauses of C03 for all programs: (a) the GOTO/GOSUB target decoder computes, for every "
    "one of the 2^24 operand triples, exactly the expression printed in doc/bbcbasic.5 - both are evaluated in a "
    "bit-provenance domain and must yield identical XOR-affine forms; (c) listing from a file and from standard "
    "input cannot differ because the decoders read only through getc/fgetc/fread and position information "
    "reaches only stderr; plus a structural rule on the indentation counter.  Token tables: no verdict (the man "
    "page proved unreliable as an oracle, and the suite's golden map pins the tables).  Line framing, quoting and "
    "number formatting are runtime behaviour.")
ASSUMPTIONS = ["the expression in doc/bbcbasic.5 is the specification (the property says so)",
               "the domain's transfer functions for ^ & | << >> * + and conversions"]


# ---- tiny parser for the man page's C expression -------------------------
TOK = re.compile(r"\s*(0[xX][0-9a-fA-F]+|\d+|[A-Za-z_]\w*|<<|>>|[()^&|+])")


def parse_c_expr(text):
    toks = TOK.findall(text)
    if "".join(toks).replace(" ", "") != re.sub(r"\s+", "", text):
        raise AnalysisBroken("cannot tokenise the documented expression: %r" % text)
    pos = [0]

    def peek():
        return toks[pos[0]] if pos[0] < len(toks) else None

    def eat(t=None):
        x = peek()
        if t is not None and x != t:
            raise AnalysisBroken("documented expression: expected %s at token %d" % (t, pos[0]))
        pos[0] += 1
        return x

    def primary():
        x = eat()
        if x == "(":
            v = bor_()
            eat(")")
            return v
        if re.match(r"0[xX]", x):
            return ("const", int(x, 16))
        if x.isdigit():
            return ("const", int(x))
        return ("var", x)

    def shift():
        v = add()
        while peek() in ("<<", ">>"):
            op = eat()
            v = (op, v, add())
        return v

    def add():
        v = primary()
        while peek() == "+":
            eat()
            v = ("+", v, primary())
        return v

    def band_():
        v = shift()
        while peek() == "&":
            eat()
            v = ("&", v, shift())
        return v

    def bxor_():
        v = band_()
        while peek() == "^":
            eat()
            v = ("^", v, band_())
        return v

    def bor_():
        v = bxor_()
        while peek() == "|":
            eat()
            v = ("|", v, bxor_())
        return v
    tree = bor_()
    if pos[0] != len(toks):
        raise AnalysisBroken("documented expression: trailing tokens")
    return tree


def eval_tree(t, env, w=32):
    k = t[0]
    if k == "const":
        return BV.const(t[1], w)
    if k == "var":
        return env[t[1]].resize(w)
    a = eval_tree(t[1], env, w)
    b = eval_tree(t[2], env, w)
    if k == "&":
        return bv_and(a, b)
    if k == "|":
        return bv_or(a, b)
    if k == "^":
        return bv_xor(a, b)
    if k == "<<":
        return bv_shl(a, b.value())
    if k == ">>":
        return bv_shr(a, b.value())
    if k == "+":
        from ..bits import bv_add
        return bv_add(a, b)
    raise AnalysisBroken("operator %s" % k)


def documented_formula(root):
    p = os.path.join(root, "doc", "bbcbasic.5")
    try:
        text = open(p, encoding="latin-1").read()
    except OSError:
        raise AnalysisBroken("doc/bbcbasic.5 not found")
    m = re.search(r'\.SH "LINE NUMBERS"(.*?)\n\.SH ', text, re.S)
    if not m:
        raise AnalysisBroken("LINE NUMBERS section not found in doc/bbcbasic.5")
    ex = re.search(r"\.EX\n(.*?)\n\.EE", m.group(1), re.S)
    if not ex:
        raise AnalysisBroken("no example block with the decoding expression in LINE NUMBERS")
    expr = ex.group(1).strip()
    return expr, parse_c_expr(expr)


def rule_line_number(prog, root, fixture=False, formula=None):
    r = RuleResult("R-C03-1", "print_target_line_number computes, for all operand bytes, exactly the expression "
                   "documented in doc/bbcbasic.5 (bit-for-bit identical affine forms)", floor=0 if fixture else 1)
    if formula is None:
        expr, tree = documented_formula(root)
    else:
        expr, tree = formula, parse_c_expr(formula)
    r.info["documented_expression"] = expr
    def hook(base, index, width):
        if base is not None and base.get("n") == "<operand>" and 0 <= index <= 2:
            return BV.var("b%d" % (index + 1), 8).resize(width)
        return None
    ev = Evaluator(prog, hook)
    for fn in prog.fn("print_target_line_number", required=not fixture):
        if len(fn.params) == 3 and all(p.get("w") for p in fn.params):
            args = [BV.var("b%d" % (i + 1), 8) for i in range(3)]
        elif len(fn.params) == 1 and "*" in (fn.params[0].get("ct") or fn.params[0].get("t") or ""):
            # the three operand bytes are passed by pointer
            args = [("ptr", {"n": "<operand>"}, 0)]
        else:
            r.undecided.append("print_target_line_number takes neither three bytes nor a pointer to them")
            continue
        env = eval_prefix(ev, fn, args)
        # the value printed: argument of the %u conversion
        printed = None
        for n in fn.walk():
            if n.get("k") == "CallExpr" and notpl(n.get("q") or "") in ("fprintf", "printf"):
                a = call_args(n)
                fmt_i = 1 if notpl(n.get("q")) == "fprintf" else 0
                if len(a) > fmt_i + 1:
                    printed = a[fmt_i + 1]
        if printed is None:
            # the printing is delegated: `return print_number(<value>, ...)` - the helper must print that parameter
            # with a numeric conversion on every path (not only when it is non-zero)
            for n in fn.walk():
                if n.get("k") == "CallExpr" and n.get("fn") and prog.by_key.get(n["fn"]) and call_args(n):
                    for t in prog.call_targets(fn, n):
                        for i, p_ in enumerate(t.params):
                            if not p_.get("w") or i >= len(call_args(n)):
                                continue
                            prints = []
                            for x in t.walk():
                                if x.get("k") == "CallExpr" and notpl(x.get("q") or "") in ("fprintf", "printf"):
                                    fa = call_args(x)
                                    fi = 1 if notpl(x.get("q")) == "fprintf" else 0
                                    fmt = strip_all(fa[fi]) if len(fa) > fi else None
                                    if fmt is not None and fmt.get("k") == "StringLiteral" and re.search(r"%[-0 +#*]*\d*[lhz]*[udi]", fmt.get("s") or "") and \
                                            len(fa) > fi + 1 and any(y.get("k") == "DeclRefExpr" and y.get("d") == p_["d"] for y in walk(fa[-1])):
                                        prints.append(x)
                            if not prints:
                                continue
                            printed = call_args(n)[i]
                            cond_dep = None
                            for x in prints:
                                for anc in t.ancestors(x):
                                    c_ = None
                                    if anc.get("k") == "IfStmt":
                                        c_ = anc["c"][anc["parts"]["cond"]]
                                    elif anc.get("k") == "ConditionalOperator":
                                        c_ = anc["c"][0]
                                    if c_ is not None and any(y.get("k") == "DeclRefExpr" and y.get("d") == p_["d"] for y in walk(c_)):
                                        cond_dep = (t, c_)
                            r.add("%s::%s::printed-always" % (t.relfile(), t.qn), t.loc(prints[0]), cond_dep is None,
                                  "the number is printed on every path" if cond_dep is None else
                                  "%s prints the decoded target only under `%s`: for some targets (line 0) nothing is printed and "
                                  "`GOTO0` lists as `GOTO`" % (t.qn, show(cond_dep[1])[:40]))
        if printed is None:
            r.undecided.append("%s: cannot find the value print_target_line_number prints" % fn.loc(fn.body))
            continue
        try:
            got = ev._expr(fn, printed, env, 0)
        except Unsupported as e:
            r.undecided.append("cannot evaluate the printed line number in the bit domain: %s" % e)
            continue
        if len(got) != 1:
            raise AnalysisBroken("printed value forks")
        gv = got[0][1]
        b = [BV.var("b%d" % (i + 1), 8) for i in range(3)]
        want = eval_tree(tree, {"b1": b[0], "b2": b[1], "b3": b[2]}, max(32, gv.width)).resize(gv.width)
        diff = compare(gv, want)
        r.add("%s::%s" % (fn.relfile(), fn.qn), "%s:%d" % (fn.relfile(), fn.line), not diff,
              "identical to the documented formula on all 2^24 inputs" if not diff else
              "the decoded GOTO/GOSUB target differs from doc/bbcbasic.5 (%s): %s" % (expr, "; ".join(diff[:4])))
        # and the caller hands over the three bytes at the cursor, in order
        for caller in prog.functions.values():
            for c in caller.walk():
                if c.get("k") == "CallExpr" and c.get("fn") == fn.key:
                    a = call_args(c)
                    ok = True
                    if len(a) == 3 and all(strip_all(x).get("k") == "ArraySubscriptExpr" for x in a):
                        idx = [folded(strip_all(x)["c"][1]) for x in a]
                        ok = idx == [0, 1, 2]
                    elif len(a) == 3:
                        continue
                    r.add("%s::%s::operands" % (caller.relfile(), caller.qn), caller.loc(c), ok,
                          "operand bytes passed in order" if ok else
                          "the three bytes after 0x8D are passed as %s, not in the order b1,b2,b3" % [show(x) for x in a])
    return r


# ---------------------------------------------------------------- R-C03-3
POSITION_FUNCS = {"ftell", "ftello", "fgetpos"}
FORBIDDEN = {"fseek", "fseeko", "rewind", "fsetpos", "isatty", "fileno", "fstat", "ungetc", "setvbuf", "feof"}
INPUT_FUNCS = {"getc", "fgetc", "fread", "getchar", "fgets", "fscanf", "getline", "read"}


def rule_input_independence(prog, fixture=False):
    r = RuleResult("R-C03-3", "the listing cannot depend on whether input is a file or standard input: stdin is "
                   "only selected, never inspected; stream positions flow only to stderr diagnostics; no seeking "
                   "or descriptor inspection", floor=0 if fixture else 5)
    for fn in prog.functions.values():
        for n in fn.walk():
            if n.get("k") == "CallExpr":
                q = notpl(n.get("q") or "")
                if q in FORBIDDEN:
                    r.add("%s::%s::%s" % (fn.relfile(), fn.qn, q), fn.loc(n), False,
                          "%s() behaves differently on a pipe/terminal than on a regular file" % q)
                if q in POSITION_FUNCS:
                    # the result may only reach stderr output
                    ok = _only_reaches_stderr(prog, fn, n)
                    r.add("%s::%s::%s@%s" % (fn.relfile(), fn.qn, q, _ord(fn, n)), fn.loc(n), ok,
                          "position used only in a diagnostic" if ok else
                          "the stream position (-1 on a pipe) influences something other than a diagnostic on stderr")
            if n.get("k") == "DeclRefExpr" and n.get("n") == "stdin" and n.get("g"):
                p = fn.parent(n)
                while p is not None and p.get("k") in ("ImplicitCastExpr", "ParenExpr"):
                    p = fn.parent(p)
                # allowed: `f = stdin;`, `FILE *f = stdin;`, and stdin as an arm of `c ? stdin : fopen(..)`
                # whose value is stored the same way
                node = n
                while p is not None and p.get("k") == "ConditionalOperator" and \
                        any(any(y is node for y in walk(arm)) for arm in p["c"][1:]):
                    node = p
                    p = fn.parent(p)
                    while p is not None and p.get("k") in ("ImplicitCastExpr", "ParenExpr"):
                        node = p
                        p = fn.parent(p)
                ok = p is not None and ((p.get("k") == "BinaryOperator" and p.get("op") == "=") or p.get("k") == "VarDecl")
                r.add("%s::%s::stdin" % (fn.relfile(), fn.qn), fn.loc(n), ok,
                      "stdin is only chosen as the input stream" if ok else
                      "stdin is inspected or compared (%s): file and standard input can be treated differently" % show(p)[:50])
    return r


def _ord(fn, node):
    k = 0
    for n in fn.walk():
        if n is node:
            return k
        if n.get("k") == node.get("k") and n.get("fn") == node.get("fn"):
            k += 1
    return k


def _is_stderr_print(n):
    if n.get("k") != "CallExpr":
        return False
    q = notpl(n.get("q") or "")
    if q in ("fprintf", "vfprintf", "fputs", "fputc"):
        a = call_args(n)
        idx = 0 if q in ("fprintf", "vfprintf") else 1
        s = strip_all(a[idx]) if idx < len(a) else None
        return s is not None and s.get("n") == "stderr"
    return q == "perror"


def _only_reaches_stderr(prog, fn, call, depth=0):
    """Uses of the position value: direct argument of a stderr print, or stored in a
    local/passed to a parameter all of whose uses are (recursively) stderr prints or
    arithmetic feeding them."""
    def uses_ok(f, node, d):
        p = f.parent(node)
        while p is not None and p.get("k") in ("ImplicitCastExpr", "ParenExpr", "CStyleCastExpr", "BinaryOperator") and \
                not (p.get("k") == "BinaryOperator" and p.get("op") in flow.ASSIGN_OPS | {"==", "!=", "<", ">", "<=", ">="}):
            node = p
            p = f.parent(p)
        if p is None:
            return False
        if _is_stderr_print(p):
            return True
        if p.get("k") == "VarDecl" or (p.get("k") in ("BinaryOperator", "CompoundAssignOperator") and p.get("op") in flow.ASSIGN_OPS
                                       and strip_all(p["c"][0]) is not strip_all(node)):
            did = p["d"] if p.get("k") == "VarDecl" else strip_all(p["c"][0]).get("d")
            return var_ok(f, did, d + 1)
        if p.get("k") == "CallExpr" and p.get("fn") and d < 5:
            ts = prog.call_targets(f, p)
            args = call_args(p)
            for i, a in enumerate(args):
                if any(x is node or x is strip_all(node) for x in walk(a)):
                    for t in ts:
                        if i < len(t.params):
                            if not var_ok(t, t.params[i]["d"], d + 1):
                                return False
                    return bool(ts)
        return False

    def var_ok(f, did, d):
        if d > 6:
            return False
        for u in f.walk():
            if u.get("k") == "DeclRefExpr" and u.get("d") == did:
                p = f.parent(u)
                # being the target of an assignment / ++ is not a use of the value
                if p is not None and p.get("k") in ("BinaryOperator", "CompoundAssignOperator") and p.get("op") in flow.ASSIGN_OPS \
                        and strip_all(p["c"][0]) is u:
                    continue
                if p is not None and p.get("k") == "UnaryOperator" and p.get("op") in ("++", "--"):
                    continue
                if not uses_ok(f, u, d):
                    return False
        return True
    return uses_ok(fn, call, depth)


# ---------------------------------------------------------------- R-C03-4
def rule_indentation(prog, fixture=False):
    r = RuleResult("R-C03-4", "the indentation counter is only ever adjusted by +/- 2 x (count of loop tokens on "
                   "the line); it is never clamped, reset or assigned between lines", floor=0 if fixture else 2)
    for fn in prog.fn("decode_line", required=not fixture):
        ind = [p for p in fn.params if p.get("n") == "indent"]
        if not ind:
            raise AnalysisBroken("decode_line has no indent parameter")
        did = ind[0]["d"]
        k = 0
        for n in fn.walk():
            tgt = None
            if n.get("k") in ("BinaryOperator", "CompoundAssignOperator") and n.get("op") in flow.ASSIGN_OPS:
                tgt = strip_all(n["c"][0])
            elif n.get("k") == "UnaryOperator" and n.get("op") in ("++", "--"):
                tgt = strip_all(n["c"][0])
            if tgt is None:
                continue
            # *indent or (*indent)
            t = tgt
            if not (t.get("k") == "UnaryOperator" and t.get("op") == "*" and strip_all(t["c"][0]).get("d") == did):
                continue
            k += 1
            key = "%s::%s::indent-update#%d" % (fn.relfile(), fn.qn, k)
            ok = n.get("k") == "CompoundAssignOperator" and n.get("op") in ("+=", "-=")
            why = ""
            if ok:
                # operand: 2 * count(...) possibly through a local
                rhs = strip_all(n["c"][1])
                ok = _is_twice_count(fn, rhs, prog=prog)
                if not ok:
                    why = "adjusted by `%s`, not by 2 per loop token" % show(rhs)
            else:
                why = "`%s` overwrites the indentation instead of adjusting it" % show(n)
            r.add(key, fn.loc(n), ok, "+/- 2 per loop token" if ok else
                  why + ": lines after it are listed at the wrong depth")
    return r


def _is_twice_count(fn, e, depth=0, prog=None):
    e = strip_all(e)
    if e is None or depth > 4:
        return False
    if e.get("k") == "DeclRefExpr":
        # local accumulated from `2 * count` terms
        ok_any = False
        for v in fn.walk():
            if v.get("k") == "VarDecl" and v.get("d") == e.get("d"):
                if v.get("c") and folded(v["c"][0]) not in (0, None) and not _is_twice_count(fn, v["c"][0], depth + 1, prog):
                    return False
                if v.get("c") and folded(v["c"][0]) is None:
                    # initialised with the whole amount at once
                    if not _is_twice_count(fn, v["c"][0], depth + 1, prog):
                        return False
                    ok_any = True
            if v.get("k") in ("CompoundAssignOperator", "BinaryOperator") and v.get("op") in flow.ASSIGN_OPS and \
                    strip_all(v["c"][0]).get("d") == e.get("d"):
                if v.get("op") != "+=" or not _is_twice_count(fn, v["c"][1], depth + 1, prog):
                    return False
                ok_any = True
        return ok_any
    if e.get("k") == "BinaryOperator" and e.get("op") == "*":
        a, b = strip_all(e["c"][0]), strip_all(e["c"][1])
        for x, y in ((a, b), (b, a)):
            if folded(x) == 2:
                return _is_count(fn, y, depth + 1, prog)
    if e.get("k") == "BinaryOperator" and e.get("op") == "+":
        # 2*a + 2*b ; also 2*(a + b)
        return _is_twice_count(fn, e["c"][0], depth + 1, prog) and _is_twice_count(fn, e["c"][1], depth + 1, prog)
    return False


def _base_var(e):
    e = strip_all(e)
    while e is not None and e.get("k") in ("MemberExpr", "ArraySubscriptExpr") and e.get("c"):
        e = strip_all(e["c"][0])
    return e.get("d") if e is not None and e.get("k") == "DeclRefExpr" else None


def _counting_function(f):
    """f returns a local (an int or a struct of ints) that starts at zero and is
    only ever changed by ++ : whatever it returns is a count of something."""
    rets = [n for n in f.walk() if n.get("k") == "ReturnStmt" and n.get("c")]
    if not rets:
        return False
    ds = set()
    for rt in rets:
        e = strip_all(rt["c"][0])
        while e is not None and e.get("k") == "CXXConstructExpr" and len(e.get("c", [])) == 1:
            e = strip_all(e["c"][0])
        if e is None or e.get("k") != "DeclRefExpr" or e.get("dk") != "Var":
            return False
        ds.add(e["d"])
    if len(ds) != 1:
        return False
    d = ds.pop()
    for n in f.walk():
        if n.get("k") == "VarDecl" and n.get("d") == d:
            if not n.get("c"):
                return False
            init = strip_all(n["c"][0])
            zeros = [init] if init.get("k") != "InitListExpr" else init.get("c", [])
            if any(folded(z) != 0 for z in zeros):
                return False
        tgt = None
        if n.get("k") in ("BinaryOperator", "CompoundAssignOperator") and n.get("op") in flow.ASSIGN_OPS:
            tgt = n["c"][0]
        elif n.get("k") == "UnaryOperator" and n.get("op") in ("--",):
            tgt = n["c"][0]
        if tgt is not None and _base_var(tgt) == d:
            return False
    return any(n.get("k") == "UnaryOperator" and n.get("op") == "++" and _base_var(n["c"][0]) == d for n in f.walk())


def _is_count(fn, e, depth=0, prog=None):
    e = strip_all(e)
    if e is None or depth > 5:
        return False
    if e.get("k") == "CallExpr":
        if prog is not None:
            ts = prog.call_targets(fn, e)
            if ts:
                return all(_counting_function(t) for t in ts)
        return notpl(e.get("q") or "") == "count"
    if e.get("k") == "MemberExpr" and e.get("c"):
        # a field of a struct of counters
        return _is_count(fn, e["c"][0], depth + 1, prog)
    if e.get("k") == "DeclRefExpr":
        # a sum of counts: starts at 0 (or at a count) and is only ever increased by counts
        adds = [w for w in fn.walk() if w.get("k") in ("CompoundAssignOperator", "BinaryOperator", "UnaryOperator") and
                w.get("op") in flow.ASSIGN_OPS | {"++", "--"} and (strip_all(w["c"][0]) or {}).get("d") == e.get("d")]
        for v in fn.walk():
            if v.get("k") == "VarDecl" and v.get("d") == e.get("d") and v.get("c"):
                if adds:
                    return (folded(v["c"][0]) == 0 or _is_count(fn, v["c"][0], depth + 1, prog)) and \
                        all(w.get("op") == "+=" and _is_count(fn, w["c"][1], depth + 1, prog) for w in adds)
                return _is_count(fn, v["c"][0], depth + 1, prog)
    return False


# ---------------------------------------------------------------- R-C03-5
def _scan_extent(f):
    """For a counting function over (pointer, length): how many elements does it look at?
    Returns ("len", lenparam) when exactly `length` elements starting at the pointer are examined,
    ("wrong", text) for a recognised scan of a different extent, (None, why) otherwise."""
    ptrs = [p for p in f.params if "*" in (p.get("t") or "")]
    ints = [p for p in f.params if p.get("w") and (p.get("t") or "") in ("size_t", "unsigned long", "unsigned int", "int",
                                                                         "unsigned char", "unsigned", "long")]
    if len(ptrs) != 1 or not ints:
        return None, "not a (pointer, length) function"
    P = ptrs[0]["d"]
    # aliases of the pointer: locals initialised from it (with a cast), possibly advanced
    alias = {P}
    for v in f.walk():
        if v.get("k") == "VarDecl" and v.get("c"):
            i = strip_all(v["c"][0])
            while i is not None and i.get("k") in ("CStyleCastExpr", "CXXStaticCastExpr", "CXXReinterpretCastExpr", "ImplicitCastExpr") and i.get("c"):
                i = strip_all(i["c"][0])
            if i is not None and i.get("k") == "DeclRefExpr" and i.get("d") in alias:
                alias.add(v["d"])
    loops = [n for n in f.walk() if n.get("k") in ("WhileStmt", "ForStmt")]
    if len(loops) != 1:
        return None, "%d loops" % len(loops)
    lp = loops[0]
    parts = lp["parts"]
    cond = strip_all(lp["c"][parts["cond"]]) if "cond" in parts else None
    body = lp["c"][parts["body"]]
    if cond is None:
        return None, "no loop condition"

    def is_param(e, ps):
        e = strip_all(e)
        return e is not None and e.get("k") == "DeclRefExpr" and e.get("d") in [p["d"] for p in ps]
    # (a) while (len--)   [optionally  > 0 / != 0]
    c = cond
    if c.get("k") == "BinaryOperator" and c.get("op") in (">", "!=") and folded(c["c"][1]) == 0:
        c = strip_all(c["c"][0])
    if c.get("k") == "UnaryOperator" and c.get("op") == "--" and c.get("postfix") and is_param(c["c"][0], ints):
        L = strip_all(c["c"][0])
        # one element per pass: exactly one advance of the pointer alias in the body, no other change of len
        adv = [x for x in walk(body) if x.get("k") == "UnaryOperator" and x.get("op") == "++" and
               (strip_all(x["c"][0]) or {}).get("d") in alias]
        other = [x for x in walk(body) if x.get("k") in ("UnaryOperator", "BinaryOperator", "CompoundAssignOperator") and
                 x.get("op") in ("++", "--", "=", "+=", "-=") and (strip_all(x["c"][0]) or {}).get("d") == L.get("d")]
        if len(adv) == 1 and not other:
            return "len", L.get("n")
        return None, "pointer and length do not move together"
    # (b) for (i = 0; i < len; ++i)  reading p[i]
    if lp["k"] == "ForStmt" and cond.get("k") == "BinaryOperator" and cond.get("op") in ("<", "<=", "!="):
        iv = strip_all(cond["c"][0])
        lim = strip_all(cond["c"][1])
        init0 = None
        if "init" in parts:
            for x in walk(lp["c"][parts["init"]]):
                if x.get("k") == "VarDecl" and x.get("c") and iv is not None and x.get("d") == iv.get("d"):
                    init0 = folded(x["c"][0])
                if x.get("k") == "BinaryOperator" and x.get("op") == "=" and iv is not None and \
                        (strip_all(x["c"][0]) or {}).get("d") == iv.get("d"):
                    init0 = folded(x["c"][1])
        inc = strip_all(lp["c"][parts["inc"]]) if "inc" in parts else None
        steps_one = inc is not None and inc.get("k") == "UnaryOperator" and inc.get("op") == "++" and \
            iv is not None and (strip_all(inc["c"][0]) or {}).get("d") == iv.get("d")
        if iv is not None and iv.get("k") == "DeclRefExpr" and iv.get("d") not in alias and is_param(lim, ints) and steps_one:
            reads = [x for x in walk(body) if x.get("k") == "ArraySubscriptExpr" and
                     (strip_all(x["c"][0]) or {}).get("d") in alias and (strip_all(x["c"][1]) or {}).get("d") == iv.get("d")]
            if reads and init0 == 0:
                if cond["op"] in ("<", "!="):
                    return "len", lim.get("n")
                return "wrong", "indices 0..%s inclusive are examined: one element more than the %s the line holds" % (lim.get("n"), lim.get("n"))
            if reads and init0 is not None:
                return "wrong", "the scan starts at index %d" % init0
        # (c) for (; p != end; ++p) with end = p0 + len
        if iv is not None and iv.get("k") == "DeclRefExpr" and iv.get("d") in alias and steps_one and \
                lim is not None and lim.get("k") == "DeclRefExpr" and cond["op"] in ("!=", "<"):
            for v in f.walk():
                if v.get("k") == "VarDecl" and v.get("d") == lim.get("d") and v.get("c"):
                    e = strip_all(v["c"][0])
                    if e is not None and e.get("k") == "BinaryOperator" and e.get("op") == "+" and \
                            (strip_all(e["c"][0]) or {}).get("d") in alias and is_param(e["c"][1], ints):
                        return "len", strip_all(e["c"][1]).get("n")
                    if e is not None and e.get("k") == "BinaryOperator" and e.get("op") == "+":
                        return "wrong", "the end pointer is `%s`" % show(e)
    return None, "loop form not recognised"


def rule_count_extent(prog, fixture=False):
    r = RuleResult("R-C03-5", "the function that counts loop tokens for the indentation examines exactly the bytes "
                   "of the line it is given (length many, starting at the pointer)", floor=0 if fixture else 1)
    seen = set()
    for fn in prog.fn("decode_line", required=not fixture):
        for n in fn.walk():
            if n.get("k") != "CallExpr":
                continue
            for t in prog.call_targets(fn, n):
                if t.uid in seen or not _counting_function(t):
                    continue
                seen.add(t.uid)
                kind, what = _scan_extent(t)
                key = "%s::%s::extent" % (t.relfile(), t.qn)
                if kind is None:
                    r.undecided.append("%s: %s" % (t.qn, what))
                elif kind == "len":
                    r.add(key, "%s:%d" % (t.relfile(), t.line), True, "examines exactly `%s` elements" % what)
                else:
                    r.add(key, "%s:%d" % (t.relfile(), t.line), False,
                          "%s: a byte that is not part of the line (left over in the buffer from an earlier, longer "
                          "line) can be counted as a FOR/NEXT/REPEAT/UNTIL token and shift the indentation" % what)
    return r


# ---------------------------------------------------------------- R-C03-6
def rule_listo_applies_to_every_line(prog, fixture=False):
    r = RuleResult("R-C03-6", "in decode_line the LISTO option bits are consulted independently of the line's number: "
                   "no read of `listo` is control-dependent on a condition over the line number, so the layout "
                   "options apply alike to numbered lines and to lines whose number is 0 (omitted)",
                   floor=0 if fixture else 1)
    for fn in prog.fn("decode_line", required=not fixture):
        lp = [p_ for p_ in fn.params if p_.get("n") == "listo"]
        if not lp:
            r.undecided.append("decode_line has no parameter named listo")
            continue
        # what derives from the line number: the two byte parameters and locals computed from them
        num = {p_["d"] for p_ in fn.params if p_.get("n") in ("line_hi", "line_lo", "hi", "lo")}
        changed = True
        while changed:
            changed = False
            for v in fn.walk():
                if v.get("k") == "VarDecl" and v.get("c") and v["d"] not in num and flow.decl_ids(v["c"][0]) & num:
                    num.add(v["d"])
                    changed = True
        k = 0
        for u in fn.walk():
            if u.get("k") != "DeclRefExpr" or u.get("d") != lp[0]["d"]:
                continue
            k += 1
            bad = None
            child = u
            for a in fn.ancestors(u):
                kk = a.get("k")
                cond = None
                if kk == "IfStmt":
                    c = a["c"][a["parts"]["cond"]]
                    if not any(x is u for x in walk(c)):
                        cond = c
                elif kk == "ConditionalOperator" and not any(x is u for x in walk(a["c"][0])):
                    cond = a["c"][0]
                elif kk == "BinaryOperator" and a.get("op") in ("&&", "||") and any(x is child for x in walk(a["c"][1])):
                    cond = a["c"][0]
                if cond is not None and flow.decl_ids(cond) & num:
                    bad = cond
                child = a
            r.add("%s::%s::listo-use#%d" % (fn.relfile(), fn.qn, k), fn.loc(u), bad is None,
                  "independent of the line number" if bad is None else
                  "this LISTO test is only made when `%s`: the option is applied to some lines and not to others "
                  "(e.g. no separating space after the number field of an unnumbered line)" % show(bad))
    return r


# ---------------------------------------------------------------- R-C03-7
def _base_and_offset(fn, e, depth=0):
    """(declaration id, name, constant offset) when e is `v`, `v - c`, `v + c`, a cast of those, or a local
    initialised once with such an expression; None otherwise."""
    e = strip_all(e)
    if e is None or depth > 4:
        return None
    if e.get("k") == "DeclRefExpr" and e.get("dk") in ("Var", "ParmVar"):
        writes = [x for x in fn.walk() for d_, _ in flow.written_decls(x) if d_ == e["d"]]
        if not writes:
            for v in fn.walk():
                if v.get("k") == "VarDecl" and v.get("d") == e["d"] and v.get("c"):
                    inner = _base_and_offset(fn, v["c"][0], depth + 1)
                    if inner:
                        return inner
        return (e["d"], e.get("n"), 0)
    if e.get("k") == "BinaryOperator" and e.get("op") in ("-", "+"):
        c = folded(e["c"][1])
        b = _base_and_offset(fn, e["c"][0], depth + 1)
        if c is not None and b:
            return (b[0], b[1], b[2] + (c if e["op"] == "+" else -c))
    return None


def _terminator_verified(g, at, vd, buf, fn=None):
    """The facts at `at` imply buf[v-1] == 0x0D (v being the declaration vd)."""
    def resolve(e, depth=0):
        # a never-reassigned local stands for its initialiser
        e = strip_all(e)
        if fn is not None and e is not None and e.get("k") == "DeclRefExpr" and e.get("dk") == "Var" and depth < 3 and \
                not any(d_ == e["d"] for x in fn.walk() for d_, _ in flow.written_decls(x)):
            for v in fn.walk():
                if v.get("k") == "VarDecl" and v.get("d") == e["d"] and v.get("c"):
                    return resolve(v["c"][0], depth + 1)
        return e

    def is_last(sub):
        sub = resolve(sub)
        if sub is None or sub.get("k") != "ArraySubscriptExpr":
            return False
        if not flow.same_expr(sub["c"][0], buf):
            return False
        if fn is not None:
            bo = _base_and_offset(fn, sub["c"][1])
            return bool(bo and bo[0] == vd and bo[2] == -1)
        bo = None
        idx = strip_all(sub["c"][1])
        if idx is not None and idx.get("k") == "BinaryOperator" and idx.get("op") == "-" and folded(idx["c"][1]) == 1:
            bo = strip_all(idx["c"][0])
        return bo is not None and bo.get("d") == vd
    for l, rel, rr in (g.cmps(at) or []):
        if rel == "==" and ((folded(rr) == 13 and is_last(l)) or (folded(l) == 13 and is_last(rr))):
            return True
    fs = g.at(at)
    if fs is None:
        return False
    nonzero = any(truth and (strip_all(a) or {}).get("d") == vd for a, truth in (g.truths(at) or [])) or \
        any((strip_all(l) or {}).get("d") == vd and ((rel in (">", "!=") and folded(rr) == 0) or (rel == ">=" and folded(rr) == 1))
            for l, rel, rr in (g.cmps(at) or []))
    for k in fs:
        if k[0] != "NAND" or len(k) != 3:
            continue
        parts = [g.rep.get(x) for x in k[1:]]
        if any(p_ is None for p_ in parts):
            continue
        term = pos = False
        for f in parts:
            if f[0] == "C" and f[2] == "!=" and ((folded(f[1]) == 13 and is_last(f[3])) or (folded(f[3]) == 13 and is_last(f[1]))):
                term = True
            elif f[0] == "C" and ((f[2] == "<" and folded(f[1]) == 0 and (strip_all(f[3]) or {}).get("d") == vd) or
                                  (f[2] in (">", "!=") and folded(f[3]) == 0 and (strip_all(f[1]) or {}).get("d") == vd)):
                pos = True
            elif f[0] == "T" and (strip_all(f[1]) or {}).get("d") == vd:
                pos = True
        if term and pos and nonzero:
            return True
    return False


def rule_whole_body_listed(prog, fixture=False):
    from . import c09
    r = RuleResult("R-C03-7", "the line decoder is given the whole record body that was read: its buffer argument is "
                   "the fread buffer and its length argument is the fread count, less one only where the last byte "
                   "was tested to be the 0x0D terminator (so no byte of a line - in particular none inside a quoted "
                   "string - is dropped, and none is invented)", floor=0 if fixture else 2)
    sites = []
    for fn, call, var, want, buf in c09._fread_sites(prog):
        if want is None:
            continue
        if any(x.get("k") == "CallExpr" and notpl(x.get("q") or "") in c09.DECODERS for x in fn.walk()):
            sites.append((fn, call, var, want, buf))
            continue
        # a reader helper: fread(buffer parameter, 1, count parameter, f) - seen from each of its callers
        wb, bb = strip_all(want), strip_all(buf)
        pi = {p_["d"]: i for i, p_ in enumerate(fn.params)}
        if wb is None or bb is None or wb.get("d") not in pi or bb.get("d") not in pi:
            continue
        if any(d_ in (wb["d"], bb["d"]) for x in fn.walk() for d_, _ in flow.written_decls(x)):
            continue
        for g in prog.functions.values():
            for c in g.walk():
                if c.get("k") == "CallExpr" and fn in prog.call_targets(g, c):
                    a = call_args(c)
                    if max(pi[wb["d"]], pi[bb["d"]]) < len(a):
                        sites.append((g, c, None, a[pi[wb["d"]]], a[pi[bb["d"]]]))
    for fn, call, var, want, buf in sites:
        base = _base_and_offset(fn, want)
        if base is None or base[2] != 0:
            r.undecided.append("%s: the fread count `%s` is not a plain variable" % (fn.loc(call), show(want)))
            continue
        vd, vn = base[0], base[1]
        order = {id(n): i for i, n in enumerate(fn.walk())}
        decs = [n for n in fn.walk() if n.get("k") == "CallExpr" and notpl(n.get("q") or "") in c09.DECODERS
                and order[id(n)] > order[id(call)]]
        # only the decoder calls that follow this fread before the next one
        later = [order[id(c2)] for _f, c2, _v, _w, _b in sites if _f is fn and order[id(c2)] > order[id(call)]]
        lim = min(later) if later else None
        g = None
        for dc in decs:
            if lim is not None and order[id(dc)] > lim:
                continue
            g = g or flow.Guards(fn)
            args = call_args(dc)
            key = "%s::%s::decoder-call@%d" % (fn.relfile(), fn.qn, len(r.instances) + 1)
            bufarg = [a for a in args if flow.same_expr(a, buf)]
            lenarg = None
            for a in args:
                bo = _base_and_offset(fn, a)
                if bo and bo[0] == vd and (strip_all(a) or {}).get("w"):
                    lenarg = (a, bo)
            if not bufarg:
                r.add(key, fn.loc(dc), False, "the line decoder is not given the buffer `%s` that fread filled (but an "
                      "offset or another buffer): bytes of the line are skipped or stale bytes are listed" % show(buf))
                continue
            if lenarg is None:
                r.undecided.append("%s: cannot relate the length given to the line decoder to the fread count `%s`" % (fn.loc(dc), vn))
                continue
            off = lenarg[1][2]
            verified = off < 0 and _terminator_verified(g, dc, vd, buf, fn)
            problem = None
            for n in fn.walk():
                if not (order[id(call)] < order[id(n)] < order[id(dc)]):
                    continue
                if not any(d_ == vd for d_, _ in flow.written_decls(n)):
                    continue
                dec1 = (n.get("k") == "UnaryOperator" and n.get("op") == "--") or \
                       (n.get("k") == "CompoundAssignOperator" and n.get("op") == "-=" and folded(n["c"][1]) == 1)
                if n.get("k") == "BinaryOperator" and n.get("op") == "=":
                    bo = _base_and_offset(fn, n["c"][1])
                    dec1 = bool(bo and bo[0] == vd and bo[2] == -1)
                if not dec1:
                    problem = "%s: `%s` is recomputed (%s) between the fread and the line decoder: the decoder no longer " \
                              "gets the number of bytes read" % (fn.loc(n), vn, show(n)[:50])
                    break
                off -= 1
                if _terminator_verified(g, n, vd, buf, fn):
                    verified = True
            if problem is None and off not in (0, -1):
                problem = "the line decoder is given %d bytes fewer than were read" % -off if off < 0 else \
                          "the line decoder is given %d bytes more than were read" % off
            if problem is None and off == -1 and not verified:
                problem = "the last byte of the record is dropped without having been tested to be the 0x0D terminator"
            if problem is None and off == 0 and _terminator_verified(g, dc, vd, buf, fn):
                problem = "the record's last byte is known to be the 0x0D terminator here, and it is handed to the line decoder " \
                          "as part of the line: a token or line-number reference cut off by the end of the line finds its " \
                          "missing byte in the terminator instead of being diagnosed"
            r.add(key, fn.loc(dc), problem is None,
                  "length = bytes read%s" % (" - 1 (terminator verified)" if off else "") if problem is None else problem)
    return r


# ---------------------------------------------------------------- R-C03-10
def rule_indent_is_a_width(prog, fixture=False):
    r = RuleResult("R-C03-10", "the indentation counter reaches printf as a field *width* (`%*s` of an empty string, or "
                   "a loop): used as a precision of a finite literal (`%.*s`) it would be capped at the literal's length "
                   "and deep nesting would stop indenting", floor=0 if fixture else 1)
    for fn in prog.fn("decode_line", required=not fixture):
        ind = [p_ for p_ in fn.params if p_.get("n") == "indent"]
        if not ind:
            r.undecided.append("decode_line has no `indent` parameter")
            continue
        idd = ind[0]["d"]
        for n in fn.walk():
            if n.get("k") != "CallExpr" or notpl(n.get("q") or "") not in ("printf", "fprintf"):
                continue
            a = call_args(n)
            fi = 1 if notpl(n.get("q")) == "fprintf" else 0
            if len(a) <= fi + 1 or not any(y.get("k") == "DeclRefExpr" and y.get("d") == idd for x in a[fi + 1:] for y in walk(x)):
                continue
            fmt = strip_all(a[fi])
            text = fmt.get("s") if fmt is not None and fmt.get("k") == "StringLiteral" else None
            key = "%s::%s::indent-printf#%d" % (fn.relfile(), fn.qn, len(r.instances) + 1)
            if text is None:
                r.undecided.append("%s: the format of the indentation printf is not a literal" % fn.loc(n))
                continue
            # which conversion consumes the indent argument?
            convs = list(re.finditer(r"%([-0 +#]*)(\*|\d+)?(?:\.(\*|\d+))?([lhz]*)([a-zA-Z%])", text))
            argi = fi + 1
            role = None
            for c in convs:
                if c.group(5) == "%":
                    continue
                for which, grp in (("width", c.group(2)), ("precision", c.group(3))):
                    if grp == "*":
                        if argi < len(a) and any(y.get("k") == "DeclRefExpr" and y.get("d") == idd for y in walk(a[argi])):
                            role = which
                        argi += 1
                if argi < len(a) and any(y.get("k") == "DeclRefExpr" and y.get("d") == idd for y in walk(a[argi])) and role is None:
                    role = "value"
                argi += 1
            ok = role == "width"
            r.add(key, fn.loc(n), ok, "field width" if ok else
                  "the indentation is used as the %s of `%s`: the blanks printed are capped (by the length of the string "
                  "argument), so indentation stops growing for deeply nested loops" % (role or "?", text))
    return r


def run(ctx):
    prog = ctx.prog("basic", "N")
    root = ctx.root or facts.REPO
    return [rule_line_number(prog, root), rule_input_independence(prog), rule_indentation(prog), rule_count_extent(prog),
            rule_listo_applies_to_every_line(prog), rule_whole_body_listed(prog), _shared_cursor_rule(prog), _shared_success_rule(prog), rule_indent_is_a_width(prog)]


def _shared_success_rule(prog):
    from . import c09
    r = c09.rule_success_only_at_end(prog)
    r.rule = "R-C03-9"        # every line of a well-formed program is listed: the readers stop only at the end marker
    return r


def _shared_cursor_rule(prog):
    from . import c08
    r = c08.rule_cursor_discipline(prog)
    r.rule = "R-C03-8"
    return r


def _fx_line(prog, fixture=True):
    return rule_line_number(prog, None, fixture=True,
                            formula="(((b3 ^  (b1 << 4)) & 0xFF) << 8) | (b2 ^ ((b1 << 2)  & 0xC0))")


SELFTESTS = [
    (_fx_line, ["c03_bad.c"], ["c03_good.c"], "print_target_line_number"),
    (rule_input_independence, ["c03_bad.c"], ["c03_good.c"], "ftell"),
    (rule_count_extent, ["c03_count_bad.c"], ["c03_count_good.c"], "count::extent"),
    (rule_whole_body_listed, ["c03_body_bad.c"], ["c03_body_good.c"], "decoder-call"),
]
