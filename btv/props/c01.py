"""C01 - dfs delivers each catalogued file's bytes exactly.

R-C01-1  field provenance: start sector (10 bits) and length (18 bits) are
         decoded from the documented catalogue bits (shared with C02)
R-C01-3  body path: every read of a file body goes through
         CatalogEntry::visit_file_body_piecewise on the data region of the
         volume the entry was found in (no command reads the drive directly)
R-C01-4  remaining-length accounting in the sector walk: the walk starts from
         file_length(), hands the visitor min(remaining, sector size) bytes of
         each sector, and decreases the remainder by exactly that amount; the
         walk covers start_sector()..last_sector()
R-C01-6  no degenerate `continue` in a table-walking loop (the condition must
         depend on something that changes on the continue path)
R-C01-7  the catalogue of Opus volume i is at track-0 sectors 2i, 2i+1
R-C01-8  Opus volume extents are derived from the list sorted by start sector
R-C01-5  last_sector(): an empty file occupies no further sector; otherwise
         start + ceil(length / sector size) - 1
"""
from ..runner import RuleResult
from ..facts import AnalysisBroken
from ..model import strip, strip_all, walk, show, notpl, is_call, call_args
from .. import flow
from ..flow import folded, same_expr, Guards
from . import c02

EXPLANATION = (
    "Static decision of structural clauses of C01 for every catalogue value: the start sector and length are the "
    "documented bits (bit-provenance domain, exhaustive); every command that outputs a file body obtains it from "
    "visit_file_body_piecewise on the data region of the volume in which the entry was found; inside the walk the "
    "amount handed to the visitor is min(remaining, 256) with the remainder initialised from file_length() and "
    "decreased by what was handed over, over sectors start..last.  Byte-identity of the sectors themselves and "
    "the renderings of type/list/dump are runtime behaviour and are not decided.")
ASSUMPTIONS = ["the Acorn DFS catalogue layout transcribed from the property", "DFS::SECTOR_BYTES is the sector size (256, checked)"]

WALK = "DFS::CatalogEntry::visit_file_body_piecewise"


def _sources(prog, fn, e, depth=0, seen=None):
    """Call expressions an expression's value may come from, through locals,
    references and parameters (callers' arguments)."""
    seen = seen if seen is not None else set()
    e = strip_all(e)
    if e is None or depth > 8:
        return []
    k = e.get("k")
    if is_call(e) and k not in ("CXXConstructExpr",):
        return [(fn, e)]
    if k == "CXXConstructExpr" and len(e.get("c", [])) == 1:
        return _sources(prog, fn, e["c"][0], depth + 1, seen)
    if k == "UnaryOperator" and e.get("op") in ("*", "&"):
        return _sources(prog, fn, e["c"][0], depth + 1, seen)
    if k == "DeclRefExpr":
        key = (fn.uid, e.get("d"))
        if key in seen:
            return []
        seen.add(key)
        out = []
        if e.get("dk") == "ParmVar":
            idx = [i for i, p in enumerate(fn.params) if p["d"] == e.get("d")]
            if idx:
                for g in prog.functions.values():
                    for n in g.walk():
                        if is_call(n) and n.get("fn") and any(t is fn for t in prog.call_targets(g, n)):
                            a = call_args(n)
                            if idx[0] < len(a):
                                out += _sources(prog, g, a[idx[0]], depth + 1, seen)
            return out
        for v in fn.walk():
            if v.get("k") == "VarDecl" and v.get("d") == e.get("d") and v.get("c"):
                out += _sources(prog, fn, v["c"][0], depth + 1, seen)
        return out
    return [(fn, e)]


def _root_var(e):
    for x in walk(e):
        if x.get("k") == "DeclRefExpr" and x.get("dk") in ("Var", "ParmVar"):
            return x
    return None


def rule_body_path(prog, fixture=False):
    r = RuleResult("R-C01-3", "file bodies are read only through visit_file_body_piecewise on "
                   "Volume::data_region() of the mounted volume", floor=0 if fixture else 2)
    walks = prog.fn(WALK, required=not fixture)
    if not walks:
        return r
    walk_fn = walks[0]
    for fn in prog.functions.values():
        k = 0
        for n in fn.walk():
            if not (is_call(n) and n.get("fn") == walk_fn.key):
                continue
            k += 1
            key = "%s::%s::visit#%d" % (fn.relfile(), fn.qn, k)
            srcs = _sources(prog, fn, call_args(n)[0])
            names = sorted(set(notpl(s.get("q") or show(s)) for _, s in srcs))
            ok = bool(srcs) and all(notpl(s.get("q") or "") == "DFS::Volume::data_region" for _, s in srcs)
            r.add(key, fn.loc(n), ok, "media argument is Volume::data_region()" if ok else
                  "the file body is read from %s instead of the data region of the mounted volume: sector numbers "
                  "would not be translated to the volume's origin" % (names or ["an unknown source"]))
    # nobody else reads sectors for body output: read_block callers in the command layer
    for fn in prog.functions.values():
        if not fn.relfile().startswith("dfs/cmd_") and fn.relfile() != "dfs/commands.cc":
            continue
        for n in fn.walk():
            if n.get("k") == "CXXMemberCallExpr" and (strip(n["c"][0]) or {}).get("n") == "read_block":
                # allowed: dump-sector and extract-unused read raw sectors by design
                ok = fn.relfile() in ("dfs/cmd_dump.cc", "dfs/cmd_extract_unused.cc")
                r.add("%s::%s::read_block" % (fn.relfile(), fn.qn), fn.loc(n), ok,
                      "raw sector command" if ok else
                      "command code reads sectors directly instead of through the catalogue entry's body walk")
    return r


def rule_walk_accounting(prog, fixture=False):
    r = RuleResult("R-C01-4", "in the body walk the visitor receives min(remaining, sector size) bytes per sector, "
                   "the remainder starts as file_length() and decreases by what was handed over, and the sectors "
                   "walked are start_sector()..last_sector()", floor=0 if fixture else 3)
    for fn in prog.fn(WALK, required=not fixture):
        loc = "%s:%d" % (fn.relfile(), fn.line)
        # the visitor invocation
        vcalls = []
        pvis = [p["d"] for p in fn.params if "function" in (p.get("ct") or p.get("t") or "")]
        for n in fn.walk():
            if n.get("k") == "CXXOperatorCallExpr" and n.get("op") == "()" and len(n["c"]) >= 4:
                obj = strip_all(n["c"][1])
                if obj.get("k") == "DeclRefExpr" and obj.get("d") in pvis:
                    vcalls.append(n)
        if len(vcalls) != 1:
            raise AnalysisBroken("%s: expected exactly one visitor invocation, found %d" % (fn.qn, len(vcalls)))
        vc = vcalls[0]
        begin, end = vc["c"][2], vc["c"][3]
        # end = begin + X
        e = strip_all(end)
        X = None
        if e.get("k") == "BinaryOperator" and e.get("op") == "+" and same_expr(e["c"][0], begin):
            X = e["c"][1]
        elif e.get("k") == "CXXOperatorCallExpr" and e.get("op") == "+" and same_expr(e["c"][1], begin):
            X = e["c"][2]
        problems = []
        rem = None
        if X is None:
            problems.append("the end pointer handed to the visitor is not `begin + amount`")
        else:
            xs = strip_all(X)
            xdef = xs
            if xs.get("k") == "DeclRefExpr":
                for v in fn.walk():
                    if v.get("k") == "VarDecl" and v.get("d") == xs.get("d") and v.get("c"):
                        xdef = strip_all(v["c"][0])
            # xdef must be min(rem, SECTOR): `rem > S ? S : rem`, `rem < S ? rem : S`, std::min(rem, S)
            rem, sect = _min_of(xdef)
            if rem is None:
                r.undecided.append("the amount handed to the visitor (%s) is not written as min(remaining, sector size); "
                                   "the accounting rule cannot follow this form" % show(xdef)[:80])
            else:
                if folded(sect) != 256:
                    problems.append("the per-sector amount is capped at %s, not the 256-byte sector size" % show(sect))
                rs = strip_all(rem)
                # remainder initialised from file_length()
                init_ok = False
                for v in fn.walk():
                    if v.get("k") == "VarDecl" and v.get("d") == rs.get("d") and v.get("c"):
                        if any(x.get("k") == "CXXMemberCallExpr" and (strip(x["c"][0]) or {}).get("n") == "file_length"
                               for x in walk(v["c"][0])):
                            init_ok = True
                if not init_ok:
                    problems.append("the remaining-length variable `%s` is not initialised from file_length()" % show(rem))
                # decreased by X after the visit, in the loop
                dec_ok = False
                for v in fn.walk():
                    if v.get("k") == "CompoundAssignOperator" and v.get("op") == "-=" and \
                            strip_all(v["c"][0]).get("d") == rs.get("d") and same_expr(v["c"][1], X):
                        dec_ok = True
                if not dec_ok:
                    problems.append("the remaining length is not decreased by the amount handed over")
                # nothing else assigns the remainder
                for v in fn.walk():
                    if v.get("k") in ("BinaryOperator", "CompoundAssignOperator") and v.get("op") in flow.ASSIGN_OPS and \
                            strip_all(v["c"][0]).get("d") == rs.get("d"):
                        if not (v.get("op") == "-=" and same_expr(v["c"][1], X)):
                            problems.append("the remaining length is also modified by `%s`" % show(v))
        if rem is not None or problems:
            r.add("%s::%s::amount" % (fn.relfile(), fn.qn), fn.loc(vc), not problems,
                  "visitor gets min(remaining, 256); remainder from file_length(), decreased by the amount" if not problems else
                  "; ".join(problems) + ": some file length is delivered short or long")
        # zero-length file: the amount must fold to 0 when file_length() is 0
        z = _fold_under(fn, X, {"file_length": 0}) if X is not None else None
        if z is None:
            r.undecided.append("cannot fold the visitor amount for a zero-length file")
        else:
            r.add("%s::%s::empty-file" % (fn.relfile(), fn.qn), fn.loc(vc), z == 0,
                  "an empty file hands the visitor 0 bytes" if z == 0 else
                  "for a file of length 0 the visitor is handed %d bytes (the contents of the sector at its start "
                  "address) instead of none" % z)
        # sectors walked: first read = start_sector(), last read = last_sector(), consecutive.
        # Decided with linear forms over {start_sector(), last_sector(), file_length()}:
        #   first  = argument of read_block with the induction variable at its initial value
        #   count  = trip count of the loop (i < N from a: N - a;  i <= E from a: E - a + 1)
        #   last   = first + count - 1
        probs2 = []
        loops = [n for n in fn.walk() if n.get("k") == "ForStmt" and any(x is vc for x in walk(n))]
        rloops = [n for n in fn.walk() if n.get("k") in ("DoStmt", "WhileStmt") and any(x is vc for x in walk(n))]
        if not loops and len(rloops) == 1 and rem is not None:
            # remaining-driven form: `do { read sec; visit min(remaining, 256); remaining -= that; ++sec; } while (remaining > 0)`
            # - the walk goes on exactly as long as bytes remain, so it covers the sectors the length needs;
            #   what is left to check is where it starts and that it moves on one sector per pass
            lp = rloops[0]
            cn = strip_all(lp["c"][-1] if lp["k"] == "DoStmt" else lp["c"][lp["parts"]["cond"]])
            rs_ = strip_all(rem)
            cond_ok = cn is not None and ((cn.get("k") == "BinaryOperator" and cn.get("op") in (">", "!=") and folded(cn["c"][1]) == 0 and
                                          (strip_all(cn["c"][0]) or {}).get("d") == rs_.get("d")) or
                                         (cn.get("k") == "DeclRefExpr" and cn.get("d") == rs_.get("d")))
            rb = [x for x in walk(lp) if x.get("k") == "CXXMemberCallExpr" and (strip(x["c"][0]) or {}).get("n") == "read_block"]
            if not cond_ok or len(rb) != 1:
                r.undecided.append("the sector loop is neither a counted for loop nor driven by the remaining length")
            else:
                sv = strip_all(rb[0]["c"][1])
                start_ok = step_ok = False
                if sv is not None and sv.get("k") == "DeclRefExpr":
                    for v in fn.walk():
                        if v.get("k") == "VarDecl" and v.get("d") == sv.get("d") and v.get("c"):
                            lf = _lin(fn, v["c"][0])
                            start_ok = lf is not None and _lin_norm(lf) == {"start_sector": 1}
                    incs = [x for x in walk(lp) if x.get("k") == "UnaryOperator" and x.get("op") == "++" and
                            (strip_all(x["c"][0]) or {}).get("d") == sv.get("d")]
                    others = [x for x in fn.walk() if x.get("k") in ("BinaryOperator", "CompoundAssignOperator") and
                              x.get("op") in flow.ASSIGN_OPS and (strip_all(x["c"][0]) or {}).get("d") == sv.get("d")]
                    body = lp["c"][0] if lp["k"] == "DoStmt" else lp["c"][lp["parts"]["body"]]
                    top = body.get("c", []) if body.get("k") == "CompoundStmt" else []
                    step_ok = len(incs) == 1 and not others and any(strip_all(t) is incs[0] or t is incs[0] for t in top)
                if not start_ok:
                    probs2.append("the first sector read is not start_sector()")
                if not step_ok:
                    probs2.append("the sector number is not advanced by exactly one in every pass")
                if lp["k"] == "WhileStmt":
                    # a pre-tested loop would skip the (single) read of an empty file; that is fine for the bytes
                    pass
                r.add("%s::%s::sectors" % (fn.relfile(), fn.qn), loc, not probs2,
                      "one consecutive sector per pass from start_sector() for as long as bytes remain" if not probs2 else "; ".join(probs2))
        elif len(loops) != 1:
            r.undecided.append("the visitor is not invoked from a single for loop")
        else:
            lp = loops[0]
            parts = lp["parts"]
            iv = [x for x in walk(lp["c"][parts["init"]]) if x.get("k") == "VarDecl"] if "init" in parts else []
            cond = strip_all(lp["c"][parts["cond"]]) if "cond" in parts else None
            inc = strip_all(lp["c"][parts["inc"]]) if "inc" in parts else None
            rb = [x for x in walk(lp) if x.get("k") == "CXXMemberCallExpr" and (strip(x["c"][0]) or {}).get("n") == "read_block"]
            if not iv or cond is None or len(rb) != 1 or inc is None or not (inc.get("k") == "UnaryOperator" and inc.get("op") == "++"
                                                                          and strip_all(inc["c"][0]).get("d") == iv[0]["d"]):
                r.undecided.append("the sector loop is not a counted for loop with one read_block per iteration")
            else:
                i = iv[0]
                a = _lin(fn, i["c"][0] if i.get("c") else None)
                ok_shape = cond.get("k") == "BinaryOperator" and cond.get("op") in ("<", "<=") and strip_all(cond["c"][0]).get("d") == i["d"]
                bound = _lin(fn, cond["c"][1]) if ok_shape else None
                arg0 = _lin(fn, rb[0]["c"][1], {i["d"]: a}) if a is not None else None
                argi = _lin(fn, rb[0]["c"][1], {i["d"]: {"<i>": 1}})
                if a is None or bound is None or arg0 is None or argi is None:
                    r.undecided.append("the sector loop's bounds are not linear in start_sector()/last_sector()")
                else:
                    count = _lin_sub(bound, a)
                    if cond["op"] == "<=":
                        count = _lin_add(count, {"": 1})
                    last = _lin_add(_lin_add(arg0, count), {"": -1})
                    if _lin_norm(arg0) != {"start_sector": 1}:
                        probs2.append("the first sector read is %s, not start_sector()" % _lin_show(arg0))
                    if _lin_norm(last) != {"last_sector": 1}:
                        probs2.append("the last sector read is %s, not last_sector()" % _lin_show(last))
                    if argi.get("<i>") != 1:
                        probs2.append("consecutive iterations do not read consecutive sectors")
                r.add("%s::%s::sectors" % (fn.relfile(), fn.qn), loc, not probs2,
                      "sectors start_sector()..last_sector(), one read each" if not probs2 else "; ".join(probs2))
    return r


def _lin(fn, e, subst=None, depth=0):
    """Linear form {symbol: coefficient, "": constant} of an integer expression over the
    accessors start_sector()/last_sector()/file_length(); locals resolved through their
    (single) initialiser; `subst` maps decl ids to linear forms.  None if not linear."""
    e = strip_all(e)
    if e is None or depth > 10:
        return None
    v = folded(e)
    if v is not None:
        return {"": v}
    k = e.get("k")
    if k == "CXXMemberCallExpr":
        nm = (strip(e["c"][0]) or {}).get("n")
        if nm in ("start_sector", "last_sector", "file_length"):
            return {nm: 1}
        return None
    if k == "DeclRefExpr":
        if subst and e.get("d") in subst:
            return dict(subst[e["d"]])
        for vd in fn.walk():
            if vd.get("k") == "VarDecl" and vd.get("d") == e.get("d") and vd.get("c"):
                return _lin(fn, vd["c"][0], subst, depth + 1)
        return None
    if k in ("CStyleCastExpr", "CXXStaticCastExpr", "CXXFunctionalCastExpr") and e.get("c"):
        return _lin(fn, e["c"][0], subst, depth + 1)
    if k == "CallExpr" and len(call_args(e)) == 1 and notpl(e.get("q") or "").endswith("sector_count"):
        return _lin(fn, call_args(e)[0], subst, depth + 1)
    if k == "BinaryOperator" and e.get("op") in ("+", "-"):
        a = _lin(fn, e["c"][0], subst, depth + 1)
        b = _lin(fn, e["c"][1], subst, depth + 1)
        if a is None or b is None:
            return None
        return _lin_add(a, b) if e["op"] == "+" else _lin_sub(a, b)
    return None


def _lin_add(a, b):
    out = dict(a)
    for k, v in b.items():
        out[k] = out.get(k, 0) + v
    return out


def _lin_sub(a, b):
    return _lin_add(a, {k: -v for k, v in b.items()})


def _lin_norm(a):
    return {k: v for k, v in a.items() if v != 0}


def _lin_show(a):
    a = _lin_norm(a)
    return " + ".join(("%d*%s()" % (v, k) if k else str(v)) for k, v in sorted(a.items())) or "0"


def _fold_under(fn, e, accessor_values, depth=0, env=None):
    """Constant value of expression e when the named accessors return the given
    constants (locals resolved through their initialisers); None if unknown."""
    env = env if env is not None else {}
    e = strip_all(e)
    if e is None or depth > 12:
        return None
    v = folded(e)
    if v is not None:
        return v
    k = e.get("k")
    if k == "CXXMemberCallExpr":
        nm = (strip(e["c"][0]) or {}).get("n")
        return accessor_values.get(nm)
    if k == "DeclRefExpr":
        for vd in fn.walk():
            if vd.get("k") == "VarDecl" and vd.get("d") == e.get("d") and vd.get("c"):
                # only if never reassigned before first use: accept initial value (first iteration)
                return _fold_under(fn, vd["c"][0], accessor_values, depth + 1, env)
        return None
    if k == "CXXConstructExpr" and len(e.get("c", [])) == 1:
        return _fold_under(fn, e["c"][0], accessor_values, depth + 1, env)
    if k == "ConditionalOperator":
        c = _fold_under(fn, e["c"][0], accessor_values, depth + 1, env)
        if c is None:
            a = _fold_under(fn, e["c"][1], accessor_values, depth + 1, env)
            b = _fold_under(fn, e["c"][2], accessor_values, depth + 1, env)
            return a if a is not None and a == b else None
        return _fold_under(fn, e["c"][1 if c else 2], accessor_values, depth + 1, env)
    if k == "BinaryOperator":
        op = e.get("op")
        a = _fold_under(fn, e["c"][0], accessor_values, depth + 1, env)
        b = _fold_under(fn, e["c"][1], accessor_values, depth + 1, env)
        if op == "&&":
            if a == 0 or b == 0:
                return 0
            return 1 if (a and b) else None
        if op == "||":
            if (a is not None and a != 0) or (b is not None and b != 0):
                return 1
            return 0 if (a == 0 and b == 0) else None
        if a is None or b is None:
            if op == "*" and (a == 0 or b == 0):
                return 0
            return None
        try:
            return {"+": a + b, "-": a - b, "*": a * b, "/": a // b if b else None, "%": a % b if b else None,
                    "<": int(a < b), ">": int(a > b), "<=": int(a <= b), ">=": int(a >= b), "==": int(a == b),
                    "!=": int(a != b), "&": a & b, "|": a | b, "^": a ^ b, "<<": a << b, ">>": a >> b}.get(op)
        except Exception:
            return None
    if k == "UnaryOperator" and e.get("op") == "!":
        a = _fold_under(fn, e["c"][0], accessor_values, depth + 1, env)
        return None if a is None else int(not a)
    if k == "CallExpr" and notpl(e.get("q") or "") == "std::min":
        vals = [_fold_under(fn, a, accessor_values, depth + 1, env) for a in call_args(e)]
        return min(vals) if all(v is not None for v in vals) else (0 if 0 in vals else None)
    return None


def _min_of(e):
    """(remaining, cap) if e is min(remaining, cap) in one of the usual spellings."""
    e = strip_all(e)
    if e is None:
        return None, None
    if e.get("k") == "ConditionalOperator":
        c = strip_all(e["c"][0])
        a, b = e["c"][1], e["c"][2]
        if c.get("k") == "BinaryOperator" and c.get("op") in (">", ">=", "<", "<="):
            l, rr = c["c"][0], c["c"][1]
            if c["op"] in (">", ">="):      # l > r ? r : l
                if same_expr(a, rr) and same_expr(b, l):
                    return (l, rr) if folded(rr) is not None else (rr, l)
            else:                             # l < r ? l : r
                if same_expr(a, l) and same_expr(b, rr):
                    return (l, rr) if folded(rr) is not None else (rr, l)
        return None, None
    if e.get("k") == "CallExpr" and notpl(e.get("q") or "") == "std::min":
        a = call_args(e)
        if len(a) == 2:
            return (a[0], a[1]) if folded(a[1]) is not None else (a[1], a[0])
    return None, None


def _named_call_source(fn, e, depth=0):
    e = strip_all(e)
    if e is None or depth > 4:
        return None
    if e.get("k") == "CXXMemberCallExpr":
        return (strip(e["c"][0]) or {}).get("n")
    if e.get("k") == "DeclRefExpr":
        for v in fn.walk():
            if v.get("k") == "VarDecl" and v.get("d") == e.get("d") and v.get("c"):
                return _named_call_source(fn, v["c"][0], depth + 1)
    if e.get("k") == "CXXConstructExpr" and len(e.get("c", [])) == 1:
        return _named_call_source(fn, e["c"][0], depth + 1)
    return None


def _is_len(fn, e):
    l = _lin(fn, e)
    return l is not None and _lin_norm(l) == {"file_length": 1}


def _lin_ls(fn, e, zero, depth=0):
    """_lin extended for last_sector(): recognises ceil(file_length/256) in its two usual
    spellings as the symbol CEIL (0 when the length is assumed zero) and resolves
    conditionals on the length by the assumption `zero`."""
    e = strip_all(e)
    if e is None or depth > 12:
        return None
    v = folded(e)
    if v is not None:
        return {"": v}
    k = e.get("k")
    if k == "ConditionalOperator":
        c = strip_all(e["c"][0])
        t = _len_truth(fn, c, zero)
        if t is None:
            return None
        return _lin_ls(fn, e["c"][1] if t else e["c"][2], zero, depth + 1)
    if k == "BinaryOperator" and e.get("op") == "/":
        # (len + 255) / 256
        num = _lin(fn, e["c"][0])
        if folded(e["c"][1]) == 256 and num is not None and _lin_norm(num) == {"file_length": 1, "": 255}:
            return {"": 0} if zero else {"CEIL": 1}
        return None
    if k == "BinaryOperator" and e.get("op") in ("+", "-"):
        # quot + (rem ? 1 : 0)
        a, b = strip_all(e["c"][0]), strip_all(e["c"][1])
        if e["op"] == "+" and _ldiv_member(fn, a) == "quot" and b.get("k") == "ConditionalOperator" and \
                _ldiv_member(fn, b["c"][0]) == "rem" and folded(b["c"][1]) == 1 and folded(b["c"][2]) == 0:
            return {"": 0} if zero else {"CEIL": 1}
        la, lb = _lin_ls(fn, a, zero, depth + 1), _lin_ls(fn, b, zero, depth + 1)
        if la is None or lb is None:
            return None
        return _lin_add(la, lb) if e["op"] == "+" else _lin_sub(la, lb)
    if k == "CXXMemberCallExpr":
        nm = (strip(e["c"][0]) or {}).get("n")
        if nm in ("start_sector", "file_length"):
            return {nm: 1}
        return None
    if k == "DeclRefExpr":
        for vd in fn.walk():
            if vd.get("k") == "VarDecl" and vd.get("d") == e.get("d") and vd.get("c"):
                return _lin_ls(fn, vd["c"][0], zero, depth + 1)
        return None
    if k in ("CStyleCastExpr", "CXXStaticCastExpr", "CXXFunctionalCastExpr") and e.get("c"):
        return _lin_ls(fn, e["c"][0], zero, depth + 1)
    if k == "CallExpr" and len(call_args(e)) == 1 and notpl(e.get("q") or "").endswith("sector_count"):
        return _lin_ls(fn, call_args(e)[0], zero, depth + 1)
    return None


def _ldiv_member(fn, e):
    """'quot' / 'rem' if e is that member of a variable initialised from ldiv(file_length, 256)."""
    e = strip_all(e)
    while e is not None and e.get("k") in ("CStyleCastExpr", "CXXStaticCastExpr") and e.get("c"):
        e = strip_all(e["c"][0])
    if e is None or e.get("k") != "MemberExpr" or e.get("n") not in ("quot", "rem") or not e.get("c"):
        return None
    b = strip_all(e["c"][0])
    if b.get("k") != "DeclRefExpr":
        return None
    for vd in fn.walk():
        if vd.get("k") == "VarDecl" and vd.get("d") == b.get("d") and vd.get("c"):
            init = strip_all(vd["c"][0])
            if init.get("k") == "CallExpr" and notpl(init.get("q") or "") in ("ldiv", "std::ldiv", "div", "std::div", "lldiv"):
                a = call_args(init)
                if len(a) == 2 and folded(a[1]) == 256 and _is_len(fn, a[0]):
                    return e.get("n")
    return None


def _len_truth(fn, c, zero):
    """Truth of a condition that only tests whether the file length is zero; None if it is something else."""
    c = strip_all(c)
    if c is None:
        return None
    if c.get("k") == "UnaryOperator" and c.get("op") == "!":
        t = _len_truth(fn, c["c"][0], zero)
        return None if t is None else (not t)
    if c.get("k") == "BinaryOperator" and c.get("op") in ("==", "!=", ">"):
        l, r = c["c"][0], c["c"][1]

        def lenlike(e):
            # the length itself, or the number of sectors it needs (zero exactly when the length is zero)
            if _is_len(fn, e):
                return True
            try:
                v = _lin_ls(fn, e, False)
            except RecursionError:
                v = None
            return v is not None and _lin_norm(v) == {"CEIL": 1}
        if folded(r) == 0 and lenlike(l):
            return {"==": zero, "!=": not zero, ">": not zero}[c["op"]]
        if folded(l) == 0 and lenlike(r) and c["op"] in ("==", "!="):
            return zero if c["op"] == "==" else (not zero)
        return None
    if _is_len(fn, c):
        return not zero
    return None


def rule_last_sector(prog, fixture=False):
    r = RuleResult("R-C01-5", "last_sector() is start_sector() for an empty file and "
                   "start_sector() + ceil(length/256) - 1 otherwise (linear forms with a ceiling-division symbol, "
                   "case split on length == 0)", floor=0 if fixture else 1)
    for fn in prog.fn("DFS::CatalogEntry::last_sector", required=not fixture):
        key = "%s::%s" % (fn.relfile(), fn.qn)
        loc = "%s:%d" % (fn.relfile(), fn.line)
        results = {}
        undecided = None
        for zero in (True, False):
            vals = []
            for n in fn.walk():
                if n.get("k") != "ReturnStmt" or not n.get("c"):
                    continue
                # is this return excluded by an enclosing / preceding test of the length?
                feasible = True
                child = n
                for a in fn.ancestors(n):
                    if a.get("k") == "IfStmt":
                        p = a["parts"]
                        t = _len_truth(fn, a["c"][p["cond"]], zero)
                        in_then = any(x is child for x in [a["c"][p["then"]]]) if "then" in p else False
                        in_else = any(x is child for x in [a["c"][p["else"]]]) if "else" in p else False
                        if t is None:
                            if in_then or in_else:
                                undecided = "a return depends on a condition other than the length being zero"
                        elif (in_then and not t) or (in_else and t):
                            feasible = False
                    child = a
                if not feasible:
                    continue
                # an earlier `if (len == 0) return ..;` takes the zero case away from later returns
                par = fn.parent(n)
                if par is not None and par.get("k") == "CompoundStmt":
                    for sib in par["c"]:
                        if sib is n:
                            break
                        if sib.get("k") == "IfStmt" and "else" not in sib["parts"]:
                            t = _len_truth(fn, sib["c"][sib["parts"]["cond"]], zero)
                            then = sib["c"][sib["parts"]["then"]]
                            leaves = then.get("k") == "ReturnStmt" or (then.get("k") == "CompoundStmt" and then.get("c") and then["c"][-1].get("k") == "ReturnStmt")
                            if t and leaves:
                                feasible = False
                if not feasible:
                    continue
                v = _lin_ls(fn, n["c"][0], zero)
                if v is None:
                    undecided = "the returned expression `%s` is not of a recognised form" % show(n["c"][0])[:70]
                else:
                    vals.append(_lin_norm(v))
            results[zero] = vals
        if undecided or not results[True] or not results[False]:
            r.undecided.append("last_sector(): " + (undecided or "no return found for one of the cases"))
            continue
        problems = []
        for v in results[True]:
            if v != {"start_sector": 1}:
                problems.append("for an empty file it returns %s, not start_sector()" % _lin_show(v))
        for v in results[False]:
            if v != {"start_sector": 1, "CEIL": 1, "": -1}:
                problems.append("for a non-empty file it returns %s, not start_sector() + ceil(length/256) - 1" %
                                _lin_show(v).replace("CEIL()", "ceil(length/256)"))
        r.add(key, loc, not problems, "0 -> start; else start + ceil(len/256) - 1" if not problems else "; ".join(problems))
    return r


# ---------------------------------------------------------------- R-C01-6
def _loop_body(loop):
    parts = loop.get("parts", {})
    if "body" not in parts:
        return None
    b = loop["c"][parts["body"]]
    return b if b.get("k") == "CompoundStmt" else None


def _ends_in_continue(st):
    if st is None:
        return False
    if st.get("k") == "ContinueStmt":
        return True
    if st.get("k") == "CompoundStmt" and st.get("c"):
        return st["c"][-1].get("k") == "ContinueStmt"
    return False


def _writes_in(n):
    out = set()
    for x in walk(n):
        for d, _ in flow.written_decls(x):
            out.add(d)
        if x.get("k") == "UnaryOperator" and x.get("op") in ("++", "--"):
            d = flow.lvalue_root(x["c"][0])
            if d is not None:
                out.add(d)
    return out


def rule_degenerate_continue(prog, fixture=False):
    r = RuleResult("R-C01-6", "a table-walking loop's `continue` is not degenerate: the condition of an early "
                   "`continue` must depend on something that changes on the continue path (otherwise every "
                   "later iteration takes the same branch and the rest of the table is never looked at)",
                   floor=0 if fixture else 8)
    for fn in prog.functions.values():
        for loop in fn.walk():
            if loop.get("k") not in ("ForStmt", "WhileStmt", "CXXForRangeStmt"):
                continue
            body = _loop_body(loop)
            if body is None:
                continue
            parts = loop["parts"]
            stmts = body.get("c", [])
            for k, st in enumerate(stmts):
                if st.get("k") != "IfStmt" or "else" in st.get("parts", {}):
                    continue
                if not _ends_in_continue(st["c"][st["parts"]["then"]]):
                    continue
                cond = st["c"][st["parts"]["cond"]]
                key = "%s::%s::continue@%s" % (fn.relfile(), fn.qn, "#%d" % (1 + sum(
                    1 for x in r.instances if x.key.startswith("%s::%s::continue@" % (fn.relfile(), fn.qn)))))
                # anything with an effect or an unknown value in the condition: not decided, not suspicious
                if any(is_call(x) and not (x.get("k") == "CXXMemberCallExpr" and
                                           (strip(x["c"][0]) or {}).get("n") in ("size", "empty", "has_value"))
                       and x.get("k") not in ("CXXConstructExpr",) for x in walk(cond)):
                    r.add(key, fn.loc(st), True, "condition calls a function (its value may change by itself)", nontrivial=False)
                    continue
                deps = flow.decl_ids(cond)
                locals_before = {}
                for prev in stmts[:k]:
                    for x in walk(prev):
                        if x.get("k") == "VarDecl" and x.get("c"):
                            locals_before[x["d"]] = x["c"][0]
                changed = True
                calls_in_defs = False
                while changed:
                    changed = False
                    for d in list(deps):
                        if d in locals_before:
                            init = locals_before[d]
                            if any(x.get("k") in ("CallExpr", "CXXMemberCallExpr") for x in walk(init)):
                                calls_in_defs = True
                            new = flow.decl_ids(init) - deps
                            if new:
                                deps |= new
                                changed = True
                if calls_in_defs:
                    r.add(key, fn.loc(st), True, "condition depends on a call result", nontrivial=False)
                    continue
                deps -= set(locals_before)
                on_path = set()
                for prev in stmts[:k]:
                    on_path |= _writes_in(prev)
                on_path |= _writes_in(cond)
                for nm in ("inc", "cond"):
                    if nm in parts:
                        on_path |= _writes_in(loop["c"][parts[nm]])
                if loop["k"] == "CXXForRangeStmt" and "loopvar" in parts:
                    on_path |= {x["d"] for x in walk(loop["c"][parts["loopvar"]]) if x.get("k") == "VarDecl"}
                then_w = _writes_in(st["c"][st["parts"]["then"]])
                on_path |= then_w
                after = set()
                for nxt in stmts[k + 1:]:
                    after |= _writes_in(nxt)
                stuck = (deps & after) - on_path
                # only a *table cursor* counts: a variable used as a subscript in what the condition reads
                index_vars = set()
                srcs = [cond] + [locals_before[d] for d in locals_before if d in flow.decl_ids(cond) or True]
                for src in srcs:
                    for x in walk(src):
                        idx = None
                        if x.get("k") == "ArraySubscriptExpr" and len(x.get("c", [])) == 2:
                            idx = x["c"][1]
                        elif x.get("k") == "CXXOperatorCallExpr" and x.get("op") == "[]" and len(x.get("c", [])) == 3:
                            idx = x["c"][2]
                        if idx is not None:
                            index_vars |= flow.decl_ids(idx)
                stuck &= index_vars
                ok = bool(deps & on_path) or not stuck
                names = sorted({x.get("n") for x in walk(body) if x.get("k") == "DeclRefExpr" and x.get("d") in stuck})
                r.add(key, fn.loc(st), ok, "the condition changes from one iteration to the next" if ok else
                      "`continue` under `%s`: the condition depends on %s, which is advanced only after the "
                      "`continue`; once it holds it holds for every later iteration, so the remaining entries "
                      "are never examined" % (show(cond), ", ".join(names)))
    return r


# ---------------------------------------------------------------- R-C01-7
def _lin_vars(e, depth=0, fn=None, keep=()):
    """Linear form over plain variables: {decl id: coefficient, "": constant}; None if not linear.
    With fn given, never-written locals are replaced by their initialiser (except those in `keep`)."""
    e = strip_all(e)
    if e is None or depth > 8:
        return None
    v = folded(e)
    if v is not None:
        return {"": v}
    k = e.get("k")
    if k == "DeclRefExpr":
        if fn is not None and e.get("dk") == "Var" and e.get("d") not in keep:
            written = any(d == e.get("d") for x in fn.walk() for d, _ in flow.written_decls(x)) or \
                any(x.get("k") == "UnaryOperator" and x.get("op") in ("++", "--") and flow.lvalue_root(x["c"][0]) == e.get("d")
                    for x in fn.walk())
            if not written:
                for vd in fn.walk():
                    if vd.get("k") == "VarDecl" and vd.get("d") == e.get("d") and vd.get("c"):
                        inner = _lin_vars(vd["c"][0], depth + 1, fn, keep)
                        if inner is not None:
                            return inner
        return {e.get("d"): 1}
    if k in ("CStyleCastExpr", "CXXStaticCastExpr", "CXXFunctionalCastExpr", "CXXConstructExpr") and len(e.get("c", [])) == 1:
        return _lin_vars(e["c"][0], depth + 1, fn, keep)
    if k == "CXXMemberCallExpr" and (strip(e["c"][0]) or {}).get("n") == "size" and len(e["c"]) == 1:
        obj = strip_all((strip(e["c"][0]) or {}).get("c", [None])[0])
        if obj is not None and obj.get("d") is not None:
            return {("size", obj["d"]): 1}       # the number of elements of a container, as a symbol
    if k == "BinaryOperator" and e.get("op") in ("+", "-", "*"):
        a, b = _lin_vars(e["c"][0], depth + 1, fn, keep), _lin_vars(e["c"][1], depth + 1, fn, keep)
        if a is None or b is None:
            return None
        if e["op"] == "*":
            for x, y in ((a, b), (b, a)):
                if set(x) <= {""}:
                    c = x.get("", 0)
                    return {kk: vv * c for kk, vv in y.items()}
            return None
        out = dict(a)
        for kk, vv in b.items():
            out[kk] = out.get(kk, 0) + (vv if e["op"] == "+" else -vv)
        return out
    return None


def rule_opus_catalogue_slot(prog, fixture=False, rule_id="R-C01-7"):
    r = RuleResult(rule_id, "the catalogue of Opus volume number i (letter 'A'+i) is looked for at sectors 2i, 2i+1 "
                   "of track 0 - a function of the letter alone, not of how many earlier volumes exist",
                   floor=0 if fixture else 1)
    for fn in prog.functions.values():
        if not (fn.qn.endswith("OpusDiscCatalogue::OpusDiscCatalogue") or (fixture and "volume" in fn.name.lower())):
            continue
        for n in fn.walk():
            if n.get("k") != "CXXMemberCallExpr" or (strip(n["c"][0]) or {}).get("n") not in ("emplace_back", "push_back"):
                continue
            args = n["c"][1:]
            if len(args) == 1:
                inner = strip_all(args[0])
                if inner is not None and inner.get("k") in ("CXXConstructExpr", "CXXTemporaryObjectExpr"):
                    args = inner.get("c", [])
            if len(args) < 4:
                continue
            loop = None
            for a in fn.ancestors(n):
                if a.get("k") == "ForStmt":
                    loop = a
                    break
            if loop is None or "init" not in loop["parts"]:
                continue
            iv = [x for x in walk(loop["c"][loop["parts"]["init"]]) if x.get("k") == "VarDecl"]
            if not iv:
                continue
            i_d = iv[0]["d"]
            key = "%s::%s::catalogue-slot" % (fn.relfile(), fn.qn)
            lf = _lin_vars(args[0], fn=fn, keep=(i_d,))
            written_in_loop = set()
            for x in walk(loop["c"][loop["parts"]["body"]]):
                for d, _ in flow.written_decls(x):
                    written_in_loop.add(d)
                if x.get("k") == "UnaryOperator" and x.get("op") in ("++", "--"):
                    d = flow.lvalue_root(x["c"][0])
                    if d is not None:
                        written_in_loop.add(d)
            if lf is None:
                r.undecided.append("%s: catalogue location `%s` is not a linear form" % (fn.loc(n), show(args[0])))
                continue
            lf = {k_: v_ for k_, v_ in lf.items() if v_ != 0}
            # the size of the list being filled counts the volumes found so far; it equals the index only if
            # no iteration can skip the append
            obj_ = strip_all((strip(n["c"][0]) or {}).get("c", [None])[0])
            szk = ("size", (obj_ or {}).get("d"))
            if szk in lf:
                body_ = loop["c"][loop["parts"]["body"]]
                skips = any(x.get("k") == "ContinueStmt" for x in walk(body_)) or \
                    any(a.get("k") in ("IfStmt", "SwitchStmt", "ConditionalOperator") for a in fn.ancestors(n)
                        if any(y is a for y in walk(body_)))
                if skips:
                    r.add(key, fn.loc(n), False, "the catalogue location `%s` is computed from the number of volumes found "
                          "so far, not from the volume letter: after an unused letter every later volume's catalogue is "
                          "looked for in the wrong pair of sectors" % show(args[0]))
                    continue
                lf[i_d] = lf.get(i_d, 0) + lf.pop(szk)
            # a pointer walk `for (p = base; ...; ++p)`: p - base is the number of the pass
            i0 = strip_all(iv[0]["c"][0]) if iv[0].get("c") else None
            if i0 is not None and i0.get("k") == "DeclRefExpr" and lf.get(i_d) and lf.get(i0.get("d")) == -lf.get(i_d) and \
                    i0.get("d") not in written_in_loop and not iv[0].get("w"):
                lf.pop(i0["d"])
            others = [k_ for k_ in lf if k_ not in ("", i_d)]
            carried = [k_ for k_ in others if k_ in written_in_loop]
            if carried and len(carried) == 1 and lf == {carried[0]: 1}:
                # a cursor that is advanced once in every iteration, before any `continue`, is a function of i too
                body = loop["c"][loop["parts"]["body"]]
                stmts = body.get("c", []) if body.get("k") == "CompoundStmt" else []
                p_inc = p_cont = p_use = None
                step = None
                for idx_, st_ in enumerate(stmts):
                    e_ = strip_all(st_)
                    if e_ is not None and e_.get("k") == "CompoundAssignOperator" and e_.get("op") == "+=" and \
                            (strip_all(e_["c"][0]) or {}).get("d") == carried[0] and folded(e_["c"][1]) is not None and p_inc is None:
                        p_inc, step = idx_, folded(e_["c"][1])
                    if st_.get("k") == "IfStmt" and any(x.get("k") == "ContinueStmt" for x in walk(st_)) and p_cont is None:
                        p_cont = idx_
                    if any(x is n for x in walk(st_)):
                        p_use = idx_
                init0 = None
                for v_ in fn.walk():
                    if v_.get("k") == "VarDecl" and v_.get("d") == carried[0] and v_.get("c"):
                        init0 = folded(v_["c"][0])
                n_writes = sum(1 for x in walk(body) for d, _ in flow.written_decls(x) if d == carried[0])
                if p_inc is not None and n_writes == 1 and (p_cont is None or p_inc < p_cont) and init0 is not None and p_use is not None:
                    off = init0 + (step if p_inc < p_use else 0)
                    okc = (step == 2 and off == 0)
                    r.add(key, fn.loc(n), okc, "a cursor advanced by 2 for every letter" if okc else
                          "the catalogue location is %d + %d x volume index, not twice the volume index" % (off, step))
                    continue
            if carried:
                r.add(key, fn.loc(n), False, "the catalogue location `%s` depends on a variable that is updated from "
                      "one volume to the next: after an unused volume letter every later volume's catalogue is looked "
                      "for in the wrong pair of sectors" % show(args[0]))
            elif lf == {i_d: 2}:
                r.add(key, fn.loc(n), True, "2 x volume index")
            elif not others:
                r.add(key, fn.loc(n), False, "the catalogue location is `%s`, not twice the volume index" % show(args[0]))
            else:
                r.undecided.append("%s: catalogue location `%s` uses variables this rule does not follow" % (fn.loc(n), show(args[0])))
    return r


# ---------------------------------------------------------------- R-C01-8
def rule_extents_from_sorted(prog, fixture=False):
    r = RuleResult("R-C01-8", "the extent of each Opus volume is derived from the start of the next one on the disc: "
                   "the loop that does so runs over the volume list only after it was sorted by start sector (and "
                   "nothing was inserted since)", floor=0 if fixture else 1)
    for fn in prog.functions.values():
        if not (fn.qn.endswith("OpusDiscCatalogue::OpusDiscCatalogue") or fixture):
            continue
        users = [n for n in fn.walk() if n.get("k") == "CXXMemberCallExpr" and (strip(n["c"][0]) or {}).get("n") == "set_next_sector"]
        if not users:
            continue
        # the container the loop iterates over
        loop = None
        for a in fn.ancestors(users[0]):
            if a.get("k") in ("ForStmt", "CXXForRangeStmt", "WhileStmt"):
                loop = a
                break
        if loop is None:
            r.undecided.append("%s: set_next_sector is not called from a loop" % fn.qn)
            continue
        cont = None
        for x in walk(loop):
            if x.get("k") == "CXXMemberCallExpr" and (strip(x["c"][0]) or {}).get("n") in ("rbegin", "begin", "crbegin", "cbegin", "rend", "end"):
                c0 = strip_all((strip(x["c"][0]) or {}).get("c", [None])[0])
                if c0 is not None and c0.get("k") in ("MemberExpr", "DeclRefExpr"):
                    cont = c0
                    break
        if cont is None:
            # indexed form: the only vector-typed member/variable subscripted or sized in the loop
            cands = {}
            for x in walk(loop):
                if x.get("k") in ("MemberExpr", "DeclRefExpr") and x.get("dk") in ("Field", "Var") and \
                        "vector" in (x.get("ct") or x.get("t") or ""):
                    cands[x.get("d")] = x
            if len(cands) == 1:
                cont = list(cands.values())[0]
        if cont is None:
            r.undecided.append("%s: cannot tell which container the extent loop walks" % fn.qn)
            continue

        def same_cont(e):
            e = strip_all(e)
            return e is not None and e.get("k") == cont.get("k") and e.get("d") == cont.get("d")

        def transfer(x):
            if x.get("k") == "CallExpr" and notpl(x.get("q") or "") in ("std::sort", "std::stable_sort"):
                a = call_args(x)
                if a and any(same_cont((strip(y["c"][0]) or {}).get("c", [None])[0]) for y in walk(a[0])
                             if y.get("k") == "CXXMemberCallExpr" and (strip(y["c"][0]) or {}).get("c")):
                    return True
            if x.get("k") == "CXXMemberCallExpr":
                cal = strip(x["c"][0])
                if cal and cal.get("c") and same_cont(cal["c"][0]) and cal.get("n") in (
                        "push_back", "emplace_back", "insert", "emplace", "erase", "clear", "resize", "assign", "swap"):
                    return False
            return None
        at = flow.must_hold_at(fn, transfer)
        first = loop
        st = at(users[0])
        key = "%s::%s::extent-loop" % (fn.relfile(), fn.qn)
        r.add(key, fn.loc(first), bool(st), "runs on the sorted list" if st else
              "the loop that gives each volume the next volume's start as its end runs before the list is sorted by "
              "start sector: on a disc whose volumes are not laid out in label order the extents are wrong (or the "
              "disc is rejected)")
    return r


# ---------------------------------------------------------------- R-C01-9
def rule_empty_files_do_not_overlap(prog, fixture=False):
    r = RuleResult("R-C01-9", "catalogue validation: an entry is remembered as `the previous file` for the overlap "
                   "test only where its length is known to be non-zero - an empty file has a start sector but "
                   "occupies nothing, and a well-formed disc on which a file follows an empty one at the same "
                   "sector must not be rejected (none of its files could then be read)", floor=0 if fixture else 1)
    LOOPS = ("ForStmt", "WhileStmt", "DoStmt", "CXXForRangeStmt")

    def mentions_call(fn, e, name, depth=0):
        for x in walk(e):
            if x.get("k") == "CXXMemberCallExpr" and (strip(x["c"][0]) or {}).get("n") == name:
                return True
            if depth < 3 and x.get("k") == "DeclRefExpr" and x.get("dk") == "Var":
                for v in fn.walk():
                    if v.get("k") == "VarDecl" and v.get("d") == x["d"] and v.get("c") and mentions_call(fn, v["c"][0], name, depth + 1):
                        return True
        return False
    for fn in prog.functions.values():
        for lp in fn.walk():
            if lp.get("k") not in LOOPS or "body" not in lp.get("parts", {}):
                continue
            body = lp["c"][lp["parts"]["body"]]
            in_body = {id(x) for x in walk(body)}
            decl_in = {x["d"] for x in walk(lp) if x.get("k") == "VarDecl"}
            # carried variables: declared outside the loop, assigned inside it
            assigns = {}
            for x in walk(body):
                tgt = rhs = None
                if x.get("k") == "CXXOperatorCallExpr" and x.get("op") == "=" and len(x.get("c", [])) == 3:
                    tgt, rhs = strip_all(x["c"][1]), x["c"][2]
                elif x.get("k") == "BinaryOperator" and x.get("op") == "=":
                    tgt, rhs = strip_all(x["c"][0]), x["c"][1]
                if tgt is not None and tgt.get("k") == "DeclRefExpr" and tgt.get("dk") == "Var" and tgt["d"] not in decl_in:
                    assigns.setdefault(tgt["d"], []).append((x, tgt, rhs))
            for d, sites in assigns.items():
                # is it the memory of the overlap test?  compared (itself or its start_sector()) with a last_sector()
                used = False
                for x in walk(body):
                    if x.get("k") in ("BinaryOperator", "CXXOperatorCallExpr") and x.get("op") in (">=", ">", "<", "<="):
                        ops = x["c"][-2:]
                        for a, b in ((ops[0], ops[1]), (ops[1], ops[0])):
                            if mentions_call(fn, a, "last_sector") and any(y.get("k") == "DeclRefExpr" and y.get("d") == d for y in walk(b)):
                                used = True
                if not used:
                    continue
                g = Guards(fn)
                for n, tgt, rhs in sites:
                    # the entry being remembered: the object whose start_sector()/address/value is stored
                    objs = [y for y in walk(rhs) if y.get("k") == "DeclRefExpr" and y.get("dk") == "Var" and
                            ("CatalogEntry" in (y.get("t") or y.get("ct") or "") or "Entry" in (y.get("t") or y.get("ct") or ""))]
                    if folded(rhs) == 0 or (strip_all(rhs) or {}).get("k") == "CXXNullPtrLiteralExpr":
                        continue
                    key = "%s::%s::%s=" % (fn.relfile(), fn.qn, tgt.get("n"))
                    if not objs:
                        r.undecided.append("%s: cannot tell which entry `%s` remembers" % (fn.loc(n), show(n)[:50]))
                        continue
                    od = objs[0]["d"]
                    ok = False
                    for l, rel, rr in (g.cmps(n) or []):
                        for a, b in ((l, rr), (rr, l)):
                            ca = strip_all(a)
                            if ca is not None and ca.get("k") == "CXXMemberCallExpr" and (strip(ca["c"][0]) or {}).get("n") == "file_length" and \
                                    folded(b) == 0 and rel in ("!=", ">", "<") and \
                                    any(y.get("k") == "DeclRefExpr" and y.get("d") == od for y in walk(ca)):
                                ok = True
                    for a, truth in (g.truths(n) or []):
                        ca = strip_all(a)
                        if truth and ca is not None and ca.get("k") == "CXXMemberCallExpr" and (strip(ca["c"][0]) or {}).get("n") == "file_length" \
                                and any(y.get("k") == "DeclRefExpr" and y.get("d") == od for y in walk(ca)):
                            ok = True
                    r.add(key, fn.loc(n), ok, "only entries of non-zero length are remembered" if ok else
                          "`%s` is updated from an entry whose length may be zero: the next entry is then tested for overlap with "
                          "a file that occupies no sector, and a valid disc is refused" % tgt.get("n"))
    return r


# ---------------------------------------------------------------- R-C01-11
def rule_type_length(prog, fixture=False):
    r = RuleResult("R-C01-11", "`type` writes exactly as many bytes as the piece of the file it was handed: the count "
                   "given to cout.write is body_end - body_start, or the size of a buffer that holds one byte per "
                   "input byte (CR is replaced, never dropped or doubled; nothing depends on the previous byte)",
                   floor=0 if fixture else 1)
    ONE_TO_ONE = {"std::replace_copy", "std::copy", "std::transform", "std::replace_copy_if"}
    for fn in prog.functions.values():
        if not (fn.relfile() == "dfs/cmd_type.cc" or fixture):
            continue
        ptrs = [p_ for p_ in fn.params if "*" in (p_.get("t") or "") and "char" in (p_.get("ct") or p_.get("t") or "")]
        if len(ptrs) < 2:
            continue
        b0, b1 = ptrs[0]["d"], ptrs[1]["d"]

        def vec_problem(vec):
            """None if the vector holds one byte per input byte; else (kind, text): kind "bad" or "unknown"."""
            vd = [v for v in fn.walk() if v.get("k") == "VarDecl" and v.get("d") == vec["d"]]
            init = strip_all(vd[0]["c"][0]) if vd and vd[0].get("c") else None
            ranged = init is not None and init.get("k") == "CXXConstructExpr" and len(init.get("c", [])) >= 2 and \
                (strip_all(init["c"][0]) or {}).get("d") == b0 and (strip_all(init["c"][1]) or {}).get("d") == b1
            muts = [x for x in fn.walk() if x.get("k") == "CXXMemberCallExpr" and (strip(x["c"][0]) or {}).get("n") in flow.MUTATORS
                    and (strip_all((strip(x["c"][0]) or {}).get("c", [None])[0]) or {}).get("d") == vec["d"]]
            sizing = [x for x in muts if (strip(x["c"][0]) or {}).get("n") not in ("reserve",)]
            algos = [x for x in fn.walk() if x.get("k") == "CallExpr" and notpl(x.get("q") or "") in ONE_TO_ONE and
                     any(y.get("k") == "CallExpr" and notpl(y.get("q") or "") == "std::back_inserter" and
                         any(z.get("k") == "DeclRefExpr" and z.get("d") == vec["d"] for z in walk(y)) for y in walk(x))]
            if ranged and not sizing and not algos:
                return None
            if not ranged and not sizing and len(algos) == 1:
                a = call_args(algos[0])
                if len(a) >= 2 and (strip_all(a[0]) or {}).get("d") == b0 and (strip_all(a[1]) or {}).get("d") == b1:
                    return None
                return ("unknown", "the algorithm that fills `%s` does not run over [body_start, body_end)" % vec.get("n"))
            pushes = [x for x in sizing if (strip(x["c"][0]) or {}).get("n") in ("push_back", "emplace_back")]
            if not ranged and not algos and pushes and len(pushes) == len(sizing):
                for pb in pushes:
                    loop = None
                    for a in fn.ancestors(pb):
                        if a.get("k") in ("ForStmt", "WhileStmt", "CXXForRangeStmt", "DoStmt"):
                            loop = a
                            break
                    if loop is None:
                        return ("bad", "%s: a byte is appended outside the loop over the piece" % fn.loc(pb))
                    body = loop["c"][loop["parts"]["body"]]
                    cond_anc = [a for a in fn.ancestors(pb) if any(y is a for y in walk(body)) and
                                a.get("k") in ("IfStmt", "SwitchStmt", "ConditionalOperator")]
                    skips = [x for x in walk(body) if x.get("k") in ("ContinueStmt", "BreakStmt", "ReturnStmt")]
                    if cond_anc or skips or len([q_ for q_ in pushes if any(y is q_ for y in walk(body))]) != 1:
                        return ("bad", "%s: the loop that builds the output does not append exactly one byte per input byte "
                                "(a conditional append or a `continue`): the text shown is shorter or longer than the file" % fn.loc(loop))
                return None
            return ("unknown", "cannot tell how many bytes `%s` holds" % vec.get("n"))

        def count_problem(e, depth=0):
            e = strip_all(e)
            for _ in range(3):
                if e is not None and e.get("k") in ("CXXStaticCastExpr", "CStyleCastExpr", "CXXFunctionalCastExpr") and e.get("c"):
                    e = strip_all(e["c"][0])
            if e is None:
                return ("unknown", "no count")
            if e.get("k") == "BinaryOperator" and e.get("op") == "-" and \
                    (strip_all(e["c"][0]) or {}).get("d") == b1 and (strip_all(e["c"][1]) or {}).get("d") == b0:
                return None
            if e.get("k") == "CXXMemberCallExpr" and (strip(e["c"][0]) or {}).get("n") == "size":
                vec = strip_all((strip(e["c"][0]) or {}).get("c", [None])[0])
                if vec is not None and vec.get("k") == "DeclRefExpr":
                    return vec_problem(vec)
            if e.get("k") == "DeclRefExpr" and e.get("dk") == "Var" and depth < 3:
                defs = [v["c"][0] for v in fn.walk() if v.get("k") == "VarDecl" and v.get("d") == e["d"] and v.get("c")]
                for x in fn.walk():
                    if x.get("k") == "BinaryOperator" and x.get("op") == "=" and (strip_all(x["c"][0]) or {}).get("d") == e["d"]:
                        defs.append(x["c"][1])
                    elif x.get("k") in ("CompoundAssignOperator", "UnaryOperator") and x.get("op") in flow.ASSIGN_OPS | {"++", "--"} and \
                            (strip_all(x["c"][0]) or {}).get("d") == e["d"]:
                        return ("unknown", "`%s` is adjusted in place" % e.get("n"))
                worst = None
                for d_ in defs:
                    p_ = count_problem(d_, depth + 1)
                    if p_ is not None and (worst is None or p_[0] == "bad"):
                        worst = p_
                return worst if defs else ("unknown", "no definition of `%s`" % e.get("n"))
            return ("unknown", "cannot relate the count `%s` to the piece handed in" % show(e)[:40])
        k = 0
        for n in fn.walk():
            if n.get("k") != "CXXMemberCallExpr" or (strip(n["c"][0]) or {}).get("n") != "write" or len(n["c"]) < 3:
                continue
            k += 1
            key = "%s::%s::write#%d" % (fn.relfile(), fn.qn, k)
            pr = count_problem(n["c"][2])
            if pr is None:
                r.add(key, fn.loc(n), True, "one byte written per byte handed in")
            elif pr[0] == "bad":
                r.add(key, fn.loc(n), False, pr[1])
            else:
                r.undecided.append("%s: %s" % (fn.loc(n), pr[1]))
    return r


def _shared_selector_assignment(prog):
    from . import c15
    r = c15.rule_selector_assignment(prog)
    r.rule = "R-C01-12"      # `:0.$.NAME` reads volume A of drive 0, whatever --drive said: the right volume's bytes
    return r


def _shared_volume_extent(prog):
    from . import c17
    r = c17.rule_volume_extent(prog)
    r.rule = "R-C01-13"      # the window through which file bodies are read is the whole volume (its last sectors included)
    return r


def _shared_surface_format(prog):
    from . import c13
    r = c13.rule_format_of_own_surface(prog)
    r.rule = "R-C01-10"      # each surface's catalogue is read as the variant identified on that surface
    return r


def run(ctx):
    prog = ctx.prog("dfs", "N")
    r1 = c02.rule_entry_fields(prog, only=["start_sector", "file_length"], rule_id="R-C01-1")
    return [r1, rule_body_path(prog), rule_walk_accounting(prog), rule_last_sector(prog),
            rule_degenerate_continue(prog), rule_opus_catalogue_slot(prog), rule_extents_from_sorted(prog),
            rule_empty_files_do_not_overlap(prog), _shared_surface_format(prog), rule_type_length(prog), _shared_selector_assignment(prog),
            _shared_volume_extent(prog)]


SELFTESTS = [
    (rule_type_length, ["c01_type_bad.cc"], ["c01_type_good.cc"], "write#2"),
    (rule_empty_files_do_not_overlap, ["c01_ovl_bad.cc"], ["c01_ovl_good.cc"], "last_file_start="),
    (lambda p, fixture=True: c02.rule_entry_fields(p, fixture=True, only=["start_sector", "file_length"], rule_id="R-C01-1"),
     ["c02_bad.cc"], ["c02_good.cc"], "file_length"),
    (rule_walk_accounting, ["c01_bad.cc"], ["c01_good.cc"], "amount"),
    (rule_degenerate_continue, ["c01_bad.cc"], ["c01_good.cc"], "count_volumes_bad"),
    (rule_opus_catalogue_slot, ["c01_bad.cc"], ["c01_good.cc"], "catalogue-slot"),
    (rule_extents_from_sorted, ["c01_bad.cc"], ["c01_good.cc"], "extent-loop"),
]
