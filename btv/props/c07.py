"""C07 - dfs fails cleanly on arbitrary image files and command lines.

Structural necessary conditions (each one a hostile file can otherwise exploit):
R-C07-1  what may be thrown: class derived from std::exception, by value
R-C07-2  exception containment: in main, every call that may throw is inside a
         try whose handlers cover std::exception
R-C07-3  exit status: main returns only 0/1/2; no exit/abort/terminate calls
         except in proven-unreachable switch defaults
R-C07-4  short reads: data of a FileAccess::read result is used only under a
         size check against the requested length (or offset < size)
R-C07-5  condition-less loops that read input have an exit governed by the
         amount of data read
R-C07-6  file-declared 32-bit sizes never size an allocation unclamped
R-C07-7  every dereference of a std::optional is dominated by a test of it
R-C07-8  every failure result of a command path is accompanied by a diagnostic
R-C07-9  every / and % has a divisor that is a non-zero constant or tested
R-C07-10 back()/front()/pop_back()/pop_front() on a standard sequence only
         where the container is known to be non-empty (test on every path, an
         append on every path, or a constructor-established class invariant)
R-C07-11 (= R-C06-6) check_track_is_supported validates head, cylinder and data
         size of every decoded sector (a sector of another size would overrun
         the fixed-size sector buffer it is later copied into)
R-C07-12 (= R-C10-7) zlib's total_in/total_out are not used as file positions in
         a function that resets the stream (the decompression loop would go
         back over consumed data for ever)
R-C07-13 a member set as a by-product of each call in a loop (HfeFile::geom_ by
         read_all_sectors) is read in the same loop pass, after that call
"""
from ..runner import RuleResult
from ..facts import AnalysisBroken
from ..model import strip, strip_all, walk, show, notpl, is_call, call_args, call_receiver, kids
from .. import flow
from ..flow import Guards, cmp_fact, same_expr, bool_atom, folded

EXPLANATION = (
    "Static decision of ten structural clauses of C07 over every product unit of dfs (all paths, hence all "
    "inputs): thrown types, exception containment in main, exit statuses and termination calls, size checks on "
    "every FileAccess::read result, input-governed exits of condition-less reading loops, taint from 32-bit "
    "file fields to allocation sizes, dominance of every std::optional dereference by a test, non-zero "
    "divisors, non-emptiness at every back()/front()/pop, and diagnostic-on-failure for the command paths.  Not decided: general memory safety and termination of all "
    "parsers, reachability of assertions in assertion-enabled builds.")
ASSUMPTIONS = [
    "clang AST/CFG; call graph resolves virtual calls to all overriders",
    "library functions throw only as tabulated (sto* family, optional::value, at, substr out_of_range are std::exception-derived)",
]


# ---------------------------------------------------------------- R-C07-1
def rule_throw_types(prog, fixture=False):
    r = RuleResult("R-C07-1", "every throw expression throws, by value, a class derived from std::exception",
                   floor=0 if fixture else 30)
    for fn in prog.functions.values():
        for n in fn.walk():
            if n.get("k") != "CXXThrowExpr" or n.get("rethrow"):
                continue
            key = "%s::%s::throw %s" % (fn.relfile(), fn.qn, notpl(n.get("thrown_cls") or n.get("thrown_t") or "?"))
            anc = [notpl(a) for a in n.get("thrown_anc", [])]
            if n.get("thrown_ptr"):
                r.add(key, fn.loc(n), False, "throws a pointer (%s): no handler for std::exception& matches it"
                      % n.get("thrown_t"))
            elif "std::exception" not in anc:
                r.add(key, fn.loc(n), False, "thrown type %s is not derived from std::exception" % n.get("thrown_t"))
            else:
                r.add(key, fn.loc(n), True, "by value, derives from std::exception")
    return r


# ---------------------------------------------------------------- R-C07-7
OPT_PREFIX = ("std::optional<", "const std::optional<")


def _is_optional_type(n):
    t = (n.get("ct") or n.get("t") or "")
    return t.startswith(OPT_PREFIX)


def optional_derefs(fn):
    for n in fn.walk():
        k = n.get("k")
        if k == "CXXOperatorCallExpr" and n.get("op") in ("*", "->") and len(n.get("c", [])) >= 2:
            obj = n["c"][1]
            if _is_optional_type(strip(obj)) or _is_optional_type(obj):
                yield n, obj, n["op"]
        elif k == "CXXMemberCallExpr":
            callee = strip(n["c"][0])
            if callee and callee.get("k") == "MemberExpr" and callee.get("n") == "value" and callee.get("c"):
                obj = callee["c"][0]
                if _is_optional_type(strip(obj)) or _is_optional_type(obj):
                    yield n, obj, "value()"


def _engaged_by_assignment(fn, g, node, obj):
    """The optional variable was assigned a (non-optional) value on every path
    since ... approximated: the nearest dominating element that writes the
    variable is an assignment/initialisation from a non-optional, non-nullopt
    expression in the same block before the use."""
    root = flow.lvalue_root(obj)
    if root is None:
        return False
    pos = g.position(node)
    if pos is None:
        return False
    b, idx = pos
    elems = fn.cfg.blocks[b]["e"][:idx]
    for e in reversed(elems):
        if not isinstance(e, int):
            continue
        n = fn.nodes.get(e)
        if n is None:
            continue
        tgt = None
        rhs = None
        if n.get("k") == "CXXMemberCallExpr":
            cal = strip(n["c"][0])
            if cal and cal.get("c") and flow.lvalue_root(cal["c"][0]) == root:
                if cal.get("n") == "emplace":
                    return True     # emplace() engages the optional
                if cal.get("n") == "reset":
                    return False
        if n.get("k") == "CXXOperatorCallExpr" and n.get("op") == "=" and len(n["c"]) == 3:
            tgt, rhs = n["c"][1], n["c"][2]
        elif n.get("k") == "BinaryOperator" and n.get("op") == "=":
            tgt, rhs = n["c"][0], n["c"][1]
        if tgt is not None and flow.lvalue_root(tgt) == root:
            rs = strip_all(rhs)
            for _ in range(3):
                # optional<T>(value) built implicitly for operator=(optional&&)
                if rs is not None and rs.get("k") in ("CXXConstructExpr", "CXXTemporaryObjectExpr", "CXXFunctionalCastExpr") \
                        and notpl(rs.get("cls") or "") in ("std::optional", "") and len(rs.get("c", [])) == 1:
                    rs = strip_all(rs["c"][0])
            t = (rs.get("ct") or rs.get("t") or "") if rs is not None else "nullopt"
            if not t.startswith(OPT_PREFIX) and "nullopt" not in t:
                return True
            return False
    return False


SUPPRESS_OPT = {
    # symbol-level suppression (DESIGN 3/C07-7): set by the earlier loop over the same
    # non-empty containers; a path-insensitive analysis cannot correlate the two loops.
    ("CommandSpace::invoke", "first_file_entry_pos"),
}


def _engaged_by_callee(prog, fn, g, n, obj):
    """`x.f` (x a local record) after `if (!fill(&x)) return ...`: fill() returns true only where its parameter's
    field f is engaged (a must-fact at each of its non-false returns)."""
    o = strip_all(obj)
    if o is None or o.get("k") != "MemberExpr" or o.get("dk") != "Field" or not o.get("c"):
        return False
    base = strip_all(o["c"][0])
    if base is None or base.get("k") != "DeclRefExpr" or base.get("dk") != "Var":
        return False
    for atom, truth in (g.truths(n) or []):
        call = strip_all(atom)
        if not truth or call is None or not is_call(call):
            continue
        args = call_args(call)
        for i, a in enumerate(args):
            sa = strip_all(a)
            if not (sa is not None and sa.get("k") == "UnaryOperator" and sa.get("op") == "&" and
                    (strip_all(sa["c"][0]) or {}).get("d") == base["d"]):
                continue
            ts = prog.call_targets(fn, call)
            if not ts:
                continue
            good = True
            for t in ts:
                if i >= len(t.params):
                    good = False
                    break
                pd = t.params[i]["d"]
                if any(d_ == pd for x in t.walk() for d_, _ in flow.written_decls(x)):
                    good = False
                    break
                gt = Guards(t)
                for rt in t.walk():
                    if rt.get("k") != "ReturnStmt" or not rt.get("c") or folded(rt["c"][0]) == 0:
                        continue
                    if folded(rt["c"][0]) is None:
                        good = False        # a computed result: not followed
                        break
                    have = False
                    for a2, t2 in (gt.truths(rt) or []):
                        m = strip_all(a2)
                        if t2 and m is not None and m.get("k") == "MemberExpr" and m.get("n") == o.get("n") and m.get("c") and \
                                (strip_all(m["c"][0]) or {}).get("d") == pd:
                            have = True
                    if not have:
                        good = False
                        break
                if not good:
                    break
            if good:
                return True
    return False


def _engaged_by_earlier_pass(fn, n, obj):
    """A local optional that one pass of a counted loop engages (assignment followed by a test that leaves on
    failure) and later passes use: may-analysis of (engagement, known value of the loop counter).  The counter's
    initial constant decides the branches of the first pass, so `if (index % 16 == 0) { o = read(); if (!o) throw; }`
    is seen to run in the first pass; afterwards the state arrives from the back edge, engaged."""
    from .c06 import _ceval, _NoValue
    o = strip_all(obj)
    if o is None or o.get("k") != "DeclRefExpr" or o.get("dk") != "Var":
        return False
    od = o["d"]
    loop = None
    for a in fn.ancestors(n):
        if a.get("k") == "ForStmt" and "init" in a.get("parts", {}):
            loop = a
    if loop is None:
        return False
    ivs = [v for v in walk(loop["c"][loop["parts"]["init"]]) if v.get("k") == "VarDecl" and v.get("c") and folded(v["c"][0]) is not None]
    if len(ivs) != 1:
        return False
    ivd, iv0 = ivs[0]["d"], folded(ivs[0]["c"][0])
    cfg = fn.cfg

    def step(st, x):
        xs, iv = st
        k = x.get("k")
        if k == "DeclStmt":
            for v in x.get("c", []):
                if v.get("k") == "VarDecl" and v.get("d") == od:
                    xs = "E" if not v.get("c") or not (strip_all(v["c"][0]) or {}).get("c") else "U"
                if v.get("k") == "VarDecl" and v.get("d") == ivd:
                    iv = iv0
        if k in ("UnaryOperator", "CompoundAssignOperator", "BinaryOperator") and x.get("op") in ("++", "--", "+=", "-=", "=") and \
                (strip_all(x["c"][0]) or {}).get("d") == ivd:
            iv = None
        if k == "CXXOperatorCallExpr" and x.get("op") == "=" and len(x.get("c", [])) == 3 and (strip_all(x["c"][1]) or {}).get("d") == od:
            rhs = strip_all(x["c"][2])
            xs = "E" if rhs is not None and rhs.get("k") == "DeclRefExpr" and rhs.get("n") == "nullopt" else "U"
        if k == "CXXMemberCallExpr" and (strip(x["c"][0]) or {}).get("n") in ("reset", "emplace", "swap") and \
                (strip_all((strip(x["c"][0]) or {}).get("c", [None])[0]) or {}).get("d") == od:
            xs = {"reset": "E", "emplace": "V"}.get((strip(x["c"][0]) or {}).get("n"), "U")
        return {(xs, iv)}

    def edge(p, s_, st):
        xs, iv = st
        b = cfg.blocks[p]
        if b.get("cond") is None or len(cfg.succ[p]) != 2 or cfg.succ[p][0] == cfg.succ[p][1]:
            return {st}
        cond = fn.nodes.get(b["cond"])
        outcome = cfg.succ[p][0] == s_
        if iv is not None:
            try:
                v = _ceval(fn, cond, lambda e: e.get("k") == "DeclRefExpr" and e.get("d") == ivd, iv)
                if bool(v) != outcome:
                    return set()
            except _NoValue:
                pass
        for f in flow.atomise(cond, outcome):
            if f[0] == "T" and (strip_all(f[1]) or {}).get("d") == od:
                if f[2] is True:
                    if xs == "E":
                        return set()
                    xs = "V"
                else:
                    if xs == "V":
                        return set()
                    xs = "E"
        return {(xs, iv)}
    inn, at = flow.may_states(fn, {("U", None)}, step, edge)
    sts = at(n)
    return bool(sts) and all(xs == "V" for xs, _iv in sts)


def rule_optional_access(prog, fixture=False):
    r = RuleResult("R-C07-7", "every dereference of a std::optional (*o, o->) is dominated on all paths by a "
                   "test that it is engaged (assert does not count)", floor=0 if fixture else 25)
    for fn in prog.functions.values():
        g = None
        for n, obj, how in optional_derefs(fn):
            if how == "value()":
                continue  # throws bad_optional_access: containment is R-C07-2's business
            if g is None:
                g = Guards(fn)
            key = "%s::%s::%s%s" % (fn.relfile(), fn.qn, "*" if how == "*" else "->", show(obj))
            ok = g.truthy(n, obj)
            if ok is None:
                continue
            if not ok and _engaged_by_assignment(fn, g, n, obj):
                ok = True
            if not ok and _engaged_by_earlier_pass(fn, n, obj):
                ok = True
            if not ok and _engaged_by_callee(prog, fn, g, n, obj):
                ok = True
            if not ok:
                o = strip_all(obj)
                if (fn.qn.split("::")[-2] + "::" + fn.qn.split("::")[-1] if "::" in fn.qn else fn.qn, o.get("n")) in SUPPRESS_OPT:
                    r.add(key, fn.loc(n), True, "suppressed by name: correlated loops (see DESIGN)", nontrivial=False)
                    continue
            r.add(key, fn.loc(n), ok, "" if ok else
                  "%s is dereferenced without a dominating test that it holds a value" % show(obj))
    return r


# ---------------------------------------------------------------- R-C07-10
END_ACCESS = {"back", "front", "pop_back", "pop_front", "top", "pop"}
GROWERS = {"push_back", "emplace_back", "push_front", "emplace_front", "push", "emplace"}
STD_SEQ = ("std::vector", "std::basic_string", "std::deque", "std::list", "std::stack", "std::queue",
           "std::__cxx11::basic_string", "std::__cxx11::list")


def _member_call(n):
    """(method name, receiver node) of a member call, else (None, None)."""
    if n.get("k") != "CXXMemberCallExpr":
        return None, None
    callee = strip(n["c"][0])
    if not callee or callee.get("k") != "MemberExpr" or not callee.get("c"):
        return None, None
    return callee.get("n"), callee["c"][0]


def _nonempty_fact(g, n, recv):
    ts = g.truths(n)
    if ts is None:
        return None
    for node, val in ts:
        nm, r2 = _member_call(strip_all(node) or {})
        if nm == "empty" and val is False and flow.same_expr(r2, recv):
            return "tested with empty()"
    for l, rel, rr in g.cmps(n) or []:
        nm, r2 = _member_call(strip_all(l) or {})
        if nm in ("size", "length") and flow.same_expr(r2, recv):
            c = folded(rr)
            if c is not None and ((rel == ">" and c >= 0) or (rel == ">=" and c >= 1) or (rel == "!=" and c == 0)):
                return "size() compared with %d" % c
    return False


def _grown_before(fn, g, n, recv):
    """Forward must-analysis: on every path to n an element has been appended to
    the same container and nothing since could have shrunk or replaced it."""
    pos = g.position(n)
    if pos is None:
        return False
    root = flow.lvalue_root(recv)

    def transfer(state, x):
        nm, r2 = _member_call(x)
        if nm is not None and flow.same_expr(r2, recv):
            if nm in GROWERS:
                return True
            if nm in flow.MUTATORS:
                return False
            return state
        if any(d == root and not elem for d, elem in flow.written_decls(x)):
            return False
        if x.get("k") == "DeclStmt" and any(v.get("d") == root for v in x.get("c", [])):
            return False
        return state
    cfg = fn.cfg
    out = {b: True for b in cfg.blocks}
    out[cfg.entry] = False
    changed = True

    reach = cfg.reachable()

    def block_out(b, upto=None):
        preds = [p for p in cfg.pred[b] if p in reach]      # dead code constrains nothing
        st = all(out[p] for p in preds) if preds else False
        if b == cfg.entry:
            st = False
        for e in cfg.blocks[b]["e"][:upto]:
            x = fn.nodes.get(e) if isinstance(e, int) else None
            if x is not None:
                st = transfer(st, x)
        return st
    while changed:
        changed = False
        for b in cfg.blocks:
            if b not in reach:
                continue
            o = block_out(b)
            if o != out[b]:
                out[b] = o
                changed = True
    return block_out(pos[0], pos[1])


def _vs_arith(prog, fn, e):
    """value_set extended with + and * of value sets."""
    e = strip_all(e)
    vs = value_set(prog, fn, e)
    if vs is not None or e is None:
        return vs
    if e.get("k") == "BinaryOperator" and e.get("op") in ("*", "+"):
        a, b = _vs_arith(prog, fn, e["c"][0]), _vs_arith(prog, fn, e["c"][1])
        if a is None or b is None:
            return None
        return {(x * y if e["op"] == "*" else x + y) for x in a for y in b}
    if e.get("k") == "DeclRefExpr":
        return value_set(prog, fn, e)
    return None


def _field_invariant_nonempty(prog, fn, recv):
    """Class invariant for a member container: it is only ever modified in the
    constructors of its class, and every constructor appends to it in a loop whose
    first iteration certainly runs and which can only be left early by a throw.
    Returns (True, why) / (False, why) / (None, why-undecidable)."""
    f = strip_all(recv)
    if f is None or f.get("k") != "MemberExpr" or f.get("dk") != "Field":
        return None, "receiver is not a member field"
    fq, fname = f.get("q") or f.get("n"), f.get("n")
    cls = fn.cls

    def is_field(x):
        x = strip_all(x)
        return x is not None and x.get("k") == "MemberExpr" and (x.get("q") or x.get("n")) == fq

    writers = set()
    for g in prog.functions.values():
        for x in g.walk():
            nm, r2 = _member_call(x)
            if nm in flow.MUTATORS | GROWERS and nm != "reserve" and is_field(r2):
                writers.add(g)
            elif x.get("k") in ("BinaryOperator", "CXXOperatorCallExpr") and x.get("op") in flow.ASSIGN_OPS:
                tgt = x["c"][0] if x["k"] == "BinaryOperator" else (x["c"][1] if len(x["c"]) > 1 else None)
                if tgt is not None and is_field(tgt):
                    writers.add(g)
    ctors = [g for g in prog.functions.values() if g.cls == cls and "inits" in g.raw]
    if not ctors:
        ctors = [g for g in writers if g.name == (cls or "").split("::")[-1]]
    non_ctor = [g for g in writers if g not in ctors]
    if non_ctor:
        return None, "%s is also modified in %s" % (fname, ", ".join(sorted(g.qn for g in non_ctor)))
    if not ctors:
        return None, "no constructor of %s found" % cls
    for c in ctors:
        ok = False
        for loop in c.walk():
            if loop.get("k") != "ForStmt" or "cond" not in loop.get("parts", {}) or "init" not in loop["parts"]:
                continue
            body = loop["c"][loop["parts"]["body"]]
            pushes = [x for x in walk(body) if _member_call(x)[0] in GROWERS and is_field(_member_call(x)[1])]
            if not pushes:
                continue
            if any(x.get("k") in ("BreakStmt", "ContinueStmt", "ReturnStmt", "GotoStmt") for x in walk(body)):
                continue
            # the push must not be nested in a conditional of the body
            cond_nested = False
            for a in c.ancestors(pushes[0]):
                if a is body or a["i"] == body["i"]:
                    break
                if a.get("k") in ("IfStmt", "SwitchStmt", "ConditionalOperator", "ForStmt", "WhileStmt", "CXXTryStmt"):
                    cond_nested = True
            if cond_nested:
                continue
            init = [x for x in walk(loop["c"][loop["parts"]["init"]]) if x.get("k") == "VarDecl" and x.get("c")]
            cond = strip_all(loop["c"][loop["parts"]["cond"]])
            if len(init) != 1 or cond.get("k") != "BinaryOperator" or cond.get("op") not in ("<", "<=", "!="):
                continue
            v0 = folded(init[0]["c"][0])
            lhs = strip_all(cond["c"][0])
            if v0 is None or lhs.get("k") != "DeclRefExpr" or lhs.get("d") != init[0]["d"]:
                continue
            lim = _vs_arith(prog, c, cond["c"][1])
            if lim is None:
                continue
            if (cond["op"] == "<" and min(lim) > v0) or (cond["op"] == "<=" and min(lim) >= v0) or \
                    (cond["op"] == "!=" and v0 not in lim and min(lim) > v0):
                ok = True
        if not ok:
            return None, "cannot show that constructor %s always appends to %s" % (c.qn, fname)
    return True, "class invariant: %s is filled by a loop that runs at least once in every constructor of %s " \
                 "and is modified nowhere else" % (fname, cls)


ELEMENT_ALGORITHMS = {"std::any_of", "std::all_of", "std::none_of", "std::find_if", "std::find_if_not", "std::count_if",
                      "std::for_each", "std::transform", "std::copy_if", "std::remove_if", "std::partition", "std::adjacent_find"}


def _visited_by_algorithm(prog, fn, recv):
    """fn is a lambda handed to a std algorithm that iterates over [X.begin(), X.end()) where X is the container
    `recv` designates: the callback only runs for an element, so X is not empty."""
    rv = strip_all(recv)
    if rv is None or rv.get("k") != "DeclRefExpr" or not fn.parent_key:
        return False
    for p_ in prog.by_key.get(fn.parent_key, []):
        for n in p_.walk():
            if n.get("k") != "CallExpr" or notpl(n.get("q") or "") not in ELEMENT_ALGORITHMS:
                continue
            a = call_args(n)
            if len(a) < 3 or not any(x.get("k") == "LambdaExpr" and x.get("fn") == fn.key for y in a[2:] for x in walk(y)):
                continue

            def over(e, names):
                e = strip_all(e)
                if e is None or e.get("k") != "CXXMemberCallExpr" or (strip(e["c"][0]) or {}).get("n") not in names:
                    return False
                o = strip_all((strip(e["c"][0]) or {}).get("c", [None])[0])
                return o is not None and o.get("k") == "DeclRefExpr" and o.get("d") == rv.get("d")
            if over(a[0], ("begin", "cbegin")) and over(a[1], ("end", "cend")):
                return True
    return False


def rule_nonempty_access(prog, fixture=False):
    r = RuleResult("R-C07-10", "back()/front()/pop_back()/pop_front() on a standard sequence is reached only when "
                   "the container is known to be non-empty (empty()/size() test on every path, an append just "
                   "before, or a class invariant established by the constructors)", floor=0 if fixture else 6)
    for fn in prog.functions.values():
        g = None
        for n in fn.walk():
            nm, recv = _member_call(n)
            if nm not in END_ACCESS:
                continue
            rt = notpl((strip_all(recv) or {}).get("ct") or (strip_all(recv) or {}).get("t") or "")
            q = notpl(n.get("q") or "")
            if not (q.startswith(STD_SEQ) or rt.replace("const ", "").startswith(STD_SEQ)):
                continue
            if g is None:
                g = Guards(fn)
            key = "%s::%s::%s.%s()" % (fn.relfile(), fn.qn, show(recv), nm)
            why = _nonempty_fact(g, n, recv)
            if why is None:
                continue  # unreachable
            if not why and _grown_before(fn, g, n, recv):
                why = "an element is appended just before"
            if not why and _visited_by_algorithm(prog, fn, recv):
                why = "inside the callback of an algorithm that runs over this very container (not called when it is empty)"
            if not why:
                inv, reason = _field_invariant_nonempty(prog, fn, recv)
                if inv:
                    why = reason
                elif (strip_all(recv) or {}).get("dk") == "Field":
                    r.undecided.append("%s: %s (%s)" % (fn.loc(n), key, reason))
                    continue
            if not why:
                rv_ = strip_all(recv)
                if rv_ is not None and rv_.get("k") == "DeclRefExpr" and rv_.get("dk") == "Var":
                    ranged = [v for v in fn.walk() if v.get("k") == "VarDecl" and v.get("d") == rv_["d"] and v.get("c") and
                              (strip_all(v["c"][0]) or {}).get("k") == "CXXConstructExpr" and len((strip_all(v["c"][0]) or {}).get("c", [])) >= 2]
                    if ranged:
                        r.undecided.append("%s: %s is built from a range or count whose size this rule does not compute; "
                                           "whether %s() is safe is not decided" % (fn.loc(n), show(recv), nm))
                        continue
            r.add(key, fn.loc(n), bool(why), why if why else
                  "%s.%s() is reached without any test that %s is non-empty: undefined behaviour (crash) on an "
                  "empty container" % (show(recv), nm, show(recv)))
    return r



# ---------------------------------------------------------------- R-C07-13
def _fields_assigned(f):
    """Names of members of *this that f assigns directly (whole-object assignment)."""
    out = set()
    for n in f.walk():
        tgt = None
        if n.get("k") == "BinaryOperator" and n.get("op") == "=":
            tgt = n["c"][0]
        elif n.get("k") == "CXXOperatorCallExpr" and n.get("op") == "=" and len(n["c"]) == 3:
            tgt = n["c"][1]
        t = strip_all(tgt) if tgt is not None else None
        if t is not None and t.get("k") == "MemberExpr" and t.get("dk") == "Field":
            base = strip_all(t["c"][0]) if t.get("c") else None
            if base is None or base.get("k") == "CXXThisExpr":
                out.add(t.get("n"))
    return out


def rule_side_effect_results(prog, fixture=False):
    r = RuleResult("R-C07-13", "a member that a method sets as a by-product of each call (the geometry computed while "
                   "decoding one side) is read in the same loop pass as the call it belongs to: values that go "
                   "together (a side's sectors and the geometry derived from them) are not taken from different "
                   "calls", floor=0 if fixture else 1)
    for fn in prog.functions.values():
        if not fn.cls:
            continue
        # calls, inside loops of fn, to methods of the same class that assign members
        for call in fn.walk():
            if call.get("k") != "CXXMemberCallExpr":
                continue
            recv = strip_all((strip(call["c"][0]) or {}).get("c", [None])[0]) if (strip(call["c"][0]) or {}).get("c") else None
            if recv is not None and recv.get("k") != "CXXThisExpr":
                continue
            ts = [t for t in prog.call_targets(fn, call) if t.cls == fn.cls and t is not fn]
            # "two results": the method hands back a value *and* leaves another one in a member
            ts = [t for t in ts if any(m.get("k") == "ReturnStmt" and m.get("c") for m in t.walk())]
            if not ts:
                continue
            fields = set()
            for t in ts:
                fields |= _fields_assigned(t)
            if not fields:
                continue
            loop = None
            for a in fn.ancestors(call):
                if a.get("k") in ("ForStmt", "WhileStmt", "CXXForRangeStmt", "DoStmt"):
                    loop = a
                    break
            if loop is None:
                continue
            loop_ids = {x["i"] for x in walk(loop)}
            dom = fn.cfg.dominators()
            cpos = fn.where().get(call["i"])
            for rd in fn.walk():
                if rd.get("k") != "MemberExpr" or rd.get("dk") != "Field" or rd.get("n") not in fields:
                    continue
                base = strip_all(rd["c"][0]) if rd.get("c") else None
                if base is not None and base.get("k") != "CXXThisExpr":
                    continue
                # writes do not count
                par = fn.parent(rd)
                if par is not None and par.get("k") in ("BinaryOperator", "CXXOperatorCallExpr") and par.get("op") == "=" and \
                        strip_all(par["c"][0] if par["k"] == "BinaryOperator" else par["c"][1]) is rd:
                    continue
                rpos = None
                for a in [rd] + list(fn.ancestors(rd)):
                    if a["i"] in fn.where():
                        rpos = fn.where()[a["i"]]
                        break
                key = "%s::%s::%s after %s" % (fn.relfile(), fn.qn, rd.get("n"), ts[0].name)
                inside = rd["i"] in loop_ids
                after = bool(cpos and rpos and (cpos[0] in dom.get(rpos[0], set())) and (cpos[0] != rpos[0] or cpos[1] < rpos[1]))
                ok = inside and after
                r.add(key, fn.loc(rd), ok, "read in the pass that made the call" if ok else
                      "`%s` is set afresh by every call of %s() in the loop at %s, but it is read %s: it then holds the "
                      "value of the *last* call, not of the call whose other results it is combined with (e.g. a blank "
                      "last side gives every side a geometry of 0 sectors per track: division by zero)" %
                      (rd.get("n"), ts[0].name, fn.loc(loop), "outside that loop" if not inside else "before the call"))
    return r



# ---------------------------------------------------------------- R-C07-4
READ_BASE = "DFS::FileAccess::read"
SAFE_METHODS = {"size", "empty", "begin", "end", "cbegin", "cend", "capacity", "rbegin", "rend", "at"}


def _read_calls(prog):
    base = [k for k, i in prog.callees.items() if notpl(i.get("q")) == READ_BASE]
    if not base:
        raise AnalysisBroken("anchor %s not found" % READ_BASE)
    keys = set()
    for k in base:
        keys |= prog.overriders(k)
    return keys


def _size_aliases(fn, did):
    """Locals initialised from R.size() (R = decl id) and never reassigned."""
    al = set()
    for n in fn.walk():
        if n.get("k") == "VarDecl" and n.get("c"):
            init = strip_all(n["c"][0])
            if _is_size_call(init, did):
                al.add(n["d"])
    if al:
        for n in fn.walk():
            for d, _ in flow.written_decls(n):
                al.discard(d)
    return al


def _is_size_call(e, did):
    e = strip_all(e)
    if e is None or e.get("k") != "CXXMemberCallExpr":
        return False
    callee = strip(e["c"][0])
    if not callee or callee.get("n") != "size" or not callee.get("c"):
        return False
    obj = strip_all(callee["c"][0])
    return obj.get("k") == "DeclRefExpr" and obj.get("d") == did


def _is_sizeish(e, did, aliases):
    if _is_size_call(e, did):
        return True
    s = strip_all(e)
    return s is not None and s.get("k") == "DeclRefExpr" and s.get("d") in aliases


def _min_with_size(fn, e, did, aliases):
    """expr (or the initialiser of the const local it names) is std::min(x, size)."""
    s = strip_all(e)
    if s is None:
        return False
    if s.get("k") == "DeclRefExpr":
        for n in fn.walk():
            if n.get("k") == "VarDecl" and n.get("d") == s.get("d") and n.get("c"):
                return _min_with_size(fn, n["c"][0], did, aliases)
        return False
    if s.get("k") == "CallExpr" and notpl(s.get("q") or "") == "std::min":
        return any(_is_sizeish(a, did, aliases) for a in call_args(s))
    return False


def rule_short_reads(prog, fixture=False):
    r = RuleResult("R-C07-4", "bytes of a FileAccess::read result are touched (data(), [], front/back, "
                   "begin()+k) only under a size check against the requested length, or at an offset "
                   "proven smaller than size()", floor=0 if fixture else 5)
    keys = _read_calls(prog)
    nsites = 0
    for fn in prog.functions.values():
        for n in fn.walk():
            if n.get("k") != "VarDecl" or not n.get("c"):
                continue
            init = strip_all(n["c"][0])
            while init is not None and init.get("k") == "CXXConstructExpr" and len(init.get("c", [])) == 1:
                init = strip_all(init["c"][0])
            if init is None or init.get("k") != "CXXMemberCallExpr" or init.get("fn") not in keys:
                continue
            nsites += 1
            did = n["d"]
            args = call_args(init)
            want = args[1] if len(args) > 1 else None
            aliases = _size_aliases(fn, did)
            g = Guards(fn)
            uses = []
            for u in fn.walk():
                if u.get("k") == "CXXMemberCallExpr":
                    callee = strip(u["c"][0])
                    if callee and callee.get("k") == "MemberExpr" and callee.get("c"):
                        obj = strip_all(callee["c"][0])
                        if obj.get("k") == "DeclRefExpr" and obj.get("d") == did:
                            nm = callee.get("n")
                            if nm in ("data", "front", "back"):
                                uses.append((u, nm, None))
                            elif nm in ("begin", "cbegin"):
                                # only when offset by arithmetic
                                p = fn.parent(u)
                                while p is not None and p.get("k") in ("ImplicitCastExpr", "ParenExpr", "MaterializeTemporaryExpr", "CXXBindTemporaryExpr", "ExprWithCleanups"):
                                    p = fn.parent(p)
                                if p is not None and p.get("k") == "CXXOperatorCallExpr" and p.get("op") in ("+", "+=") :
                                    off = p["c"][2] if len(p["c"]) > 2 else None
                                    uses.append((p, "begin()+k", off))
                elif u.get("k") == "CXXOperatorCallExpr" and u.get("op") == "[]" and len(u["c"]) == 3:
                    obj = strip_all(u["c"][1])
                    if obj.get("k") == "DeclRefExpr" and obj.get("d") == did:
                        uses.append((u, "[]", u["c"][2]))
            key0 = "%s::%s::%s" % (fn.relfile(), fn.qn, n["n"])
            if not uses:
                r.add(key0, fn.loc(n), True, "result bytes are not touched directly (only size()/iteration/pass-whole)",
                      nontrivial=False)
                continue
            bad = []
            for u, nm, off in uses:
                cs = g.cmps(u)
                if cs is None:
                    continue
                ok = False
                # pointer arithmetic on data(): find offset operand
                if nm == "data" and off is None:
                    p = fn.parent(u)
                    while p is not None and p.get("k") in ("ImplicitCastExpr", "ParenExpr", "CStyleCastExpr", "CXXStaticCastExpr", "CXXReinterpretCastExpr"):
                        p = fn.parent(p)
                    if p is not None and p.get("k") == "BinaryOperator" and p.get("op") == "+":
                        off = p["c"][1]
                for l, rel, rr in cs:
                    if not _is_sizeish(l, did, aliases):
                        continue
                    # size REL rr
                    if rel in (">=", "==") and want is not None and _same_amount(rr, want):
                        ok = True
                    elif rel == ">" and off is not None and same_expr(rr, off):
                        ok = True
                    elif rel in (">=", ">") and off is not None and folded(off) is not None and folded(rr) is not None \
                            and folded(off) < folded(rr) + (1 if rel == ">" else 0):
                        ok = True
                    if ok:
                        break
                if not ok and off is not None and _min_with_size(fn, off, did, aliases):
                    ok = True   # end pointer: offset <= size
                if not ok:
                    bad.append((u, nm))
            if bad:
                u, nm = bad[0]
                r.add(key0, fn.loc(u), False,
                      "%s bytes of `%s` are used via %s without a dominating check that size() reached the %s "
                      "requested (a short read at end of file returns fewer)" %
                      (len(bad), n["n"], nm, show(want) if want else "amount"))
            else:
                r.add(key0, fn.loc(n), True, "%d direct uses, all under a size check" % len(uses))
    r.info["read_sites"] = nsites
    return r


def _same_amount(a, b):
    if same_expr(a, b):
        return True
    fa, fb = folded(a), folded(b)
    return fa is not None and fa == fb


# ---------------------------------------------------------------- R-C07-2
def rule_containment(prog, fixture=False):
    from ..exc import MayThrow
    r = RuleResult("R-C07-2", "in main, every call that may (transitively) throw lies inside a try whose "
                   "handlers catch what it can throw (everything derived from std::exception)",
                   floor=0 if fixture else 3)
    mt = MayThrow(prog)
    main = prog.fn1("main")
    for site in mt._sites[main.uid]:
        node, kind, payload = site
        raised = mt.site_throws(main, site)
        what = notpl(node.get("q") or node.get("n") or kind) if node is not None else kind
        key = "%s::main::%s@%s" % (main.relfile(), what, _nth(main, node))
        if not raised:
            r.add(key, main.loc(node), True, "cannot throw", nontrivial=False)
            continue
        esc = mt._filter(main, node, raised)
        if esc:
            c = sorted(esc)[0]
            chain = []
            if kind == "call":
                ts = [t for t in prog.call_targets(main, node) if c in mt.sets[t.uid]]
                if ts:
                    chain = mt.explain(ts[0], c)
            r.add(key, main.loc(node), False,
                  "%s may throw %s here, outside any handler that catches it: the program would end in "
                  "std::terminate()" % (what, ", ".join(sorted(esc))), path=chain)
        else:
            r.add(key, main.loc(node), True, "may throw %s; caught by an enclosing handler" % ", ".join(sorted(raised)))
    r.info["functions_that_may_throw"] = sum(1 for v in mt.sets.values() if v)
    return r


def _nth(fn, node):
    """Ordinal of the node among same-kind, same-callee nodes of the function
    (stable under unrelated edits, unlike a line number)."""
    if node is None:
        return 0
    k = 0
    for n in fn.walk():
        if n is node:
            return k
        if n.get("k") == node.get("k") and n.get("fn") == node.get("fn"):
            k += 1
    return k


# ---------------------------------------------------------------- R-C07-3
TERMINATORS = {"abort", "exit", "_exit", "_Exit", "quick_exit", "std::terminate", "std::abort", "std::exit",
               "std::quick_exit", "std::_Exit", "raise", "kill", "pthread_exit"}


_GUARDS_CACHE = {}


def _refine_by_facts(fn, ret, vs):
    """Values of a returned variable that the facts holding at the return statement allow
    (`if (rc != KEEP_GOING) return rc;` never returns KEEP_GOING)."""
    e = strip_all(ret["c"][0])
    if e is None or e.get("k") != "DeclRefExpr" or len(vs) <= 1:
        return vs
    g = _GUARDS_CACHE.get(fn.uid)
    if g is None:
        g = _GUARDS_CACHE[fn.uid] = Guards(fn)
    out = set(vs)
    for l, rel, rr in (g.cmps(ret) or []):
        ls = strip_all(l)
        c = folded(rr)
        if ls is None or ls.get("k") != "DeclRefExpr" or ls.get("d") != e.get("d") or c is None:
            continue
        if rel == "!=":
            out.discard(c)
        elif rel == "==":
            out &= {c}
        elif rel == "<":
            out = {v for v in out if v < c}
        elif rel == "<=":
            out = {v for v in out if v <= c}
        elif rel == ">":
            out = {v for v in out if v > c}
        elif rel == ">=":
            out = {v for v in out if v >= c}
    return out or vs


def value_set(prog, fn, e, depth=0, bind=None, busy=frozenset()):
    """Set of constant values an int expression can take, or None if unknown.  `bind` = (caller, {param decl: argument},
    outer bind) resolves a parameter the callee hands back; `busy` holds the variables being evaluated (a variable
    defined in terms of itself - `status = finish(..., status)` - contributes nothing new: least fixpoint)."""
    e = strip_all(e)
    if e is None:
        return None
    v = folded(e)
    if v is not None:
        return {v}
    k = e.get("k")
    if k == "ConditionalOperator":
        a = value_set(prog, fn, e["c"][1], depth, bind, busy)
        b = value_set(prog, fn, e["c"][2], depth, bind, busy)
        return None if a is None or b is None else a | b
    if is_call(e) and depth < 6:
        ts = prog.call_targets(fn, e)
        if not ts:
            return None
        out = set()
        for t in ts:
            rs = [n for n in t.walk() if n.get("k") == "ReturnStmt"]
            if not rs:
                return None
            b2 = (fn, {p_["d"]: a for p_, a in zip(t.params, call_args(e))}, bind, busy)
            for rt in rs:
                if not rt.get("c"):
                    return None
                vs = value_set(prog, t, rt["c"][0], depth + 1, b2, frozenset())
                if vs is None:
                    return None
                out |= _refine_by_facts(t, rt, vs)
        return out
    if k == "DeclRefExpr" and e.get("dk") == "ParmVar" and bind is not None and e.get("d") in bind[1] and depth < 8:
        if any(d_ == e["d"] for x in fn.walk() for d_, _ in flow.written_decls(x)):
            return None
        return value_set(prog, bind[0], bind[1][e["d"]], depth + 1, bind[2], bind[3] if len(bind) > 3 else frozenset())
    if k == "DeclRefExpr" and e.get("dk") == "Var":
        if (fn.uid, e.get("d")) in busy:
            return set()
        busy = busy | {(fn.uid, e.get("d"))}
        # local assigned only constants
        vals = set()
        seen_def = False
        for n in fn.walk():
            if n.get("k") == "VarDecl" and n.get("d") == e.get("d"):
                if n.get("c"):
                    vs = value_set(prog, fn, n["c"][0], depth + 1, bind, busy)
                    if vs is None:
                        return None
                    vals |= vs
                    seen_def = True
            elif n.get("k") == "BinaryOperator" and n.get("op") == "=":
                if flow.lvalue_root(n["c"][0]) == e.get("d"):
                    vs = value_set(prog, fn, n["c"][1], depth + 1, bind, busy)
                    if vs is None:
                        return None
                    vals |= vs
                    seen_def = True
            elif n.get("k") in ("CompoundAssignOperator", "UnaryOperator") and n.get("op") in flow.ASSIGN_OPS | {"++", "--"}:
                if flow.lvalue_root(n["c"][0]) == e.get("d"):
                    return None
        return vals if (vals or seen_def) else None
    return None


def _exhaustive_switch(prog, fn, sw):
    cond = strip_all(sw["c"][0]) if sw.get("c") else None
    if cond is None:
        return False, "no condition"
    cases = set()
    has_default = False
    for n in walk(sw):
        if n.get("k") == "CaseStmt" and "v" in n:
            lo, hi = n["v"], n.get("v2", n["v"])
            cases |= set(range(lo, hi + 1))
        if n.get("k") == "DefaultStmt":
            has_default = True
    if has_default:
        return False, "has a default arm"
    # (a) enum
    raw = sw["c"][0]
    x = raw
    while x is not None and x.get("k") in ("ImplicitCastExpr", "ParenExpr") and x.get("c"):
        x = x["c"][0]
    t = notpl((x.get("ct") or x.get("t") or "").replace("const ", "").strip())
    en = prog.enums.get(t)
    if en:
        need = set(c["v"] for c in en["consts"])
        if need <= cases:
            return True, "covers every enumerator of %s" % t
        return False, "misses enumerators %s of %s" % (sorted(need - cases), t)
    # (b) x % N, x unsigned
    if cond.get("k") == "BinaryOperator" and cond.get("op") == "%":
        n = folded(cond["c"][1])
        lhs = strip(cond["c"][0])
        if n and lhs is not None and lhs.get("sg") is False and set(range(n)) <= cases:
            return True, "covers every residue modulo %d" % n
    return False, "controlling expression is neither an enumeration nor an unsigned residue"


def rule_exit_status(prog, fixture=False):
    r = RuleResult("R-C07-3", "main returns only 0, 1 or 2; exit/abort/terminate are called nowhere except "
                   "directly after an exhaustive switch all of whose arms leave the function",
                   floor=0 if fixture else 5)
    main = prog.fn1("main")
    k = 0
    for n in main.walk():
        if n.get("k") != "ReturnStmt":
            continue
        k += 1
        key = "%s::main::return#%d" % (main.relfile(), k)
        if not n.get("c"):
            r.add(key, main.loc(n), False, "return without a value")
            continue
        vs = value_set(prog, main, n["c"][0])
        if vs is None:
            r.add(key, main.loc(n), False, "exit status %s is not provably one of 0, 1, 2" % show(n["c"][0]))
        elif not vs <= {0, 1, 2}:
            r.add(key, main.loc(n), False, "exit status can be %s" % sorted(vs))
        else:
            r.add(key, main.loc(n), True, "status in %s" % sorted(vs))
    for fn in prog.functions.values():
        for n in fn.walk():
            if n.get("k") != "CallExpr":
                continue
            q = notpl(n.get("q") or "")
            if q not in TERMINATORS:
                continue
            key = "%s::%s::%s()" % (fn.relfile(), fn.qn, q)
            pos = fn.where().get(n["i"])
            ok, why = False, "not preceded by an exhaustive switch"
            if pos is not None:
                b = pos[0]
                preds = [p for p in fn.cfg.pred[b] if p in fn.cfg.reachable()]
                if not preds:
                    ok, why = True, "unreachable in the CFG"
                else:
                    ok = True
                    for p in preds:
                        pb = fn.cfg.blocks[p]
                        if pb.get("termk") != "SwitchStmt" or pb.get("term") is None:
                            ok, why = False, "reachable other than from a switch's no-match edge"
                            break
                        sw = fn.nodes.get(pb["term"])
                        ex, why = _exhaustive_switch(prog, fn, sw)
                        if not ex:
                            ok = False
                            break
            r.add(key, fn.loc(n), ok, ("%s() is unreachable: the switch %s" % (q, why)) if ok else
                  "%s() can be reached (%s): the process would die instead of returning from main" % (q, why))
    return r


# ---------------------------------------------------------------- R-C07-5
def _loops_without_condition(fn):
    for n in fn.walk():
        k = n.get("k")
        if k == "ForStmt":
            if "cond" not in n.get("parts", {}):
                yield n, n["c"][n["parts"]["body"]] if "body" in n.get("parts", {}) else None
        elif k == "WhileStmt":
            c = n["c"][n["parts"]["cond"]]
            if folded(c) not in (None, 0):
                yield n, n["c"][n["parts"]["body"]]
        elif k == "DoStmt":
            c = n["c"][1] if len(n.get("c", [])) > 1 else None
            if c is not None and folded(c) not in (None, 0):
                yield n, n["c"][0]


def _leaves_loop(stmt):
    """Statement (sub)tree contains return/throw, or a break not nested in an inner loop/switch."""
    def rec(x, inner):
        k = x.get("k")
        if k in ("ReturnStmt", "CXXThrowExpr"):
            return True
        if k == "BreakStmt" and not inner:
            return True
        nxt = inner or k in ("ForStmt", "WhileStmt", "DoStmt", "CXXForRangeStmt", "SwitchStmt")
        return any(rec(c, nxt) for c in x.get("c", []))
    return rec(stmt, False)


def _always_leaves(stmt):
    k = stmt.get("k")
    if k in ("ReturnStmt", "CXXThrowExpr", "BreakStmt"):
        return True
    if k == "ExprWithCleanups" and stmt.get("c"):
        return _always_leaves(stmt["c"][0])
    if k == "CompoundStmt":
        return bool(stmt.get("c")) and _always_leaves(stmt["c"][-1])
    if k == "IfStmt":
        p = stmt.get("parts", {})
        return "else" in p and _always_leaves(stmt["c"][p["then"]]) and _always_leaves(stmt["c"][p["else"]])
    return False


def rule_reading_loops(prog, fixture=False):
    r = RuleResult("R-C07-5", "a loop without a terminating condition that reads from the image file has an "
                   "exit governed by how much data the read returned", floor=0 if fixture else 1)
    keys = _read_calls(prog)
    for fn in prog.functions.values():
        for li, (loop, body) in enumerate(_loops_without_condition(fn)):
            if body is None:
                continue
            key = "%s::%s::loop#%d" % (fn.relfile(), fn.qn, li + 1)
            reads = []
            for n in walk(body):
                if n.get("k") == "VarDecl" and n.get("c"):
                    init = strip_all(n["c"][0])
                    while init is not None and init.get("k") == "CXXConstructExpr" and len(init.get("c", [])) == 1:
                        init = strip_all(init["c"][0])
                    if init is not None and init.get("k") == "CXXMemberCallExpr" and init.get("fn") in keys:
                        reads.append(n)
            if not reads:
                r.add(key, fn.loc(loop), True, "does not read from the file", nontrivial=False)
                continue
            for rd in reads:
                did = rd["d"]
                aliases = _size_aliases(fn, did)
                ok = False
                for n in walk(body):
                    if n.get("k") != "IfStmt":
                        continue
                    cond = n["c"][n["parts"]["cond"]]
                    if not any(_is_sizeish(x, did, aliases) for x in walk(cond)):
                        continue
                    # which branch is taken when the read came up short?
                    for outcome, part in ((True, "then"), (False, "else")):
                        if part not in n["parts"]:
                            continue
                        short = False
                        for f in flow.atomise(cond, outcome):
                            if f[0] != "C":
                                continue
                            l, rel, rr = f[1], f[2], f[3]
                            if _is_sizeish(rr, did, aliases):
                                l, rel, rr = rr, flow.SWAP[rel], l
                            if _is_sizeish(l, did, aliases) and rel in ("<", "<=", "!="):
                                short = True
                        if short and _always_leaves(n["c"][n["parts"][part]]):
                            ok = True
                r.add(key + "::" + rd["n"], fn.loc(loop), ok, "" if ok else
                      "the loop has no terminating condition and no exit that depends on the size of `%s`: at end "
                      "of file read() returns nothing and the loop never ends" % rd["n"])
    return r


# ---------------------------------------------------------------- R-C07-6
ALLOC_METHODS = {"resize", "reserve"}


class Taint:
    """Field-based, context-insensitive taint of values assembled from >= 3
    bytes of the image file (32-bit size/offset fields)."""

    def __init__(self, prog):
        self.prog = prog
        self.sources = set()
        for f in prog.functions.values():
            if self._is_wide_decoder(f):
                self.sources.add(f.key)
        self.t_decl = set()    # tainted locals / params / fields (decl ids are per-TU; key with unit)
        self.t_field = set()   # qualified field names
        self.t_param = set()   # (function key, index)
        self.t_ret = set(self.sources)
        self._solve()

    @staticmethod
    def _is_wide_decoder(f):
        if not f.params:
            return False
        ptr_params = {p["d"] for p in f.params if "*" in (p.get("ct") or p.get("t") or "")}
        if not ptr_params:
            return False
        for n in f.walk():
            if n.get("k") == "ReturnStmt":
                for x in walk(n):
                    if x.get("k") == "BinaryOperator" and x.get("op") == "<<":
                        sh = folded(x["c"][1])
                        if sh is not None and sh >= 16:
                            for y in walk(x["c"][0]):
                                if y.get("k") == "ArraySubscriptExpr":
                                    base = strip_all(y["c"][0])
                                    if base.get("k") == "DeclRefExpr" and base.get("d") in ptr_params:
                                        return True
        return False

    def dkey(self, f, d):
        return (f.unit["unit"], d)

    def tainted(self, f, e, depth=0):
        e0 = e
        e = strip(e)
        if e is None or depth > 30:
            return False
        k = e.get("k")
        w = e.get("w")
        if w is not None and w <= 16:
            return False   # bounded by its type
        if k == "DeclRefExpr":
            if e.get("dk") in ("Var", "ParmVar", "Binding"):
                return self.dkey(f, e["d"]) in self.t_decl
            return False
        if k == "MemberExpr":
            if e.get("dk") == "Field":
                return notpl(e.get("q")) in self.t_field
            return False
        if is_call(e):
            q = notpl(e.get("q") or "")
            if e.get("fn") in self.t_ret:
                return True
            if q in ("std::min",):
                args = call_args(e)
                return all(self.tainted(f, a, depth + 1) for a in args)
            if k in ("CXXConstructExpr", "CXXTemporaryObjectExpr", "CXXFunctionalCastExpr") and len(e.get("c", [])) == 1:
                return self.tainted(f, e["c"][0], depth + 1)
            return False
        if k in ("BinaryOperator",):
            if e.get("op") in ("<", "<=", ">", ">=", "==", "!=", "&&", "||", ","):
                return False
            if e.get("op") in ("%", "&"):
                # bounded by the right operand when that is untainted
                return self.tainted(f, e["c"][0], depth + 1) and self.tainted(f, e["c"][1], depth + 1)
            if e.get("op") == "/":
                return self.tainted(f, e["c"][0], depth + 1)
            return any(self.tainted(f, c, depth + 1) for c in e.get("c", []))
        if k == "ConditionalOperator":
            c = strip_all(e["c"][0])
            a, b = e["c"][1], e["c"][2]
            # min idiom: (x < y) ? x : y  /  (x > y) ? y : x  - bounded by both operands
            if c is not None and c.get("k") == "BinaryOperator" and c.get("op") in ("<", "<=", ">", ">="):
                l, r = c["c"][0], c["c"][1]
                is_min = (c["op"] in ("<", "<=") and same_expr(a, l) and same_expr(b, r)) or \
                         (c["op"] in (">", ">=") and same_expr(a, r) and same_expr(b, l))
                if is_min:
                    return self.tainted(f, a, depth + 1) and self.tainted(f, b, depth + 1)
            return self.tainted(f, a, depth + 1) or self.tainted(f, b, depth + 1)
        if k in ("UnaryOperator", "CStyleCastExpr", "CXXStaticCastExpr", "CXXFunctionalCastExpr", "ImplicitCastExpr",
                 "ParenExpr"):
            cs = e.get("c", [])
            return any(self.tainted(f, c, depth + 1) for c in cs)
        return False

    def _solve(self):
        prog = self.prog
        changed = True
        rounds = 0
        while changed and rounds < 50:
            changed = False
            rounds += 1
            for f in prog.functions.values():
                # params
                for i, p in enumerate(f.params):
                    if (f.key, i) in self.t_param and self.dkey(f, p["d"]) not in self.t_decl:
                        self.t_decl.add(self.dkey(f, p["d"]))
                        changed = True
                for ini in f.raw.get("inits", []):
                    if ini.get("member") and ini.get("init") and self.tainted(f, ini["init"]):
                        q = "%s::%s" % (notpl(f.cls or ""), ini["member"])
                        if q not in self.t_field:
                            self.t_field.add(q)
                            changed = True
                for n in f.walk():
                    k = n.get("k")
                    if k == "VarDecl" and n.get("c") and self.tainted(f, n["c"][0]):
                        dk = self.dkey(f, n["d"])
                        if dk not in self.t_decl:
                            self.t_decl.add(dk)
                            changed = True
                    elif k in ("BinaryOperator", "CompoundAssignOperator") and n.get("op") in flow.ASSIGN_OPS:
                        if self.tainted(f, n["c"][1]):
                            tgt = strip_all(n["c"][0])
                            if tgt.get("k") == "DeclRefExpr":
                                dk = self.dkey(f, tgt["d"])
                                if dk not in self.t_decl:
                                    self.t_decl.add(dk)
                                    changed = True
                            elif tgt.get("k") == "MemberExpr" and tgt.get("dk") == "Field":
                                q = notpl(tgt.get("q"))
                                if q not in self.t_field:
                                    self.t_field.add(q)
                                    changed = True
                    elif k == "ReturnStmt" and n.get("c") and self.tainted(f, n["c"][0]):
                        if f.key not in self.t_ret:
                            self.t_ret.add(f.key)
                            changed = True
                    if is_call(n) and n.get("fn"):
                        args = call_args(n)
                        if n.get("k") == "CXXOperatorCallExpr":
                            continue
                        keys = prog.overriders(n["fn"]) if n.get("virt") else {n["fn"]}
                        for i, a in enumerate(args):
                            if self.tainted(f, a):
                                for kk in keys:
                                    if (kk, i) not in self.t_param and prog.by_key.get(kk):
                                        self.t_param.add((kk, i))
                                        changed = True


def rule_alloc_taint(prog, fixture=False):
    r = RuleResult("R-C07-6", "a 32-bit size read from the image file never sizes an allocation "
                   "(resize/reserve/sized construction/new[]) unless clamped by an untainted bound",
                   floor=0 if fixture else 5)
    t = Taint(prog)
    r.info["sources"] = sorted(notpl(prog.callees[k]["q"]) for k in t.sources if k in prog.callees)
    r.info["tainted_fields"] = sorted(t.t_field)
    if not fixture and not t.sources:
        raise AnalysisBroken("no wide little-endian field decoder found (anchor le_quad vanished)")
    for fn in prog.functions.values():
        g = None
        idx = 0
        for n in fn.walk():
            sink = None
            k = n.get("k")
            if k == "CXXMemberCallExpr":
                callee = strip(n["c"][0])
                if callee and callee.get("n") in ALLOC_METHODS and len(n["c"]) >= 2:
                    sink = (callee.get("n"), n["c"][1])
            elif k in ("CXXConstructExpr", "CXXTemporaryObjectExpr"):
                cls = notpl(n.get("cls") or "")
                if cls in ("std::vector", "std::basic_string", "std::__cxx11::basic_string", "std::deque") and n.get("c"):
                    a0 = strip(n["c"][0])
                    if a0 is not None and a0.get("w") and not (a0.get("ct") or a0.get("t") or "").startswith("std::"):
                        sink = ("sized " + cls, n["c"][0])
            elif k == "CXXNewExpr" and n.get("array") and n.get("c"):
                sink = ("new[]", n["c"][0])
            if sink is None:
                continue
            idx += 1
            what, arg = sink
            key = "%s::%s::%s(%s)" % (fn.relfile(), fn.qn, what, show(arg))
            if not t.tainted(fn, arg):
                r.add(key, fn.loc(n), True, "size does not derive from a 32-bit file field",
                      nontrivial=False)
                continue
            if g is None:
                g = Guards(fn)
            clamped = False
            for l, rel, rr in (g.cmps(n) or []):
                if rel in ("<", "<=") and same_expr(l, arg) and not t.tainted(fn, rr):
                    clamped = True
            if not clamped and _bounded_by_delivery(fn, t, arg):
                r.add(key, fn.loc(n), True, "grows with the data delivered so far plus a bounded chunk")
                continue
            r.add(key, fn.loc(n), clamped, "clamped by a dominating upper bound" if clamped else
                  "%s is sized by `%s`, which derives from a 32-bit field of the image file (via %s) with no "
                  "upper bound: a tiny hostile file can demand gigabytes" %
                  (what, show(arg), ", ".join(r.info["sources"]) or "?"))
    return r


def _bounded_by_delivery(fn, t, arg):
    """arg is a sum whose tainted summands are all `requested - remaining`, remaining being a local that starts
    at the requested amount and is only ever reduced by what a read call delivered: such a summand equals the
    number of bytes actually delivered so far, which the file's real size bounds."""
    IO = {"fread", "read", "gcount", "pread"}

    def io_result(e):
        e = strip_all(e)
        for _ in range(3):
            if e is not None and e.get("k") in ("CXXStaticCastExpr", "CStyleCastExpr", "CXXFunctionalCastExpr") and e.get("c"):
                e = strip_all(e["c"][0])
        if e is None:
            return False
        if is_call(e) and notpl(e.get("q") or "").split("::")[-1] in IO:
            return True
        if e.get("k") == "DeclRefExpr" and e.get("dk") == "Var":
            for v in fn.walk():
                if v.get("k") == "VarDecl" and v.get("d") == e["d"] and v.get("c"):
                    return io_result(v["c"][0])
        return False

    def remaining_of(e):
        """(requested decl, True) when e is a `remaining` variable."""
        e = strip_all(e)
        if e is None or e.get("k") != "DeclRefExpr" or e.get("dk") != "Var":
            return None
        init = None
        for v in fn.walk():
            if v.get("k") == "VarDecl" and v.get("d") == e["d"] and v.get("c"):
                init = strip_all(v["c"][0])
        if init is None or init.get("k") != "DeclRefExpr":
            return None
        for w in fn.walk():
            if w.get("k") in ("BinaryOperator", "CompoundAssignOperator", "UnaryOperator") and w.get("op") in flow.ASSIGN_OPS | {"++", "--"} \
                    and (strip_all(w["c"][0]) or {}).get("d") == e["d"]:
                if not (w.get("op") == "-=" and io_result(w["c"][1])):
                    return None
        return init.get("d")

    def delivered(e, depth=0):
        e = strip_all(e)
        if e is None or depth > 3:
            return False
        if e.get("k") == "BinaryOperator" and e.get("op") == "-":
            req = remaining_of(e["c"][1])
            return req is not None and (strip_all(e["c"][0]) or {}).get("d") == req
        if e.get("k") == "DeclRefExpr" and e.get("dk") == "Var" and \
                not any(d_ == e["d"] for x in fn.walk() for d_, _ in flow.written_decls(x) if x.get("k") not in ("VarDecl", "DeclStmt")):
            for v in fn.walk():
                if v.get("k") == "VarDecl" and v.get("d") == e["d"] and v.get("c"):
                    return delivered(v["c"][0], depth + 1)
        return False

    def summands(e):
        e = strip_all(e)
        if e is not None and e.get("k") == "BinaryOperator" and e.get("op") == "+":
            return summands(e["c"][0]) + summands(e["c"][1])
        return [e]
    parts = summands(arg)
    return len(parts) >= 1 and all((not t.tainted(fn, p_)) or delivered(p_) for p_ in parts if p_ is not None) and \
        any(delivered(p_) for p_ in parts if p_ is not None)


# ---------------------------------------------------------------- R-C07-9
def reachable_from_main(prog):
    main = prog.fn1("main")
    seen = set()
    st = [main]
    lam = {}
    for f in prog.functions.values():
        if f.parent_key:
            lam.setdefault(f.parent_key, []).append(f)
    while st:
        f = st.pop()
        if f.uid in seen:
            continue
        seen.add(f.uid)
        st.extend(lam.get(f.key, []))
        for n in f.walk():
            if is_call(n) and n.get("fn"):
                st.extend(prog.call_targets(f, n))
            elif n.get("k") == "DeclRefExpr" and n.get("dk") in ("Function", "CXXMethod") and n.get("fn"):
                st.extend(prog.resolve(f, n["fn"]))
    # static initialisers register commands (REGISTER_COMMAND): every CommandInterface override is reachable
    for f in prog.functions.values():
        if f.name in ("invoke", "name", "usage", "description") and f.raw.get("virtual"):
            if f.uid not in seen:
                st.append(f)
    while st:
        f = st.pop()
        if f.uid in seen:
            continue
        seen.add(f.uid)
        st.extend(lam.get(f.key, []))
        for n in f.walk():
            if is_call(n) and n.get("fn"):
                st.extend(prog.call_targets(f, n))
            elif n.get("k") == "DeclRefExpr" and n.get("dk") in ("Function", "CXXMethod") and n.get("fn"):
                st.extend(prog.resolve(f, n["fn"]))
    return seen


def _ctor_args_nonzero(prog, fn, member_name):
    """All constructions of fn's class initialise `member_name` from a parameter that
    every construction site passes as a non-zero constant."""
    cls = notpl(fn.cls or "")
    ctors = [f for f in prog.functions.values() if notpl(f.cls or "") == cls and f.name == cls.split("::")[-1]]
    if not ctors:
        return False
    for c in ctors:
        idx = None
        for ini in c.raw.get("inits", []):
            if ini.get("member") == member_name and ini.get("init"):
                src = strip_all(ini["init"])
                v = folded(src)
                if v is not None:
                    if v == 0:
                        return False
                    idx = -1
                elif src.get("k") == "DeclRefExpr":
                    for i, p in enumerate(c.params):
                        if p["d"] == src.get("d"):
                            idx = i
        if idx is None:
            return False
        if idx == -1:
            continue
        sites = 0
        for g in prog.functions.values():
            for n in g.walk():
                if n.get("k") in ("CXXConstructExpr", "CXXTemporaryObjectExpr") and n.get("fn") == c.key:
                    sites += 1
                    a = n.get("c", [])
                    if idx >= len(a) or folded(a[idx]) in (None, 0):
                        return False
        if sites == 0:
            return False
    return True


def _divisor_guaranteed_by_callers(prog, fn, den):
    """The divisor is a parameter (or a field of a struct parameter) of a function with internal linkage:
    True if every call site establishes that the corresponding actual value is non-zero, False if the
    divisor is not parameter-derived, None if it is but the callers could not be matched."""
    d = strip_all(den)
    # through single-definition locals
    for _ in range(3):
        if d is not None and d.get("k") == "DeclRefExpr" and d.get("dk") == "Var":
            init = None
            for v in fn.walk():
                if v.get("k") == "VarDecl" and v.get("d") == d.get("d") and v.get("c"):
                    init = strip_all(v["c"][0])
            if init is None:
                break
            d = init
    field = None
    if d is not None and d.get("k") == "MemberExpr" and d.get("c"):
        field = d.get("n")
        base = strip_all(d["c"][0])
    else:
        base = d
    if base is None or base.get("k") != "DeclRefExpr" or base.get("dk") != "ParmVar":
        return False
    internal = "(anonymous namespace)" in (fn.q or "") or fn.raw.get("static") or fn.raw.get("internal")
    if not internal:
        return False
    idx = [i for i, p_ in enumerate(fn.params) if p_["d"] == base["d"]]
    if not idx:
        return None
    sites = 0
    for g_ in prog.functions.values():
        gg = None
        for c in g_.walk():
            if c.get("k") != "CallExpr" or c.get("fn") != fn.key or fn not in prog.call_targets(g_, c):
                continue
            sites += 1
            a = call_args(c)
            if idx[0] >= len(a):
                return None
            actual = strip_all(a[idx[0]])
            if field is not None:
                # a local struct initialised with a braced list: pick the element of that field
                if actual is None or actual.get("k") != "DeclRefExpr":
                    return None
                init = None
                for v in g_.walk():
                    if v.get("k") == "VarDecl" and v.get("d") == actual.get("d") and v.get("c"):
                        init = strip_all(v["c"][0])
                        rtype = notpl((v.get("ct") or v.get("t") or "").replace("const ", "").strip())
                if init is None or init.get("k") != "InitListExpr":
                    return None
                rec = [rc for q_, rc in prog.records.items() if notpl(q_).split("::")[-1] == rtype.split("::")[-1]]
                if not rec:
                    return None
                names = [f_["n"] for f_ in rec[0]["fields"]]
                if field not in names or names.index(field) >= len(init.get("c", [])):
                    return None
                actual = strip_all(init["c"][names.index(field)])
                while actual is not None and actual.get("k") in ("ImplicitCastExpr", "CStyleCastExpr", "CXXStaticCastExpr") and actual.get("c"):
                    actual = strip_all(actual["c"][0])
            if gg is None:
                gg = Guards(g_)
            okc = False
            for l, rel, rr in (gg.cmps(c) or []):
                if same_expr(l, actual) and ((rel in ("!=", ">") and folded(rr) == 0) or (rel == ">=" and (folded(rr) or 0) >= 1)):
                    okc = True
            for atom, truth in (gg.truths(c) or []):
                if truth and same_expr(atom, actual):
                    okc = True
            if not okc:
                return None
    return True if sites else None


def rule_divisors(prog, fixture=False):
    r = RuleResult("R-C07-9", "every integer division or remainder by a non-constant value is dominated by a test "
                   "that the divisor is non-zero, or the divisor is non-zero by construction (constant constructor "
                   "arguments), or - in the flux adapters - by the test that the decoded sector list is non-empty, "
                   "from which the geometry was computed", floor=0 if fixture else 5)
    reach = reachable_from_main(prog) if not fixture else None
    for fn in prog.functions.values():
        g = None
        k = 0
        for n in fn.walk():
            if not (n.get("k") in ("BinaryOperator", "CompoundAssignOperator") and n.get("op") in ("/", "%", "/=", "%=")):
                continue
            den = n["c"][1]
            if folded(den) not in (None, 0) or not (strip(den) or {}).get("w"):
                continue
            k += 1
            key = "%s::%s::%s#%d" % (fn.relfile(), fn.qn, "div", k)
            if reach is not None and fn.uid not in reach:
                r.add(key, fn.loc(n), True, "function not reachable from main", nontrivial=False)
                continue
            if g is None:
                g = Guards(fn)
            ok, why = False, ""
            for l, rel, rr in (g.cmps(n) or []):
                if same_expr(l, den) and ((rel in ("!=", ">") and folded(rr) == 0) or (rel in (">=",) and (folded(rr) or 0) >= 1)):
                    ok, why = True, "divisor tested non-zero"
            for atom, truth in (g.truths(n) or []):
                if truth and same_expr(atom, den):
                    ok, why = True, "divisor tested non-zero"
            ds = strip_all(den)
            if not ok and ds.get("k") == "MemberExpr" and _ctor_args_nonzero(prog, fn, ds.get("n")):
                ok, why = True, "member initialised from non-zero constants at every construction"
            if not ok:
                # local defined from a product of geometry fields / geometry field itself, in a flux adapter:
                # requires the non-empty-sector-list guard
                def over_geom(e, depth=0):
                    e = strip_all(e)
                    if e is None or depth > 4:
                        return False
                    if e.get("k") == "MemberExpr" and e.get("c") and strip_all(e["c"][0]).get("n") == "geom_":
                        return True
                    if e.get("k") == "BinaryOperator" and e.get("op") == "*":
                        return over_geom(e["c"][0], depth + 1) and over_geom(e["c"][1], depth + 1)
                    if e.get("k") == "DeclRefExpr":
                        for v in fn.walk():
                            if v.get("k") == "VarDecl" and v.get("d") == e.get("d") and v.get("c"):
                                return over_geom(v["c"][0], depth + 1)
                    return False
                if over_geom(den):
                    for l, rel, rr in (g.cmps(n) or []):
                        rs = strip_all(rr)
                        if rel == "<" and rs.get("k") == "CXXMemberCallExpr" and (strip(rs["c"][0]) or {}).get("n") == "size" \
                                and strip_all(strip(rs["c"][0])["c"][0]).get("n") == "sectors_":
                            ok, why = True, "guarded by `index < sectors_.size()`: the geometry was computed from a non-empty sector list"
                    # the index may have been reduced since the guard (lba = lba % n): accept a guard on entry
                    if not ok:
                        dom = fn.cfg.dominators()
                        pos = fn.where().get(n["i"])
                        for bid in fn.cfg.reachable():
                            b = fn.cfg.blocks[bid]
                            if b.get("cond") is None or len(fn.cfg.succ[bid]) != 2:
                                continue
                            cond = fn.nodes.get(b["cond"])
                            for outcome, si in ((True, 0), (False, 1)):
                                for f in flow.atomise(cond, outcome):
                                    if f[0] == "C" and f[2] == "<":
                                        rs = strip_all(f[3])
                                        if rs.get("k") == "CXXMemberCallExpr" and (strip(rs["c"][0]) or {}).get("n") == "size" \
                                                and strip_all(strip(rs["c"][0])["c"][0]).get("n") == "sectors_":
                                            s_ = fn.cfg.succ[bid][si]
                                            if pos and s_ in dom.get(pos[0], set()):
                                                ok, why = True, "dominated by `index < sectors_.size()` (non-empty sector list)"
            if not ok:
                res = _divisor_guaranteed_by_callers(prog, fn, den)
                if res is True:
                    ok, why = True, "non-zero at every call site of this file-local helper"
                elif res is None:
                    r.undecided.append("%s: divisor `%s` comes from a parameter of a file-local helper; the callers' "
                                       "guarantees could not be matched" % (fn.loc(n), show(den)))
                    continue
            r.add(key, fn.loc(n), ok, why if ok else
                  "`%s`: the divisor can be zero (e.g. an image in which no sector could be decoded gives a geometry "
                  "with 0 sectors per track): integer division by zero ends the process with SIGFPE" % show(n)[:70])
    return r


# ---------------------------------------------------------------- R-C07-8
def rule_diagnosed_failures(prog, fixture=False):
    from ..diag import DiagAnalysis
    r = RuleResult("R-C07-8", "every failure result on a command path is preceded, on every path, by a diagnostic "
                   "on standard error (directly, or through a callee that always diagnoses its own failures); a "
                   "failure that is the state of std::cout is diagnosed by main's epilogue, which therefore runs "
                   "before every return of the status helper", floor=0 if fixture else 10)
    da = DiagAnalysis(prog)
    base = [k for k, i in prog.callees.items() if notpl(i.get("q") or "") == "DFS::CommandInterface::invoke"]
    keys = set()
    for k in base:
        keys |= prog.overriders(k)
    targets = [f for f in prog.functions.values() if f.key in keys]
    targets += prog.fn("main", required=not fixture)
    for f in targets:
        ok, why = da.classify(f, "diag")
        key = "%s::%s" % (f.relfile(), f.qn)
        r.add(key, "%s:%d" % (f.relfile(), f.line), ok, "all failure points diagnosed" if ok else
              "a non-zero exit status can be produced without any message on standard error: " + why)
    # stdout-failure discharge
    main = prog.fn("main", required=not fixture)
    if main:
        main = main[0]
        helpers = set()
        for n in main.walk():
            e = None
            if n.get("k") == "ReturnStmt" and n.get("c"):
                e = strip_all(n["c"][0])
            elif n.get("k") == "BinaryOperator" and n.get("op") == "=":
                e = strip_all(n["c"][1])
            elif n.get("k") == "VarDecl" and n.get("c"):
                e = strip_all(n["c"][0])
            if e is not None and is_call(e) and e.get("k") == "CallExpr":
                for t in prog.call_targets(main, e):
                    if t.raw.get("ret") == "int" and len(t.params) == 1 and \
                            (t.params[0].get("ct") or t.params[0].get("t")) in ("bool", "_Bool"):
                        helpers.add(t)
        for h in helpers:
            dom = h.cfg.dominators()
            test_blocks = []
            for bid in h.cfg.reachable():
                b = h.cfg.blocks[bid]
                if b.get("cond") is None:
                    continue
                cond = h.nodes.get(b["cond"])
                if any(x.get("k") == "DeclRefExpr" and notpl(x.get("q") or "") == "std::cout" for x in walk(cond)):
                    test_blocks.append(bid)
            if not test_blocks:
                # the test may be made on a bool that holds the stream state (`const bool written = !cout.flush().fail()`):
                # branch facts are expanded through single-definition bool locals
                gh = Guards(h)
                for (p_, s_), ks in gh.edge_facts.items():
                    for k_ in ks:
                        f_ = gh.rep.get(k_)
                        if f_ is not None and f_[0] == "T" and any(
                                x.get("k") == "DeclRefExpr" and notpl(x.get("q") or "") == "std::cout" for x in walk(f_[1])):
                            if p_ not in test_blocks:
                                test_blocks.append(p_)
            key = "%s::%s::stdout-failure" % (h.relfile(), h.qn)
            if not test_blocks:
                from .c11 import cout_state_as_value
                if cout_state_as_value(h):
                    r.undecided.append("%s: the status helper captures std::cout's state as a value instead of "
                                       "branching on it; not followed" % h.qn)
                    continue
                r.add(key, "%s:%d" % (h.relfile(), h.line), False, "no test of std::cout in the status helper")
                continue
            bad = None
            for n in h.walk():
                if n.get("k") == "ReturnStmt":
                    pos = h.where().get(n["i"])
                    if pos and not any(tb in dom.get(pos[0], set()) for tb in test_blocks):
                        bad = n
            r.add(key, h.loc(bad) if bad else "%s:%d" % (h.relfile(), h.line), bad is None,
                  "every return follows the std::cout test" if bad is None else
                  "this return is taken before std::cout has been flushed and tested: a command that failed because "
                  "standard output could not be written (it returns the stream state) exits non-zero with no message")
    return r


# ---------------------------------------------------------------- R-C07-14
def rule_rewind_changes_state(prog, fixture=False):
    r = RuleResult("R-C07-14", "termination of the track decoders: inside `while (cursor < limit)` the cursor is moved "
                   "back to a saved position only together with a change of the decoder state - a pass that rewinds "
                   "and keeps its state finds the same mark again and never ends", floor=0 if fixture else 2)
    for fn in prog.functions.values():
        # cursors: locals that receive `<scan result>.first + 1`
        cursors = {}
        for n in fn.walk():
            if n.get("k") == "BinaryOperator" and n.get("op") == "=":
                t = strip_all(n["c"][0])
                if t is not None and t.get("k") == "DeclRefExpr" and t.get("dk") == "Var" and \
                        any(x.get("k") == "MemberExpr" and x.get("n") == "first" for x in walk(n["c"][1])):
                    cursors[t["d"]] = t
        for lp in fn.walk():
            if lp.get("k") not in ("WhileStmt", "ForStmt", "DoStmt") or "body" not in lp.get("parts", {}):
                continue
            if any(a.get("k") in ("WhileStmt", "ForStmt", "DoStmt") for a in fn.ancestors(lp)):
                continue
            body = lp["c"][lp["parts"]["body"]]
            rewinds = []
            cur = None
            for n in walk(body):
                if n.get("k") == "BinaryOperator" and n.get("op") == "=" and (strip_all(n["c"][0]) or {}).get("d") in cursors:
                    rhs = strip_all(n["c"][1])
                    if rhs is not None and rhs.get("k") == "DeclRefExpr" and rhs.get("dk") == "Var" and \
                            rhs.get("d") != (strip_all(n["c"][0]) or {}).get("d"):
                        # `cursor = limit` (give up: the loop ends) is not a rewind
                        cond0 = strip_all(lp["c"][lp["parts"]["cond"]]) if "cond" in lp["parts"] else None
                        if cond0 is not None and any(x.get("k") == "DeclRefExpr" and x.get("d") == rhs.get("d") for x in walk(cond0)):
                            continue
                        rewinds.append(n)
                        cur = cursors[(strip_all(n["c"][0]) or {}).get("d")]
            if not rewinds or "cond" not in lp["parts"]:
                continue
            # the state variable: an enum-typed local assigned in the body and tested by a switch or ==
            svars = {}
            for n in walk(body):
                if n.get("k") == "BinaryOperator" and n.get("op") == "=":
                    t = strip_all(n["c"][0])
                    if t is not None and t.get("k") == "DeclRefExpr" and t.get("dk") == "Var" and folded(n["c"][1]) is not None and \
                            ("enum" in (t.get("ct") or "") or "State" in (t.get("t") or "")):
                        svars[t["d"]] = t.get("n")
            if len(svars) != 1:
                r.undecided.append("%s: cannot identify the decoder state variable of this loop" % fn.loc(lp))
                continue
            (sd, sname), = svars.items()

            def region_state(node):
                for a in fn.ancestors(node):
                    if a is lp:
                        break
                    if a.get("k") == "CaseStmt" and a.get("v") is not None:
                        return a.get("v")
                    if a.get("k") == "IfStmt":
                        c_ = a["c"][a["parts"]["cond"]]
                        then = a["c"][a["parts"]["then"]]
                        if any(x is node for x in walk(then)):
                            for f in flow.atomise(c_, True):
                                if f[0] == "C" and f[2] == "==" and (strip_all(f[1]) or {}).get("d") == sd and folded(f[3]) is not None:
                                    return folded(f[3])
                return None
            # in a switch the case labels do not enclose later statements of the same case: use the nearest
            # preceding case label in the switch body instead
            def region_state2(node):
                v = region_state(node)
                if v is not None:
                    return v
                for a in fn.ancestors(node):
                    if a.get("k") == "SwitchStmt":
                        sb = a["c"][-1]
                        last = None
                        for st in sb.get("c", []):
                            x = st
                            while x is not None and x.get("k") in ("CaseStmt", "DefaultStmt"):
                                if x.get("k") == "CaseStmt":
                                    last = x.get("v")
                                x = x["c"][-1] if x.get("c") else None
                            if any(y is node for y in walk(st)):
                                return last
                return None
            ids = {id(x): x for x in rewinds}

            condnode = lp["c"][lp["parts"]["cond"]]
            cond_ids = {id(x) for x in walk(condnode)}

            def step(st, x):
                # st = (state changed in this pass?, pending rewind or None)
                changed, pend = st
                if id(x) in cond_ids:
                    return {(False, None)}          # a new pass begins
                if id(x) in ids:
                    return {(changed, None if changed else (region_state2(x), fn.loc(x)))}
                if x.get("k") == "BinaryOperator" and x.get("op") == "=" and (strip_all(x["c"][0]) or {}).get("d") == sd:
                    v = folded(x["c"][1])
                    here = region_state2(x)
                    if v is not None and (here is None or v != here) and (pend is None or pend[0] is None or v != pend[0]):
                        return {(True, None)}
                # (a later scan from the rewound position does not count as progress: it finds the same mark)
                return {st}
            inn, at = flow.may_states(fn, {(False, None)}, step)
            sts = None
            wh = fn.where()
            for x in walk(condnode):
                if x["i"] in wh:
                    s1 = at(x)
                    if s1 is not None:
                        sts = (sts or set()) | s1
            key = "%s::%s::rewind of %s" % (fn.relfile(), fn.qn, cur.get("n"))
            if sts is None:
                r.undecided.append("%s: loop condition not in the CFG" % fn.loc(lp))
                continue
            bad = sorted(x[1] for x in sts if x[1] is not None)
            r.add(key, bad[0][1] if bad else fn.loc(rewinds[0]), not bad,
                  "%d rewind(s), each followed by a state change before the next pass" % len(rewinds) if not bad else
                  "`%s` is set back to a saved position and the next pass starts in the same state (`%s` unchanged): the same "
                  "mark is found again and the loop never ends on such a track" % (cur.get("n"), sname))
    return r


# ---------------------------------------------------------------- R-C07-15
def rule_bitstream_access(prog, fixture=False):
    r = RuleResult("R-C07-15", "BitStream: raw storage is indexed only under a bound on the raw bit count itself; the "
                   "cooked accessor getbit(), whose callers bound their index by size() - a quotient of an unsigned "
                   "difference that wraps for an empty track - is reached only after a scan_for call has succeeded "
                   "(which an empty track cannot make happen)", floor=0 if fixture else 4)
    fns = list(prog.functions.values())
    scan_like = set()           # functions that (transitively) call scan_for: their result witnesses non-empty data
    changed = True
    while changed:
        changed = False
        for f in fns:
            if f.uid in scan_like:
                continue
            for n in f.walk():
                if is_call(n) and (notpl(n.get("q") or "").endswith("::scan_for") or
                                   any(t.uid in scan_like for t in prog.call_targets(f, n))):
                    scan_like.add(f.uid)
                    changed = True
                    break
    # (1) rawbit(e): bound on raw_bit_size_ at the call, or the caller is getbit (the unchecked cooked accessor)
    for f in fns:
        g = None
        for n in f.walk():
            if not is_call(n) or not notpl(n.get("q") or "").endswith("BitStream::rawbit"):
                continue
            if f.name == "getbit":
                continue
            g = g or Guards(f)
            a = call_args(n)
            ok = False
            for l, rel, rr in (g.cmps(n) or []):
                if rel == "<" and a and same_expr(l, a[0]) and (strip_all(rr) or {}).get("n") == "raw_bit_size_":
                    ok = True
            r.add("%s::%s::rawbit" % (f.relfile(), f.qn), f.loc(n), ok, "index < raw_bit_size_" if ok else
                  "rawbit(%s) without a dominating test against raw_bit_size_: reads beyond the track data" % show(a[0])[:30])
    # (2) getbit: every chain of callers passes a point dominated by a successful scan
    def witnessed(f, site, g):
        for atom, truth in (g.truths(site) or []):
            if not truth:
                continue
            a = strip_all(atom)
            if a is None:
                continue
            if a.get("k") == "DeclRefExpr" and a.get("dk") == "Var":
                for v in f.walk():
                    if v.get("k") == "VarDecl" and v.get("d") == a.get("d") and v.get("c"):
                        for x in walk(v["c"][0]):
                            if is_call(x) and (notpl(x.get("q") or "").endswith("::scan_for") or
                                               any(t.uid in scan_like for t in prog.call_targets(f, x))):
                                return True
            if is_call(a) and (notpl(a.get("q") or "").endswith("::scan_for") or any(t.uid in scan_like for t in prog.call_targets(f, a))):
                return True
        return False
    guards = {}

    def unwitnessed_entry(f, depth, seen):
        """A chain of callers from f up to a function nobody calls, none of whose links is witnessed; or None."""
        if depth > 5 or f.uid in seen:
            return None
        seen = seen | {f.uid}
        sites = []
        for gfn in fns:
            for n in gfn.walk():
                if is_call(n) and f in prog.call_targets(gfn, n):
                    sites.append((gfn, n))
        if not sites:
            return [f.qn]
        for gfn, n in sites:
            gd = guards.setdefault(gfn.uid, Guards(gfn))
            if witnessed(gfn, n, gd):
                continue
            up = unwitnessed_entry(gfn, depth + 1, seen)
            if up is not None:
                return [f.qn + " @ " + gfn.loc(n)] + up
        return None
    for f in fns:
        for n in f.walk():
            if not is_call(n) or not notpl(n.get("q") or "").endswith("BitStream::getbit"):
                continue
            key = "%s::%s::getbit" % (f.relfile(), f.qn)
            gd = guards.setdefault(f.uid, Guards(f))
            a = call_args(n)
            raw_bounded = False
            for l, rel, rr in (gd.cmps(n) or []):
                ls = strip_all(l)
                if rel == "<" and (strip_all(rr) or {}).get("n") == "raw_bit_size_" and ls is not None and is_call(ls) and \
                        notpl(ls.get("q") or "").endswith("raw_pos") and a and call_args(ls) and same_expr(call_args(ls)[0], a[0]):
                    raw_bounded = True
            if raw_bounded:
                r.add(key, f.loc(n), True, "raw_pos(index) < raw_bit_size_")
                continue
            if witnessed(f, n, gd):
                r.add(key, f.loc(n), True, "after a successful scan in the same function")
                continue
            chain = unwitnessed_entry(f, 0, set())
            r.add(key, f.loc(n), chain is None, "every caller reaches this only after a scan succeeded" if chain is None else
                  "getbit is reached without any scan having succeeded (%s): on a track without data size() has wrapped "
                  "to a huge value, the index bound means nothing and the read is far outside the buffer" % " <- ".join(chain[:4]))
    return r


# ---------------------------------------------------------------- R-C07-16
def rule_owning_classes_not_copied(prog, fixture=False):
    r = RuleResult("R-C07-16", "a class whose destructor releases a raw pointer member (free/delete) and which has no "
                   "copy constructor of its own is never copied: no object of it is constructed from another object of "
                   "the same class (`throw named_local;`, pass or return by value) - the copy shares the pointer and the "
                   "second destructor frees it again (abort / use after free while the handler prints what())",
                   floor=0 if fixture else 1)
    owning = {}
    for fn in prog.functions.values():
        if not fn.name.startswith("~"):
            continue
        for n in fn.walk():
            rel = None
            if n.get("k") == "CallExpr" and notpl(n.get("q") or "") in ("free", "std::free"):
                rel = call_args(n)[0] if call_args(n) else None
            elif n.get("k") == "CXXDeleteExpr" and n.get("c"):
                rel = n["c"][0]
            m = strip_all(rel) if rel is not None else None
            if m is not None and m.get("k") == "MemberExpr" and m.get("dk") == "Field":
                cls = notpl(fn.qn.rsplit("::", 1)[0])
                owning[cls] = (fn, m.get("n"))
    for cls, (dtor, field) in owning.items():
        rec = [rc for q_, rc in prog.records.items() if notpl(q_) == cls]
        short = cls.split("::")[-1]
        has_copy = False
        for f in prog.functions.values():
            if f.name == short and notpl(f.qn.rsplit("::", 1)[0]) == cls and len(f.params) == 1 and \
                    notpl((f.params[0].get("t") or "").replace("const ", "").replace("&", "").strip()).split("::")[-1] == short:
                has_copy = True
        if has_copy:
            r.add("%s::copy-constructor" % cls, dtor.loc(dtor.body) if dtor.body else "?", True, "the class defines its own copy constructor",
                  nontrivial=False)
            continue
        copies = []
        for f in prog.functions.values():
            for n in f.walk():
                if n.get("k") in ("CXXConstructExpr", "CXXTemporaryObjectExpr") and notpl(n.get("cls") or "") == cls and len(n.get("c", [])) == 1:
                    a = strip(n["c"][0])
                    at = notpl(((a or {}).get("t") or (a or {}).get("ct") or "").replace("const ", "").replace("&", "").strip())
                    if at == cls:
                        copies.append((f, n))
        key = "%s::copies" % cls
        if copies:
            f, n = copies[0]
            r.add(key, f.loc(n), False, "an object of %s (destructor frees `%s`, no copy constructor) is copied here (`%s`): both "
                  "copies free the same pointer" % (short, field, show(n)[:50]))
        else:
            r.add(key, dtor.loc(dtor.body) if dtor.body else "?", True, "objects of %s are only ever constructed in place" % short)
    return r


def _shared_device_rule(prog):
    from . import c04
    r = c04.rule_surface_keeps_its_device(prog)
    r.rule = "R-C07-17"      # no drive is attached without a device: dump-sector would dereference a null drive
    return r


def run(ctx):
    from . import c06, c10
    prog = ctx.prog("dfs", "N")
    return [rule_throw_types(prog), rule_containment(prog), rule_exit_status(prog), rule_short_reads(prog),
            rule_reading_loops(prog), rule_alloc_taint(prog), rule_optional_access(prog), rule_divisors(prog),
            rule_diagnosed_failures(prog), rule_nonempty_access(prog),
            c06.rule_track_checks_unconditional(prog, rule_id="R-C07-11"),
            c10.rule_counters_after_reset(prog, rule_id="R-C07-12"), rule_side_effect_results(prog),
            rule_rewind_changes_state(prog), rule_bitstream_access(prog), rule_owning_classes_not_copied(prog),
            _shared_device_rule(prog)]


SELFTESTS = [
    (rule_owning_classes_not_copied, ["c07_own_bad.cc"], ["c07_own_good.cc"], "FixedError::copies"),
    (rule_rewind_changes_state, ["c07_rewind_bad.cc"], ["c07_rewind_good.cc"], "rewind of thisbit"),
    (rule_bitstream_access, ["c07_rewind_bad.cc"], ["c07_rewind_good.cc"], "scan_for::getbit"),
    (rule_throw_types, ["c07_throw_bad.cc"], ["c07_throw_good.cc"], "throw"),
    (rule_optional_access, ["c07_opt_bad.cc"], ["c07_opt_good.cc"], "use_unchecked"),
    (rule_short_reads, ["c07_read_bad.cc"], ["c07_read_good.cc"], "parse_header"),
    (rule_containment, ["c07_main_bad.cc"], ["c07_main_good.cc"], "parse"),
    (rule_exit_status, ["c07_main_bad.cc"], ["c07_main_good.cc"], "return#"),
    (rule_exit_status, ["c07_main_bad.cc"], ["c07_main_good.cc"], "abort()"),
    (rule_reading_loops, ["c07_loop_bad.cc"], ["c07_loop_good.cc"], "scan"),
    (rule_alloc_taint, ["c07_loop_bad.cc"], ["c07_loop_good.cc"], "resize"),
    (rule_diagnosed_failures, ["c07_diag_bad.cc"], ["c07_diag_good.cc"], "Cmd::invoke"),
    (rule_divisors, ["c07_diag_bad.cc"], ["c07_diag_good.cc"], "read_block"),
    (rule_nonempty_access, ["c07_end_bad.cc"], ["c07_end_good.cc"], "with_slash"),
    (rule_nonempty_access, ["c07_end_bad.cc"], ["c07_end_good.cc"], "next_start"),
    (rule_side_effect_results, ["c07_pair_bad.cc"], ["c07_pair_good.cc"], "geom_ after read_all_sectors"),
]
