"""C07 - dfs fails cleanly on arbitrary image files and command lines.

Structural necessary conditions (each one a hostile file can otherwise exploit):
R-C07-1  what may be thrown: class derived from std::exception, by value
R-C07-2  exception containment: in main, every call that may throw is inside a
         try whose handlers cover std::exception
R-C07-3  exit status: main returns only 0/1/2; no exit/abort/terminate calls
         except in proven-unreachable switch defaults
R-C07-4  short reads: data of a FileAccess::read result is used only under a
         size check against the requested length (or offset < size)
R-C07-5  condition-less loops that read input have an exit governed by the
         amount of data read
R-C07-6  file-declared 32-bit sizes never size an allocation unclamped
R-C07-7  every dereference of a std::optional is dominated by a test of it
R-C07-8  every failure result of a command path is accompanied by a diagnostic
"""
from ..runner import RuleResult
from ..facts import AnalysisBroken
from ..model import strip, strip_all, walk, show, notpl, is_call, call_args, call_receiver, kids
from .. import flow
from ..flow import Guards, cmp_fact, same_expr, bool_atom, folded

EXPLANATION = (
    "Static decision of eight structural clauses of C07 over every product unit of dfs (all paths, hence all "
    "inputs): thrown types, exception containment in main, exit statuses and termination calls, size checks on "
    "every FileAccess::read result, input-governed exits of condition-less reading loops, taint from 32-bit "
    "file fields to allocation sizes, dominance of every std::optional dereference by a test, and "
    "diagnostic-on-failure for the command paths.  Not decided: general memory safety and termination of all "
    "parsers, reachability of assertions in assertion-enabled builds.")
ASSUMPTIONS = [
    "clang AST/CFG; call graph resolves virtual calls to all overriders",
    "library functions throw only as tabulated (sto* family, optional::value, at, substr out_of_range are std::exception-derived)",
]


# ---------------------------------------------------------------- R-C07-1
def rule_throw_types(prog, fixture=False):
    r = RuleResult("R-C07-1", "every throw expression throws, by value, a class derived from std::exception",
                   floor=0 if fixture else 30)
    for fn in prog.functions.values():
        for n in fn.walk():
            if n.get("k") != "CXXThrowExpr" or n.get("rethrow"):
                continue
            key = "%s::%s::throw %s" % (fn.relfile(), fn.qn, notpl(n.get("thrown_cls") or n.get("thrown_t") or "?"))
            anc = [notpl(a) for a in n.get("thrown_anc", [])]
            if n.get("thrown_ptr"):
                r.add(key, fn.loc(n), False, "throws a pointer (%s): no handler for std::exception& matches it"
                      % n.get("thrown_t"))
            elif "std::exception" not in anc:
                r.add(key, fn.loc(n), False, "thrown type %s is not derived from std::exception" % n.get("thrown_t"))
            else:
                r.add(key, fn.loc(n), True, "by value, derives from std::exception")
    return r


# ---------------------------------------------------------------- R-C07-7
OPT_PREFIX = ("std::optional<", "const std::optional<")


def _is_optional_type(n):
    t = (n.get("ct") or n.get("t") or "")
    return t.startswith(OPT_PREFIX)


def optional_derefs(fn):
    for n in fn.walk():
        k = n.get("k")
        if k == "CXXOperatorCallExpr" and n.get("op") in ("*", "->") and len(n.get("c", [])) >= 2:
            obj = n["c"][1]
            if _is_optional_type(strip(obj)) or _is_optional_type(obj):
                yield n, obj, n["op"]
        elif k == "CXXMemberCallExpr":
            callee = strip(n["c"][0])
            if callee and callee.get("k") == "MemberExpr" and callee.get("n") == "value" and callee.get("c"):
                obj = callee["c"][0]
                if _is_optional_type(strip(obj)) or _is_optional_type(obj):
                    yield n, obj, "value()"


def _engaged_by_assignment(fn, g, node, obj):
    """The optional variable was assigned a (non-optional) value on every path
    since ... approximated: the nearest dominating element that writes the
    variable is an assignment/initialisation from a non-optional, non-nullopt
    expression in the same block before the use."""
    root = flow.lvalue_root(obj)
    if root is None:
        return False
    pos = g.position(node)
    if pos is None:
        return False
    b, idx = pos
    elems = fn.cfg.blocks[b]["e"][:idx]
    for e in reversed(elems):
        if not isinstance(e, int):
            continue
        n = fn.nodes.get(e)
        if n is None:
            continue
        tgt = None
        rhs = None
        if n.get("k") == "CXXOperatorCallExpr" and n.get("op") == "=" and len(n["c"]) == 3:
            tgt, rhs = n["c"][1], n["c"][2]
        elif n.get("k") == "BinaryOperator" and n.get("op") == "=":
            tgt, rhs = n["c"][0], n["c"][1]
        if tgt is not None and flow.lvalue_root(tgt) == root:
            rs = strip_all(rhs)
            for _ in range(3):
                # optional<T>(value) built implicitly for operator=(optional&&)
                if rs is not None and rs.get("k") in ("CXXConstructExpr", "CXXTemporaryObjectExpr", "CXXFunctionalCastExpr") \
                        and notpl(rs.get("cls") or "") in ("std::optional", "") and len(rs.get("c", [])) == 1:
                    rs = strip_all(rs["c"][0])
            t = (rs.get("ct") or rs.get("t") or "") if rs is not None else "nullopt"
            if not t.startswith(OPT_PREFIX) and "nullopt" not in t:
                return True
            return False
    return False


SUPPRESS_OPT = {
    # symbol-level suppression (DESIGN 3/C07-7): set by the earlier loop over the same
    # non-empty containers; a path-insensitive analysis cannot correlate the two loops.
    ("CommandSpace::invoke", "first_file_entry_pos"),
}


def rule_optional_access(prog, fixture=False):
    r = RuleResult("R-C07-7", "every dereference of a std::optional (*o, o->) is dominated on all paths by a "
                   "test that it is engaged (assert does not count)", floor=0 if fixture else 25)
    for fn in prog.functions.values():
        g = None
        for n, obj, how in optional_derefs(fn):
            if how == "value()":
                continue  # throws bad_optional_access: containment is R-C07-2's business
            if g is None:
                g = Guards(fn)
            key = "%s::%s::%s%s" % (fn.relfile(), fn.qn, "*" if how == "*" else "->", show(obj))
            ok = g.truthy(n, obj)
            if ok is None:
                continue
            if not ok and _engaged_by_assignment(fn, g, n, obj):
                ok = True
            if not ok:
                o = strip_all(obj)
                if (fn.qn.split("::")[-2] + "::" + fn.qn.split("::")[-1] if "::" in fn.qn else fn.qn, o.get("n")) in SUPPRESS_OPT:
                    r.add(key, fn.loc(n), True, "suppressed by name: correlated loops (see DESIGN)", nontrivial=False)
                    continue
            r.add(key, fn.loc(n), ok, "" if ok else
                  "%s is dereferenced without a dominating test that it holds a value" % show(obj))
    return r


# ---------------------------------------------------------------- R-C07-4
READ_BASE = "DFS::FileAccess::read"
SAFE_METHODS = {"size", "empty", "begin", "end", "cbegin", "cend", "capacity", "rbegin", "rend", "at"}


def _read_calls(prog):
    base = [k for k, i in prog.callees.items() if notpl(i.get("q")) == READ_BASE]
    if not base:
        raise AnalysisBroken("anchor %s not found" % READ_BASE)
    keys = set()
    for k in base:
        keys |= prog.overriders(k)
    return keys


def _size_aliases(fn, did):
    """Locals initialised from R.size() (R = decl id) and never reassigned."""
    al = set()
    for n in fn.walk():
        if n.get("k") == "VarDecl" and n.get("c"):
            init = strip_all(n["c"][0])
            if _is_size_call(init, did):
                al.add(n["d"])
    if al:
        for n in fn.walk():
            for d, _ in flow.written_decls(n):
                al.discard(d)
    return al


def _is_size_call(e, did):
    e = strip_all(e)
    if e is None or e.get("k") != "CXXMemberCallExpr":
        return False
    callee = strip(e["c"][0])
    if not callee or callee.get("n") != "size" or not callee.get("c"):
        return False
    obj = strip_all(callee["c"][0])
    return obj.get("k") == "DeclRefExpr" and obj.get("d") == did


def _is_sizeish(e, did, aliases):
    if _is_size_call(e, did):
        return True
    s = strip_all(e)
    return s is not None and s.get("k") == "DeclRefExpr" and s.get("d") in aliases


def _min_with_size(fn, e, did, aliases):
    """expr (or the initialiser of the const local it names) is std::min(x, size)."""
    s = strip_all(e)
    if s is None:
        return False
    if s.get("k") == "DeclRefExpr":
        for n in fn.walk():
            if n.get("k") == "VarDecl" and n.get("d") == s.get("d") and n.get("c"):
                return _min_with_size(fn, n["c"][0], did, aliases)
        return False
    if s.get("k") == "CallExpr" and notpl(s.get("q") or "") == "std::min":
        return any(_is_sizeish(a, did, aliases) for a in call_args(s))
    return False


def rule_short_reads(prog, fixture=False):
    r = RuleResult("R-C07-4", "bytes of a FileAccess::read result are touched (data(), [], front/back, "
                   "begin()+k) only under a size check against the requested length, or at an offset "
                   "proven smaller than size()", floor=0 if fixture else 5)
    keys = _read_calls(prog)
    nsites = 0
    for fn in prog.functions.values():
        for n in fn.walk():
            if n.get("k") != "VarDecl" or not n.get("c"):
                continue
            init = strip_all(n["c"][0])
            while init is not None and init.get("k") == "CXXConstructExpr" and len(init.get("c", [])) == 1:
                init = strip_all(init["c"][0])
            if init is None or init.get("k") != "CXXMemberCallExpr" or init.get("fn") not in keys:
                continue
            nsites += 1
            did = n["d"]
            args = call_args(init)
            want = args[1] if len(args) > 1 else None
            aliases = _size_aliases(fn, did)
            g = Guards(fn)
            uses = []
            for u in fn.walk():
                if u.get("k") == "CXXMemberCallExpr":
                    callee = strip(u["c"][0])
                    if callee and callee.get("k") == "MemberExpr" and callee.get("c"):
                        obj = strip_all(callee["c"][0])
                        if obj.get("k") == "DeclRefExpr" and obj.get("d") == did:
                            nm = callee.get("n")
                            if nm in ("data", "front", "back"):
                                uses.append((u, nm, None))
                            elif nm in ("begin", "cbegin"):
                                # only when offset by arithmetic
                                p = fn.parent(u)
                                while p is not None and p.get("k") in ("ImplicitCastExpr", "ParenExpr", "MaterializeTemporaryExpr", "CXXBindTemporaryExpr", "ExprWithCleanups"):
                                    p = fn.parent(p)
                                if p is not None and p.get("k") == "CXXOperatorCallExpr" and p.get("op") in ("+", "+=") :
                                    off = p["c"][2] if len(p["c"]) > 2 else None
                                    uses.append((p, "begin()+k", off))
                elif u.get("k") == "CXXOperatorCallExpr" and u.get("op") == "[]" and len(u["c"]) == 3:
                    obj = strip_all(u["c"][1])
                    if obj.get("k") == "DeclRefExpr" and obj.get("d") == did:
                        uses.append((u, "[]", u["c"][2]))
            key0 = "%s::%s::%s" % (fn.relfile(), fn.qn, n["n"])
            if not uses:
                r.add(key0, fn.loc(n), True, "result bytes are not touched directly (only size()/iteration/pass-whole)",
                      nontrivial=False)
                continue
            bad = []
            for u, nm, off in uses:
                cs = g.cmps(u)
                if cs is None:
                    continue
                ok = False
                # pointer arithmetic on data(): find offset operand
                if nm == "data" and off is None:
                    p = fn.parent(u)
                    while p is not None and p.get("k") in ("ImplicitCastExpr", "ParenExpr", "CStyleCastExpr", "CXXStaticCastExpr", "CXXReinterpretCastExpr"):
                        p = fn.parent(p)
                    if p is not None and p.get("k") == "BinaryOperator" and p.get("op") == "+":
                        off = p["c"][1]
                for l, rel, rr in cs:
                    if not _is_sizeish(l, did, aliases):
                        continue
                    # size REL rr
                    if rel in (">=", "==") and want is not None and _same_amount(rr, want):
                        ok = True
                    elif rel == ">" and off is not None and same_expr(rr, off):
                        ok = True
                    elif rel in (">=", ">") and off is not None and folded(off) is not None and folded(rr) is not None \
                            and folded(off) < folded(rr) + (1 if rel == ">" else 0):
                        ok = True
                    if ok:
                        break
                if not ok and off is not None and _min_with_size(fn, off, did, aliases):
                    ok = True   # end pointer: offset <= size
                if not ok:
                    bad.append((u, nm))
            if bad:
                u, nm = bad[0]
                r.add(key0, fn.loc(u), False,
                      "%s bytes of `%s` are used via %s without a dominating check that size() reached the %s "
                      "requested (a short read at end of file returns fewer)" %
                      (len(bad), n["n"], nm, show(want) if want else "amount"))
            else:
                r.add(key0, fn.loc(n), True, "%d direct uses, all under a size check" % len(uses))
    r.info["read_sites"] = nsites
    return r


def _same_amount(a, b):
    if same_expr(a, b):
        return True
    fa, fb = folded(a), folded(b)
    return fa is not None and fa == fb


def run(ctx):
    prog = ctx.prog("dfs", "N")
    return [rule_throw_types(prog), rule_short_reads(prog), rule_optional_access(prog)]


SELFTESTS = [
    (rule_throw_types, ["c07_throw_bad.cc"], ["c07_throw_good.cc"], "throw"),
    (rule_optional_access, ["c07_opt_bad.cc"], ["c07_opt_good.cc"], "use_unchecked"),
    (rule_short_reads, ["c07_read_bad.cc"], ["c07_read_good.cc"], "parse_header"),
]
