"""C18 - diagnostic and presentation options never change the data shown.

R-C18-1  layering: standard output is written only by the command layer
         (units of the `dfs` executable target); library units never touch it
R-C18-2  verbose regions are effect-free: code that runs only when
         DFS::verbose (or a bool parameter that only ever receives it) is set
         may write to std::cerr / local string streams and call pure functions,
         but may not transfer control out, write outer state, or call anything
         with effects
R-C18-3  handlers of the presentation/diagnostic options (--ui, --verbose,
         --show-config) change nothing but their own flag (for --ui: the
         context is rebuilt with every other field carried over unchanged)
R-C18-4  presentation inputs have a single consumer: getenv/isatty and the UI
         style are read only by the cat command
R-C18-5  determinism census: no clock, random, pid or address-dependent input
"""
from ..runner import RuleResult
from ..facts import AnalysisBroken
from ..model import strip, strip_all, walk, show, notpl, is_call, call_args, call_receiver
from .. import flow
from ..flow import folded, canon, same_expr, atomise
from . import c19, c08

EXPLANATION = (
    "Static decision of the structural part of C18 for every image and command: the library layer cannot write "
    "to standard output; every statement that executes only under --verbose (directly, or through a bool "
    "parameter that only ever receives DFS::verbose) is confined to writing std::cerr or local string streams and "
    "calling pure functions, with no control transfer out of the region and no write to outer state, so standard "
    "output and exit status cannot depend on --verbose; the option handlers of --ui/--verbose/--show-config "
    "change only their own flag; COLUMNS, isatty and the UI style are read only by cat; nothing reads a clock, "
    "random source or pid.")
ASSUMPTIONS = ["writes to std::cerr and to local ostringstreams do not influence standard output or exit status",
               "const-contract of the standard library (as for C19)"]

VERBOSE_GLOBAL = "DFS::verbose"
STDOUT_NAMES = {"std::cout", "stdout", "std::wcout"}
STDOUT_FUNCS = {"printf", "puts", "putchar", "vprintf"}
LIB_TARGETS = ("dfslib", "dfsbase")


def rule_layering(prog, fixture=False):
    r = RuleResult("R-C18-1", "library units (dfslib, dfsbase) and headers never reference standard output; "
                   "only the command layer writes it", floor=0 if fixture else 40)
    # file -> layer
    unit_layer = {}
    for u in prog.units:
        unit_layer[u["unit"]] = u.get("target", "")
    for fn in prog.functions.values():
        f = fn.file
        layer = unit_layer.get(f)
        if layer is None:
            layer = "header"
        lib = layer in LIB_TARGETS or (layer == "header" and not fixture) or (fixture and fn.name.startswith("lib_"))
        uses = None
        for n in fn.walk():
            if n.get("k") == "DeclRefExpr" and notpl(n.get("q") or "") in STDOUT_NAMES:
                uses = n
                break
            if n.get("k") == "CallExpr" and notpl(n.get("q") or "") in STDOUT_FUNCS:
                uses = n
                break
        key = "%s::%s" % (fn.relfile(), fn.qn)
        if uses is None:
            if lib:
                r.add(key, "%s:%d" % (fn.relfile(), fn.line), True, "", nontrivial=False)
            continue
        if lib:
            r.add(key, fn.loc(uses), False, "library-layer function %s writes to standard output (%s): output of "
                  "every command could change with diagnostics or identification" % (fn.qn, show(uses)))
        else:
            r.add(key, fn.loc(uses), True, "command layer")
    return r


# ---------------------------------------------------------------- R-C18-2
def indirect_targets(f, call):
    """Function keys a call through a local function pointer may invoke."""
    if call.get("fn") or not call.get("c"):
        return []
    ce = strip_all(call["c"][0])
    if ce is None or ce.get("k") != "DeclRefExpr" or ce.get("dk") != "Var":
        return []
    out = []
    for n in f.walk():
        if n.get("k") == "VarDecl" and n.get("d") == ce.get("d") and n.get("c"):
            for x in walk(n["c"][0]):
                if x.get("k") == "DeclRefExpr" and x.get("dk") in ("Function", "CXXMethod") and x.get("fn"):
                    out.append(x["fn"])
    return out


class VerboseExprs:
    """Which expressions are 'the verbose flag': the global, and bool
    parameters that receive only verbose expressions at every call site."""

    def __init__(self, prog):
        self.prog = prog
        self.vparams = set()    # (function key, index)
        cand = {}
        # candidates: bool params
        for f in prog.functions.values():
            for i, p in enumerate(f.params):
                if (p.get("ct") or p.get("t")) in ("bool", "_Bool"):
                    cand[(f.key, i)] = []
        for f in prog.functions.values():
            for n in f.walk():
                if is_call(n) and n.get("k") != "CXXOperatorCallExpr":
                    keys = [n["fn"]] if n.get("fn") else indirect_targets(f, n)
                    for kk in keys:
                        for i, a in enumerate(call_args(n)):
                            if (kk, i) in cand:
                                cand[(kk, i)].append((f, a))
        changed = True
        self.vparams = set(k for k, sites in cand.items() if sites)
        while changed:
            changed = False
            for k in list(self.vparams):
                for f, a in cand[k]:
                    if not self.is_verbose(f, a):
                        self.vparams.discard(k)
                        changed = True
                        break
        # functions referenced by address (function pointers) keep candidates only if all
        # address-taken siblings agree; conservatively keep.

    def is_verbose(self, f, e):
        e = strip_all(e)
        if e is None:
            return False
        if e.get("k") == "DeclRefExpr":
            if notpl(e.get("q") or "") == VERBOSE_GLOBAL:
                return True
            if e.get("dk") == "ParmVar":
                for i, p in enumerate(f.params):
                    if p["d"] == e.get("d") and (f.key, i) in self.vparams:
                        return True
        return False


def _regions(vx, f):
    """Yield (region statements list, description, anchor node)."""
    for n in f.walk():
        if n.get("k") != "IfStmt":
            continue
        parts = n.get("parts", {})
        cond = n["c"][parts["cond"]]
        pos_atoms = list(atomise(cond, True))
        neg_atoms = list(atomise(cond, False))
        then = n["c"][parts["then"]] if "then" in parts else None
        els = n["c"][parts["else"]] if "else" in parts else None
        if any(a[0] == "T" and a[2] is True and vx.is_verbose(f, a[1]) for a in pos_atoms):
            if then is not None:
                yield [then], "if (%s)" % show(cond), n
        if any(a[0] == "T" and a[2] is True and vx.is_verbose(f, a[1]) for a in neg_atoms):
            # condition false implies verbose: `if (!verbose) X else REGION`, and if X always leaves,
            # the rest of the enclosing block
            if els is not None:
                yield [els], "else of if (%s)" % show(cond), n
            if then is not None and _always_leaves(then):
                par = f.parent(n)
                if par is not None and par.get("k") == "CompoundStmt":
                    sibs = par["c"]
                    idx = [i for i, s in enumerate(sibs) if s is n][0]
                    rest = sibs[idx + 1:]
                    if rest:
                        yield rest, "after `if (%s) return`" % show(cond), n


def _always_leaves(st):
    k = st.get("k")
    if k in ("ReturnStmt", "CXXThrowExpr"):
        return True
    if k == "CompoundStmt":
        return bool(st.get("c")) and _always_leaves(st["c"][-1])
    return False


def _stream_ok(f, e, local_ids):
    """Is the expression a diagnostic stream: std::cerr/clog, a std::ostringstream
    (any), or a std::ostream& parameter?"""
    e = strip_all(e)
    if e is None:
        return False
    if e.get("k") == "DeclRefExpr":
        q = notpl(e.get("q") or "")
        if q in ("std::cerr", "std::clog"):
            return True
        t = e.get("ct") or e.get("t") or ""
        if "ostringstream" in t or "stringstream" in t:
            return True
        if q in STDOUT_NAMES:
            return False
        if e.get("dk") == "ParmVar" and "ostream" in t:
            return True
    if e.get("k") == "CXXOperatorCallExpr" and e.get("op") == "<<":
        return _stream_ok(f, e["c"][1], local_ids)
    if e.get("k") == "CXXMemberCallExpr":   # os.flags(..) style on a stream
        callee = strip(e["c"][0])
        if callee and callee.get("c"):
            return _stream_ok(f, callee["c"][0], local_ids)
    return False


def check_region(prog, pur, f, stmts, local_outer=None):
    """Return a list of (node, message) for effects inside the region."""
    problems = []
    local_ids = set()
    for st in stmts:
        for x in walk(st):
            if x.get("k") == "VarDecl":
                local_ids.add(x["d"])
    loops_inside = set()
    for st in stmts:
        for x in walk(st):
            if x.get("k") in ("ForStmt", "WhileStmt", "DoStmt", "CXXForRangeStmt", "SwitchStmt"):
                for y in walk(x):
                    loops_inside.add(y["i"])
    for st in stmts:
        for x in walk(st):
            k = x.get("k")
            if k == "ReturnStmt":
                problems.append((x, "returns from the function"))
            elif k in ("BreakStmt", "ContinueStmt") and x["i"] not in loops_inside:
                problems.append((x, "%s leaves the region" % ("break" if k == "BreakStmt" else "continue")))
            elif k == "GotoStmt":
                problems.append((x, "goto"))
            elif k == "CXXThrowExpr":
                problems.append((x, "throws"))
            tgt = None
            if k in ("BinaryOperator", "CompoundAssignOperator") and x.get("op") in flow.ASSIGN_OPS:
                tgt = x["c"][0]
            elif k == "UnaryOperator" and x.get("op") in ("++", "--"):
                tgt = x["c"][0]
            elif k == "CXXOperatorCallExpr" and x.get("op") in flow.ASSIGN_OPS | {"++", "--"} and len(x["c"]) > 1:
                tgt = x["c"][1]
            if tgt is not None:
                root = flow.lvalue_root(tgt)
                if root not in local_ids:
                    problems.append((x, "writes `%s`, which is declared outside the region" % show(tgt)))
                continue
            if is_call(x) and k not in ("CXXConstructExpr", "CXXTemporaryObjectExpr"):
                q = notpl(x.get("q") or "")
                if k == "CXXOperatorCallExpr" and x.get("op") == "<<":
                    if not _stream_ok(f, x["c"][1], local_ids):
                        s = strip_all(x["c"][1])
                        # shifting integers is not stream output
                        if s is not None and (s.get("w") is not None):
                            continue
                        problems.append((x, "writes to a stream other than std::cerr or a local string stream (%s)" % show(x["c"][1])[:40]))
                    continue
                # output helpers: first argument is a diagnostic stream
                args = call_args(x)
                if args and _stream_ok(f, args[0], local_ids) and "ostream" in ((strip_all(args[0]) or {}).get("ct") or (strip_all(args[0]) or {}).get("t") or "ostream"):
                    continue
                if k == "CXXMemberCallExpr":
                    callee = strip(x["c"][0])
                    if callee and callee.get("c") and _stream_ok(f, callee["c"][0], local_ids):
                        continue   # ss.str(), os.flags() ...
                    if callee and callee.get("c"):
                        root = flow.lvalue_root(callee["c"][0])
                        if root in local_ids:
                            continue   # methods of region-local objects
                ok, why = pur.callee_pure(f, x)
                if not ok:
                    problems.append((x, "calls %s, which may have side effects (%s)" % (q or "?", why)))
            if k in ("CXXNewExpr", "CXXDeleteExpr"):
                problems.append((x, "allocates/frees"))
    return problems


def rule_verbose_regions(prog, fixture=False):
    r = RuleResult("R-C18-2", "code executed only under --verbose writes nothing but std::cerr / local string "
                   "streams, calls only pure functions, and never transfers control out of its region",
                   floor=0 if fixture else 30)
    vx = VerboseExprs(prog)
    pur = c19.Purity(prog)
    r.info["verbose_params"] = sorted("%s#%d" % (notpl(prog.callees.get(k, {}).get("q") or k), i) for k, i in vx.vparams)
    for f in prog.functions.values():
        k = 0
        for stmts, desc, anchor in _regions(vx, f):
            k += 1
            key = "%s::%s::verbose-region#%d" % (f.relfile(), f.qn, k)
            probs = check_region(prog, pur, f, stmts)
            if probs:
                x, msg = probs[0]
                r.add(key, f.loc(x), False, "the region %s %s: standard output or the exit status can differ "
                      "with --verbose" % (desc, msg))
            else:
                r.add(key, f.loc(anchor), True, "effect-free (%s)" % desc)
        # `if (!verbose) <leave>;  <diagnostics>`: the verbose path must leave the same way after its diagnostics
        for n in f.walk():
            if n.get("k") != "IfStmt" or "else" in n.get("parts", {}):
                continue
            cond = n["c"][n["parts"]["cond"]]
            if not any(a[0] == "T" and a[2] is True and vx.is_verbose(f, a[1]) for a in atomise(cond, False)):
                continue
            then = n["c"][n["parts"]["then"]]
            last = then
            while last is not None and last.get("k") == "CompoundStmt" and last.get("c"):
                last = last["c"][-1]
            if last is None or last.get("k") not in ("ContinueStmt", "BreakStmt", "ReturnStmt", "GotoStmt"):
                continue
            par = f.parent(n)
            rest = []
            if par is not None and par.get("k") == "CompoundStmt":
                idx = [i for i, s_ in enumerate(par["c"]) if s_ is n][0]
                rest = par["c"][idx + 1:]
            end = rest[-1] if rest else None
            while end is not None and end.get("k") == "CompoundStmt" and end.get("c"):
                end = end["c"][-1]
            same = end is not None and end.get("k") == last.get("k") and \
                (last.get("k") != "ReturnStmt" or show(end) == show(last))
            # falling off the end of the function body is `return;`, off the end of a loop body is `continue`
            if not same and par is not None:
                gp = f.parent(par)
                if last.get("k") == "ReturnStmt" and not last.get("c") and par is f.body:
                    same = True
                if last.get("k") == "ContinueStmt" and gp is not None and gp.get("k") in ("ForStmt", "WhileStmt", "DoStmt", "CXXForRangeStmt") \
                        and gp.get("parts", {}).get("body") is not None and gp["c"][gp["parts"]["body"]] is par:
                    same = True
            k += 1
            r.add("%s::%s::verbose-exit#%d" % (f.relfile(), f.qn, k), f.loc(n), same,
                  "both paths leave with `%s`" % show(last)[:30] if same else
                  "without --verbose control leaves here (`%s`), with --verbose it runs on past the diagnostics: the two "
                  "runs take different paths through the code that follows" % show(last)[:30])
        # any other *use* of a verbose expression (not as a pure condition / pass-through argument)
        for n in f.walk():
            if n.get("k") == "DeclRefExpr" and vx.is_verbose(f, n):
                p = f.parent(n)
                while p is not None and p.get("k") in ("ImplicitCastExpr", "ParenExpr"):
                    p = f.parent(p)
                if p is None:
                    continue
                pk = p.get("k")
                if pk == "IfStmt" or (pk == "UnaryOperator" and p.get("op") == "!") or \
                        (pk == "BinaryOperator" and p.get("op") in ("&&", "||")):
                    continue
                if is_call(p):
                    # passed on as a verbose parameter?
                    ok = False
                    keys = [p["fn"]] if p.get("fn") else indirect_targets(f, p)
                    for i, a in enumerate(call_args(p)):
                        if any(y is n for y in walk(a)) and keys and all((kk, i) in vx.vparams for kk in keys):
                            ok = True
                    if ok:
                        continue
                if pk in ("BinaryOperator",) and p.get("op") == "=" and strip_all(p["c"][0]) is n:
                    continue  # the option handler setting the flag (checked by R-C18-3)
                key = "%s::%s::verbose-use(%s)" % (f.relfile(), f.qn, pk)
                r.add(key, f.loc(n), False, "the verbose flag is used as data here (%s): results can depend on it" % show(p)[:60])
    return r


# ---------------------------------------------------------------- R-C18-3
PRESENTATION_OPTIONS = {"ui", "verbose", "show-config"}


def rule_option_handlers(prog, fixture=False):
    r = RuleResult("R-C18-3", "the handlers of --ui, --verbose and --show-config write only their own flag; "
                   "--ui rebuilds the context carrying every other field over unchanged", floor=0 if fixture else 3)
    main = prog.fn1("main")
    for call in main.walk():
        if call.get("k") != "CallExpr" or notpl(call.get("q") or "") != "getopt_long":
            continue
        rows = c08._option_rows(prog, main, call_args(call)[3])
        if rows is None:
            raise AnalysisBroken("cannot resolve main's option table")
        handlers = {}
        for sw in main.walk():
            if sw.get("k") == "SwitchStmt":
                handlers.update(c08._switch_handlers(main, sw))
        for row in rows:
            if row["name"] not in PRESENTATION_OPTIONS:
                continue
            h = handlers.get(row["val"])
            key = "%s::main::--%s" % (main.relfile(), row["name"])
            if h is None:
                r.add(key, main.loc(row["node"]), False, "no handler found")
                continue
            problems = []
            writes = []
            local_ids = set()
            for st in h:
                for x in walk(st):
                    if x.get("k") == "VarDecl":
                        local_ids.add(x["d"])
            for st in h:
                for x in walk(st):
                    k = x.get("k")
                    tgt = rhs = None
                    if k in ("BinaryOperator", "CompoundAssignOperator") and x.get("op") in flow.ASSIGN_OPS:
                        tgt, rhs = x["c"][0], x["c"][1]
                    elif k == "CXXOperatorCallExpr" and x.get("op") in flow.ASSIGN_OPS and len(x["c"]) == 3:
                        tgt, rhs = x["c"][1], x["c"][2]
                    elif k == "UnaryOperator" and x.get("op") in ("++", "--"):
                        tgt = x["c"][0]
                    if tgt is None:
                        continue
                    root = flow.lvalue_root(tgt)
                    if root in local_ids:
                        continue
                    writes.append((x, tgt, rhs))
            for x, tgt, rhs in writes:
                t = strip_all(tgt)
                tt = t.get("ct") or t.get("t") or ""
                if tt in ("bool", "_Bool") and folded(rhs) is not None:
                    continue        # a flag set to a constant
                if "DFSContext" in tt:
                    # ctx = DFSContext(a, b, c): all fields but the UI one must be carried over
                    bad = _context_rebuild_changes(prog, main, t, rhs)
                    if bad:
                        problems.append("rebuilds the context but %s" % bad)
                    continue
                problems.append("writes `%s`" % show(tgt))
            r.add(key, main.loc(h[0]) if h else main.loc(row["node"]), not problems,
                  "changes only its own flag" if not problems else
                  "the handler of --%s %s: a presentation/diagnostic option changes which data later commands use" %
                  (row["name"], "; ".join(problems)))
    return r


def _context_rebuild_changes(prog, fn, ctxvar, rhs):
    e = strip_all(rhs)
    while e is not None and e.get("k") in ("CXXConstructExpr", "CXXFunctionalCastExpr", "CXXTemporaryObjectExpr") and \
            len(e.get("c", [])) == 1 and e.get("k") != "CXXTemporaryObjectExpr":
        inner = strip_all(e["c"][0])
        if inner is None or not (inner.get("k") in ("CXXConstructExpr", "CXXTemporaryObjectExpr", "CXXFunctionalCastExpr")):
            break
        e = inner
    if e is None or e.get("k") not in ("CXXConstructExpr", "CXXTemporaryObjectExpr"):
        return "in a form that cannot be analysed (%s)" % show(rhs)[:50]
    ctors = prog.call_targets(fn, e)
    if len(ctors) != 1:
        return "through an unresolved constructor"
    ctor = ctors[0]
    pmap = {}
    for ini in ctor.raw.get("inits", []):
        if ini.get("member") and ini.get("init"):
            src = strip_all(ini["init"])
            while src is not None and src.get("k") == "CXXConstructExpr" and len(src.get("c", [])) == 1:
                src = strip_all(src["c"][0])
            if src is not None and src.get("k") == "DeclRefExpr":
                for i, p in enumerate(ctor.params):
                    if p["d"] == src.get("d"):
                        pmap[i] = ini["member"]
    args = e.get("c", [])
    for i, a in enumerate(args):
        field = pmap.get(i)
        if field is None:
            return "argument %d of the constructor does not map to a field" % i
        if "ui" in field.lower():
            continue
        # must be <ctxvar>.<field>
        s = strip_all(a)
        while s is not None and s.get("k") == "CXXConstructExpr" and len(s.get("c", [])) == 1:
            s = strip_all(s["c"][0])
        ok = s is not None and s.get("k") == "MemberExpr" and s.get("n") == field and s.get("c") and \
            same_expr(s["c"][0], ctxvar)
        if not ok:
            return "field %s is set from `%s` instead of being carried over" % (field, show(a)[:60])
    return None


# ---------------------------------------------------------------- R-C18-4 / 5
PRESENTATION_FUNCS = {"getenv", "std::getenv", "secure_getenv", "isatty", "ttyname", "ioctl", "tcgetattr"}
NONDET_FUNCS = {"rand", "random", "srand", "srandom", "drand48", "time", "clock", "gettimeofday", "clock_gettime",
                "getpid", "getppid", "std::rand", "std::time", "std::clock", "gethostname", "getuid", "localtime",
                "gmtime", "std::chrono::system_clock::now", "std::chrono::steady_clock::now",
                "std::chrono::high_resolution_clock::now"}
UI_CONSUMER_FILE = "dfs/cmd_cat.cc"


def rule_presentation_inputs(prog, fixture=False):
    r = RuleResult("R-C18-4", "COLUMNS / terminal queries and the UI style are read only by the cat command; "
                   "nothing reads clocks, random sources or process identity", floor=0 if fixture else 3)
    ui_readers = set()
    for fn in prog.functions.values():
        for n in fn.walk():
            k = n.get("k")
            if k == "CallExpr":
                q = notpl(n.get("q") or "")
                if q in PRESENTATION_FUNCS:
                    ok = fn.relfile() == UI_CONSUMER_FILE or (fixture and "cat" in fn.qn)
                    r.add("%s::%s::%s" % (fn.relfile(), fn.qn, q), fn.loc(n), ok,
                          "read by the cat command" if ok else
                          "%s() is consulted outside the cat command: output of another command can depend on the "
                          "environment or terminal" % q)
                if q in NONDET_FUNCS:
                    r.add("%s::%s::%s" % (fn.relfile(), fn.qn, q), fn.loc(n), False,
                          "%s() makes results differ between runs on the same inputs" % q)
            elif k in ("CXXConstructExpr", "CXXTemporaryObjectExpr") and "random_device" in (n.get("cls") or ""):
                r.add("%s::%s::random_device" % (fn.relfile(), fn.qn), fn.loc(n), False, "random source")
            elif k == "MemberExpr" and n.get("dk") == "Field" and n.get("n") == "ui_":
                # read (not the target of an assignment / ctor init)
                p = fn.parent(n)
                is_write = p is not None and p.get("k") in ("BinaryOperator",) and p.get("op") == "=" and strip_all(p["c"][0]) is n
                if not is_write:
                    ui_readers.add(fn)
    # callers of the functions that read ui_
    for rd in ui_readers:
        if rd.raw.get("inits") is not None and rd.name == notpl(rd.cls or "").split("::")[-1]:
            continue   # constructors copying the field
        callers = []
        for fn in prog.functions.values():
            for n in fn.walk():
                if is_call(n) and n.get("fn") and any(t is rd for t in prog.call_targets(fn, n)):
                    callers.append((fn, n))
        for fn, n in callers:
            ok = fn.relfile() == UI_CONSUMER_FILE or (fixture and "cat" in fn.qn)
            r.add("%s::%s::%s()" % (fn.relfile(), fn.qn, rd.name), fn.loc(n), ok,
                  "UI style consumed by cat" if ok else
                  "the UI style is consulted by %s: data reported by a command other than cat's layout can "
                  "depend on --ui" % fn.qn)
        r.add("%s::%s::reads-ui" % (rd.relfile(), rd.qn), "%s:%d" % (rd.relfile(), rd.line), True,
              "%d callers" % len(callers))
    return r


# ---------------------------------------------------------------- R-C18-6
def rule_environment_cannot_fail(prog, fixture=False):
    from ..exc import MayThrow
    r = RuleResult("R-C18-6", "a function that consults the environment or the terminal (COLUMNS, isatty) lets no "
                   "exception escape: what it finds there may change the layout, never whether the command succeeds",
                   floor=0 if fixture else 1)
    mt = None
    for fn in prog.functions.values():
        reads = [n for n in fn.walk() if n.get("k") == "CallExpr" and notpl(n.get("q") or "") in PRESENTATION_FUNCS]
        if not reads:
            continue
        mt = mt or MayThrow(prog)
        esc = set()
        origin = None
        for site in mt._sites[fn.uid]:
            node = site[0]
            left = mt._filter(fn, node, mt.site_throws(fn, site))
            if left and origin is None:
                origin = (node, sorted(left))
            esc |= left
        key = "%s::%s::escapes" % (fn.relfile(), fn.qn)
        r.add(key, fn.loc(origin[0]) if origin and origin[0] is not None else fn.loc(reads[0]), not esc,
              "no exception leaves the function" if not esc else
              "%s may leave %s (raised at `%s`): a value found in the environment makes the command fail instead of "
              "only changing the layout" % (", ".join(sorted(esc)), fn.qn, show(origin[0])[:40] if origin[0] is not None else "?"))
    return r


# ---------------------------------------------------------------- R-C18-7
def rule_show_config_region(prog, fixture=False):
    r = RuleResult("R-C18-7", "what runs only under --show-config cannot change the drive table: every method it "
                   "calls on objects declared outside the region is a const method (and has no mutable members or "
                   "const_cast to write through)", floor=0 if fixture else 1)
    for fn in prog.functions.values():
        if fn.relfile() != "dfs/main.cc" and not fixture:
            continue
        for n in fn.walk():
            if n.get("k") != "IfStmt":
                continue
            cond = strip_all(n["c"][n["parts"]["cond"]])
            if cond is None or cond.get("k") not in ("DeclRefExpr", "MemberExpr") or cond.get("n") not in ("show_config",):
                continue
            then = n["c"][n["parts"]["then"]]
            local_ids = {x["d"] for x in walk(then) if x.get("k") == "VarDecl"}
            for x in walk(then):
                if x.get("k") != "CXXMemberCallExpr":
                    continue
                callee = strip(x["c"][0])
                obj = callee["c"][0] if callee and callee.get("c") else None
                root = flow.lvalue_root(obj) if obj is not None else None
                if root in local_ids:
                    continue
                info = prog.callees.get(x.get("fn")) or {}
                if not info.get("method"):
                    continue
                nm = notpl(info.get("q") or "?")
                key = "%s::%s::show-config::%s" % (fn.relfile(), fn.qn, nm.split("::")[-1])
                const = bool(info.get("const"))
                casts = [y for t in prog.call_targets(fn, x) for y in t.walk() if y.get("k") == "CXXConstCastExpr"]
                ok = const and not casts
                r.add(key, fn.loc(x), ok, "const method" if ok else
                      "%s is called under --show-config on `%s` and is %s: the diagnostic can alter the state the "
                      "command then works on (e.g. add empty drives to the table)" %
                      (nm, show(obj)[:30], "not a const method" if not const else "casting constness away"))
    return r


# ---------------------------------------------------------------- R-C18-8
def _is_errno(e):
    e = strip_all(e)
    return e is not None and e.get("k") == "UnaryOperator" and e.get("op") == "*" and \
        any(x.get("k") == "CallExpr" and notpl(x.get("q") or "") == "__errno_location" for x in walk(e))


def rule_errno_decisions(prog, fixture=False):
    r = RuleResult("R-C18-8", "where errno *decides* something (`if (errno)`, directly or through a local copy) it was "
                   "cleared earlier in the same function on every path - otherwise a value left behind by unrelated code "
                   "(a diagnostic that could not be written under --verbose, say) turns an ordinary short read into an "
                   "I/O error and the command fails", floor=0 if fixture else 1)
    lambdas_of = {}
    for f in prog.functions.values():
        if f.parent_key:
            for p_ in prog.by_key.get(f.parent_key, []):
                lambdas_of.setdefault(f.uid, []).append(p_)

    def reset_before(fn):
        def transfer(x):
            if x.get("k") == "BinaryOperator" and x.get("op") == "=" and _is_errno(x["c"][0]) and folded(x["c"][1]) == 0:
                return True
            return None
        return flow.must_hold_at(fn, transfer)
    ats = {}
    for fn in prog.functions.values():
        if fn.body is None:
            continue
        copies = set()
        for n in fn.walk():
            if n.get("k") == "VarDecl" and n.get("c") and _is_errno(n["c"][0]):
                copies.add(n["d"])
        sites = []
        for n in fn.walk():
            if n.get("k") in ("IfStmt", "ConditionalOperator", "WhileStmt"):
                cond = n["c"][n["parts"]["cond"]] if n.get("parts") and "cond" in n["parts"] else n["c"][0]
                for x in walk(cond):
                    if _is_errno(x) and x.get("k") == "UnaryOperator":
                        sites.append((n, x, "errno"))
                    elif x.get("k") == "DeclRefExpr" and x.get("d") in copies:
                        src = [v for v in fn.walk() if v.get("k") == "VarDecl" and v.get("d") == x["d"]]
                        sites.append((n, src[0] if src else x, x.get("n")))
        k = 0
        for stmt, probe, what in sites:
            k += 1
            key = "%s::%s::decision on %s#%d" % (fn.relfile(), fn.qn, what, k)
            at = ats.setdefault(fn.uid, reset_before(fn))
            ok = at(probe)
            if not ok:
                # a helper (lambda or function) that only classifies: every call of it must follow a reset in its caller
                oks = []
                for p_ in prog.functions.values():
                    if p_ is fn or p_.body is None:
                        continue
                    pat = None
                    for c in p_.walk():
                        if is_call(c) and fn in prog.call_targets(p_, c):
                            pat = pat or ats.setdefault(p_.uid, reset_before(p_))
                            oks.append(bool(pat(c)))
                ok = bool(oks) and all(oks)
            if ok is None:
                continue
            r.add(key, fn.loc(stmt), bool(ok), "errno was cleared earlier on every path" if ok else
                  "errno decides here but is not cleared in this function beforehand: whatever an earlier, unrelated call "
                  "left in it is taken for the outcome of this operation")
    return r


def run(ctx):
    prog = ctx.prog("dfs", "N")
    return [rule_layering(prog), rule_verbose_regions(prog), rule_option_handlers(prog),
            rule_presentation_inputs(prog), rule_environment_cannot_fail(prog), rule_show_config_region(prog),
            rule_errno_decisions(prog), _shared_static_state(prog)]


def _shared_static_state(prog):
    from . import c10
    r = c10.rule_no_carried_static_state(prog)
    r.rule = "R-C18-9"       # no function keeps state from one call to the next: what a diagnostic call left behind
    return r                 # cannot surface in a later call that writes standard output


SELFTESTS = [
    (rule_errno_decisions, ["c18_errno_bad.cc"], ["c18_errno_good.cc"], "decision on errno"),
    (rule_show_config_region, ["c16_policy_bad.cc"], ["c16_policy_good.cc"], "show-config::"),
    (rule_verbose_regions, ["c18_bad.cc"], ["c18_good.cc"], "verbose-region"),
    (rule_layering, ["c18_bad.cc"], ["c18_good.cc"], "lib_identify"),
    (rule_presentation_inputs, ["c18_bad.cc"], ["c18_good.cc"], "getenv"),
    (rule_environment_cannot_fail, ["c18_bad.cc"], ["c18_good.cc"], "cat_columns_throwing"),
]
