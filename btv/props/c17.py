"""C17 - no command returns bytes from outside the volume or surface.

R-C17-1  half-open bounds: every bounded-access function (overrides of
         DataAccess::read_block, SectorCache accessors) that indexes a
         container by its sector argument, or forwards a *translated* sector
         number to an underlying device, does so only under `arg < count`.
R-C17-2  a failed body read is an error: in the file-body walk the empty
         result of read_block leads only to a throw.
"""
from ..runner import RuleResult
from ..facts import AnalysisBroken
from ..model import strip, strip_all, walk, show, notpl, is_call, call_args, call_receiver
from .. import flow
from ..flow import Guards, cmp_fact, same_expr, bool_atom

EXPLANATION = (
    "Static decision of the bound clause of C17: (1) for every override of DataAccess::read_block and the "
    "SectorCache accessors, each subscript by the sector argument and each forwarding call with a translated "
    "sector number is dominated, on all CFG paths, by a branch fact that normalises to `arg < count` (strict; "
    "`<=` is reported as off-by-one, absence as unbounded); (2) in the file-body walk the empty-optional edge of "
    "read_block reaches the exit only through a throw.  This holds for every catalogue (every start/length), "
    "which the suite samples only inside the boundary.  Not decided: that Opus volume extents are computed "
    "correctly from the volume table (runtime arithmetic).")
ASSUMPTIONS = [
    "clang CFG and branch-edge semantics",
    "the length member compared against is the element/sector count of the object being indexed "
    "(for container subscripts this is checked: the bound must be size() of the same container)",
]

BASE_METHOD = "DFS::DataAccess::read_block"
EXTRA_FUNCS = ["(anonymous namespace)::SectorCache::has", "(anonymous namespace)::SectorCache::get",
               "(anonymous namespace)::SectorCache::put"]


def _param_ids(fn):
    return {p["d"]: p for p in fn.params if p.get("w")}


def _local_inits(fn):
    m = {}
    for x in fn.walk():
        if x.get("k") == "VarDecl" and x.get("c"):
            m[x["d"]] = x["c"][0]
    return m


def _mentions(n, did, inits=None, depth=0):
    """Does the expression depend on parameter `did`, directly or through
    locals initialised from it?"""
    for x in walk(n):
        if x.get("k") == "DeclRefExpr":
            if x.get("d") == did:
                return True
            if inits and depth < 4 and x.get("d") in inits:
                if _mentions(inits[x["d"]], did, inits, depth + 1):
                    return True
    return False


def _predicate_summary(prog, caller, call):
    """If `call` invokes a bool function of the form `return A && B && ...`,
    return [(callee_fn, conjunct)] with the param->arg mapping."""
    targets = prog.call_targets(caller, call)
    if len(targets) != 1:
        return None
    cal = targets[0]
    rets = [n for n in cal.walk() if n.get("k") == "ReturnStmt"]
    if len(rets) != 1 or not rets[0].get("c"):
        return None
    conj = []

    def split(e):
        e = strip_all(e)
        if e.get("k") == "BinaryOperator" and e.get("op") == "&&":
            split(e["c"][0])
            split(e["c"][1])
        else:
            conj.append(e)
    split(rets[0]["c"][0])
    args = call_args(call)
    mapping = {}
    for p, a in zip(cal.params, args):
        mapping[p["d"]] = a
    return cal, conj, mapping


def _sub_same(a, b, mapping):
    """same_expr(a, b) where DeclRefs in `a` (callee terms) that are params map to caller args."""
    a = strip_all(a)
    if a is not None and a.get("k") == "DeclRefExpr" and a.get("d") in mapping:
        return same_expr(mapping[a["d"]], b)
    b = strip_all(b)
    if a is None or b is None:
        return False
    if a.get("k") != b.get("k"):
        return False
    if a.get("k") == "MemberExpr":
        if a.get("n") != b.get("n") or a.get("q") != b.get("q"):
            return False
    elif a.get("k") == "DeclRefExpr":
        if a.get("q") != b.get("q"):
            return False
    for f in ("op", "v", "fn"):
        if a.get(f) != b.get(f):
            return False
    ca, cb = a.get("c", []), b.get("c", [])
    return len(ca) == len(cb) and all(_sub_same(x, y, mapping) for x, y in zip(ca, cb))


def relations_on(prog, fn, guards, node, did):
    """Relations `param REL expr` that hold at `node` on all paths, param = decl id.
    Each item: (rel, rhs_node, mapping or None)."""
    out = []
    cs = guards.cmps(node)
    if cs is None:
        return None
    for l, rel, r in cs:
        ls = strip_all(l)
        if ls.get("k") == "DeclRefExpr" and ls.get("d") == did:
            out.append((rel, r, None))
    for atom, truth in guards.truths(node):
        if not truth or atom is None or not is_call(atom):
            continue
        summ = _predicate_summary(prog, fn, atom)
        if not summ:
            continue
        cal, conj, mapping = summ
        for cj in conj:
            for f in flow.atomise(cj, True):
                if f[0] != "C":
                    continue
                _, l, rel, r = f
                ls, rs = strip_all(l), strip_all(r)
                for side, other, rr in ((ls, r, rel), (rs, l, flow.SWAP[rel])):
                    if side.get("k") == "DeclRefExpr" and side.get("d") in mapping:
                        arg = strip_all(mapping[side["d"]])
                        if arg.get("k") == "DeclRefExpr" and arg.get("d") == did:
                            out.append((rr, other, mapping))
    return out


def _is_size_of(expr, container, mapping=None):
    """expr is `<container>.size()`"""
    e = strip_all(expr)
    if e is None or e.get("k") != "CXXMemberCallExpr":
        return False
    callee = strip(e["c"][0])
    if not callee or callee.get("n") != "size" or not callee.get("c"):
        return False
    obj = callee["c"][0]
    if mapping is not None:
        return _sub_same(obj, container, mapping)
    return same_expr(obj, container)


def family(prog):
    fns = []
    base_keys = [k for k, i in prog.callees.items() if notpl(i.get("q")) == BASE_METHOD]
    if not base_keys:
        raise AnalysisBroken("anchor %s not found" % BASE_METHOD)
    keys = set()
    for k in base_keys:
        keys |= prog.overriders(k)
    for f in prog.functions.values():
        if f.key in keys:
            fns.append(f)
    for q in EXTRA_FUNCS:
        fns.extend(prog.fn(q, required=False))
    return fns


def rule_bounds(prog, fixture=False):
    r = RuleResult("R-C17-1", "every subscript by, or translated forwarding of, the sector argument of a "
                   "bounded-access function is dominated by `arg < count`", floor=0 if fixture else 4)
    if not fixture:
        r.anchors = ["Volume::Access::read_block", "FileView::read_block", "SectorCache::"]
    fam = family(prog)
    r.info["family"] = sorted(f.qn for f in fam)
    for fn in fam:
        ps = _param_ids(fn)
        if not ps:
            continue
        g = None
        inits = _local_inits(fn)
        for n in fn.walk():
            sinks = []
            k = n.get("k")
            if k == "ArraySubscriptExpr":
                sinks.append(("subscript", n["c"][0], n["c"][1]))
            elif k == "CXXOperatorCallExpr" and n.get("op") == "[]" and len(n["c"]) == 3:
                sinks.append(("subscript", n["c"][1], n["c"][2]))
            elif k == "CXXMemberCallExpr":
                callee = strip(n["c"][0])
                nm = callee.get("n") if callee else None
                if nm == "at" and len(n["c"]) == 2:
                    continue  # at() is range-checked by the library
                if nm == "read_block" and len(n["c"]) == 2:
                    arg = strip_all(n["c"][1])
                    # translated (computed from the parameter), not passed through unchanged
                    if not (arg.get("k") == "DeclRefExpr" and arg.get("d") in ps):
                        sinks.append(("forward", callee["c"][0] if callee.get("c") else None, n["c"][1]))
            for kind, obj, idx in sinks:
                for did, p in ps.items():
                    if not _mentions(idx, did, inits):
                        continue
                    # the parameter must not have been reassigned before the sink
                    if g is None:
                        g = Guards(fn)
                    rels = relations_on(prog, fn, g, n, did)
                    key = "%s::%s::%s[%s]" % (fn.relfile(), fn.qn, kind, show(n))
                    if rels is None:
                        continue  # unreachable code
                    strict = False
                    offby = None
                    for rel, rhs, mapping in rels:
                        if kind == "subscript":
                            if not _is_size_of(rhs, obj, mapping):
                                continue
                        if rel == "<":
                            strict = True
                        elif rel == "<=":
                            offby = rhs
                    if strict:
                        r.add(key, fn.loc(n), True, "%s < bound on all paths" % p["n"])
                    elif offby is not None:
                        r.add(key, fn.loc(n), False,
                              "off-by-one bound: only `%s <= %s` holds here, so %s == count reaches %s" %
                              (p["n"], show(offby), p["n"], show(n)))
                    else:
                        r.add(key, fn.loc(n), False,
                              "no bound `%s < count` dominates %s" % (p["n"], show(n)))
    return r


def rule_body_read_failure(prog, fixture=False):
    r = RuleResult("R-C17-2", "in the file-body walk, the empty result of read_block reaches the function "
                   "exit only through a throw", floor=1)
    fn = prog.fn1("DFS::CatalogEntry::visit_file_body_piecewise")
    check_empty_edge_throws(prog, fn, r)
    return r


def check_empty_edge_throws(prog, fn, r):
    cfg = fn.cfg
    throw_blocks = set()
    for bid in cfg.blocks:
        for n in flow.element_nodes(fn, bid):
            if n.get("k") == "CXXThrowExpr":
                throw_blocks.add(bid)
    for n in fn.walk():
        if n.get("k") != "VarDecl" or not n.get("c"):
            continue
        init = strip_all(n["c"][0])
        # look through copy-elision constructs
        while init is not None and init.get("k") in ("CXXConstructExpr",) and len(init.get("c", [])) == 1:
            init = strip_all(init["c"][0])
        if init is None or init.get("k") != "CXXMemberCallExpr":
            continue
        callee = strip(init["c"][0])
        if not callee or callee.get("n") != "read_block":
            continue
        did = n["d"]
        key = "%s::%s::%s" % (fn.relfile(), fn.qn, n["n"])
        tested = False
        ok = True
        detail = ""
        for bid in cfg.reachable():
            b = cfg.blocks[bid]
            if b.get("cond") is None:
                continue
            cond = fn.nodes.get(b["cond"])
            ss = cfg.succ[bid]
            if len(ss) != 2:
                continue
            for outcome, succ in ((True, ss[0]), (False, ss[1])):
                for f in flow.atomise(cond, outcome):
                    if f[0] != "T" or f[2]:
                        continue
                    atom = strip_all(f[1])
                    if atom.get("k") != "DeclRefExpr" or atom.get("d") != did:
                        continue
                    tested = True
                    if succ >= 0 and flow.block_paths_reach(cfg, succ, {cfg.exit}, avoid=throw_blocks):
                        ok = False
                        detail = "when %s is empty the function can still return normally (no throw on that path)" % n["n"]
        if not tested:
            ok = False
            detail = "result of read_block is never tested for emptiness"
        r.add(key, fn.loc(n), ok, detail or "empty result leads only to a throw")


# ---------------------------------------------------------------- R-C17-3 / R-C17-4
def _linacc(fn, e, depth=0):
    """Linear form over zero-argument accessor calls (x.len(), x.start_sector(), ...), parameters and
    constants; locals through their single initialiser.  None if not linear."""
    from ..flow import folded
    e = strip_all(e)
    if e is None or depth > 10:
        return None
    v = folded(e)
    if v is not None:
        return {"": v}
    k = e.get("k")
    if k == "CXXMemberCallExpr" and len(e.get("c", [])) == 1:
        nm = (strip(e["c"][0]) or {}).get("n")
        return {"%s()" % nm: 1}
    if k == "DeclRefExpr":
        if e.get("dk") == "ParmVar":
            return {"param:%s" % e.get("n"): 1}
        written = any(d == e.get("d") for x in fn.walk() for d, _ in flow.written_decls(x))
        if not written:
            for vd in fn.walk():
                if vd.get("k") == "VarDecl" and vd.get("d") == e.get("d") and vd.get("c"):
                    return _linacc(fn, vd["c"][0], depth + 1)
        return None
    if k in ("CStyleCastExpr", "CXXStaticCastExpr", "CXXFunctionalCastExpr", "CXXConstructExpr") and len(e.get("c", [])) == 1:
        return _linacc(fn, e["c"][0], depth + 1)
    if k == "BinaryOperator" and e.get("op") in ("+", "-"):
        a, b = _linacc(fn, e["c"][0], depth + 1), _linacc(fn, e["c"][1], depth + 1)
        if a is None or b is None:
            return None
        out = dict(a)
        for kk, vv in b.items():
            out[kk] = out.get(kk, 0) + (vv if e["op"] == "+" else -vv)
        return out
    return None


def _norm(a):
    return {k: v for k, v in (a or {}).items() if v != 0}


def _emit_extent(r, key, fn, n, a, f_, t_):
    if f_ == {} and list(t_) == ["total_sectors()"] and t_["total_sectors()"] == 1:
        r.add(key, fn.loc(n), True, "whole surface: (0, total_sectors())")
    elif f_ == {"start_sector()": 1} and t_ == {"len()": 1}:
        r.add(key, fn.loc(n), True, "(start_sector(), len())")
    elif set(f_) | set(t_) <= {"start_sector()", "len()", "total_sectors()", ""}:
        r.add(key, fn.loc(n), False, "the volume is created with first sector `%s` and extent `%s`; the "
              "constructor takes (first sector, number of sectors), so the window reaches into the "
              "following volume (or stops short)" % (show(a[2]), show(a[3])))
    else:
        r.undecided.append("%s: extent arguments `%s`, `%s` use accessors this rule does not know" %
                           (fn.loc(n), show(a[2]), show(a[3])))


def rule_volume_extent(prog, fixture=False):
    r = RuleResult("R-C17-3", "each Opus volume is created with its own start and its own length from the disc "
                   "catalogue (first = start_sector(), extent = len()), a single-volume disc with (0, total "
                   "sectors of the geometry); and Volume hands exactly those two constructor parameters to the "
                   "bounds-checking Access object - never a figure from the volume's own catalogue",
                   floor=0 if fixture else 3)
    for fn in prog.fnby("init_volumes", required=not fixture):
        k = 0
        for n in fn.walk():
            if n.get("k") == "CallExpr" and notpl(n.get("q") or "") == "std::make_unique" and "Volume" in (n.get("ct") or n.get("t") or ""):
                a = call_args(n)
                if len(a) < 5:
                    continue
                # the two extent values either stand here, or come as two fields of a record that is filled
                # in elsewhere (every braced construction of that record is then an instance)
                pairs = []
                fa, ta = strip_all(a[2]), strip_all(a[3])
                if fa is not None and ta is not None and fa.get("k") == "MemberExpr" and ta.get("k") == "MemberExpr" and \
                        fa.get("dk") == "Field" and ta.get("dk") == "Field" and \
                        (strip_all(fa["c"][0]) or {}).get("d") == (strip_all(ta["c"][0]) or {}).get("d"):
                    base = strip_all(fa["c"][0])
                    rt = notpl((base.get("ct") or base.get("t") or "").replace("const ", "").replace("&", "").strip())
                    rec = [rc for q_, rc in prog.records.items() if notpl(q_).split("::")[-1] == rt.split("::")[-1]]
                    if rec:
                        names = [f_["n"] for f_ in rec[0]["fields"]]
                        if fa.get("n") in names and ta.get("n") in names:
                            fi, ti = names.index(fa["n"]), names.index(ta["n"])
                            for g_ in prog.functions.values():
                                for x in g_.walk():
                                    if x.get("k") == "InitListExpr" and notpl((x.get("ct") or x.get("t") or "")).split("::")[-1] == rt.split("::")[-1] \
                                            and len(x.get("c", [])) > max(fi, ti):
                                        pairs.append((g_, x, x["c"][fi], x["c"][ti]))
                if not pairs:
                    pairs = [(fn, n, a[2], a[3])]
                for (pf, pnode, pa, pb) in pairs:
                    k += 1
                    first, total = _linacc(pf, pa), _linacc(pf, pb)
                    key = "%s::%s::Volume#%d" % (pf.relfile(), pf.qn, k)
                    if first is None or total is None:
                        r.undecided.append("%s: cannot express the extent arguments `%s`, `%s` as linear forms" %
                                           (pf.loc(pnode), show(pa), show(pb)))
                        continue
                    _emit_extent(r, key, pf, pnode, [None, None, pa, pb], _norm(first), _norm(total))
    for fn in prog.functions.values():
        if fn.qn != "DFS::Volume::Volume":
            continue
        pnames = [p["n"] for p in fn.params]
        for init in fn.raw.get("inits", []):
            e = init.get("init")
            if e is None or "Access" not in ((strip_all(e) or {}).get("ct") or (strip_all(e) or {}).get("t") or ""):
                continue
            x = strip_all(e)
            args = [c for c in x.get("c", []) if (strip(c) or {}).get("k") != "CXXDefaultArgExpr"]
            key = "%s::%s::%s" % (fn.relfile(), fn.qn, init.get("member"))
            # the extent handed over as one braced record {first, count}
            flat = []
            for a_ in args:
                sa_ = strip_all(a_)
                for _ in range(3):
                    if sa_ is not None and sa_.get("k") in ("CXXFunctionalCastExpr", "CXXConstructExpr", "CXXTemporaryObjectExpr",
                                                            "CompoundLiteralExpr", "CXXBindTemporaryExpr") and len(sa_.get("c", [])) == 1:
                        sa_ = strip_all(sa_["c"][0])
                if sa_ is not None and sa_.get("k") == "InitListExpr" and len(sa_.get("c", [])) == 2:
                    flat = list(sa_["c"])
            if flat:
                args = flat
            if len(args) < 2:
                r.undecided.append("%s: unexpected Access construction" % fn.qn)
                continue
            probs = []
            for idx, want in ((0, 2), (1, 3)):
                lf = _linacc(fn, args[idx])
                wantname = "param:%s" % pnames[want] if want < len(pnames) else None
                if lf is None or _norm(lf) != {wantname: 1}:
                    src = [y for y in walk(args[idx]) if y.get("k") in ("CXXMemberCallExpr", "MemberExpr")]
                    probs.append("argument %d is `%s`, not the constructor parameter `%s`%s" %
                                 (idx + 1, show(args[idx]), pnames[want] if want < len(pnames) else "?",
                                  " (it reads the volume's own catalogue, which a hostile image controls)" if src else ""))
            r.add(key, "%s:%d" % (fn.relfile(), fn.line), not probs, "Access(first_sector, total_sectors)" if not probs
                  else "; ".join(probs))
    return r


# ---------------------------------------------------------------- R-C17-4
def rule_window_consistency(prog, fixture=False):
    r = RuleResult("R-C17-4", "in Volume::Access the value compared with the bound and the bound itself are in the "
                   "same coordinates: with origin and length taken from the constructor, (bound as initialised) - "
                   "(expression compared) = length - lba, so the last sector passed on is origin + length - 1",
                   floor=0 if fixture else 1)
    for fn in prog.functions.values():
        if not fn.qn.endswith("Volume::Access::read_block"):
            continue
        ctor = [f for f in prog.functions.values() if f.cls == fn.cls and "inits" in f.raw and len(f.params) >= 2]
        if len(ctor) != 1:
            r.undecided.append("Volume::Access: constructor not found")
            continue
        ctor = ctor[0]
        # member -> linear form over constructor parameters
        minit = {}
        for init in ctor.raw["inits"]:
            if init.get("member") and init.get("init"):
                lf = _linacc(ctor, init["init"])
                if lf is not None:
                    minit[init["member"]] = _norm(lf)
        pfirst, plen = "param:%s" % ctor.params[0]["n"], "param:%s" % ctor.params[1]["n"]
        lba = fn.params[0]

        def form(e):
            """linear form over {LBA, ctor params} of an expression in read_block"""
            from ..flow import folded as _f
            e = strip_all(e)
            if e is None:
                return None
            v = _f(e)
            if v is not None:
                return {"": v}
            if e.get("k") == "DeclRefExpr" and e.get("d") == lba["d"]:
                return {"LBA": 1}
            if e.get("k") == "MemberExpr" and e.get("n") in minit:
                return dict(minit[e["n"]])
            if e.get("k") == "BinaryOperator" and e.get("op") in ("+", "-"):
                a, b = form(e["c"][0]), form(e["c"][1])
                if a is None or b is None:
                    return None
                out = dict(a)
                for kk, vv in b.items():
                    out[kk] = out.get(kk, 0) + (vv if e["op"] == "+" else -vv)
                return out
            return None
        g = Guards(fn)
        fwd = [n for n in fn.walk() if n.get("k") == "CXXMemberCallExpr" and (strip(n["c"][0]) or {}).get("n") == "read_block"]
        for n in fwd:
            key = "%s::%s::window" % (fn.relfile(), fn.qn)
            farg = form(n["c"][1])
            if farg is None:
                r.undecided.append("%s: forwarded index `%s` is not linear" % (fn.loc(n), show(n["c"][1])))
                continue
            # the tightest upper-bound fact  E < B  at the forward
            verdict = None
            for l, rel, rr in (g.cmps(n) or []):
                if rel != "<":
                    continue
                fl, fb = form(l), form(rr)
                if fl is None or fb is None or "LBA" not in fl:
                    continue
                # forwarded - compared expression, as a form: the forward is below (bound + that difference)
                diff = {k_: farg.get(k_, 0) - fl.get(k_, 0) for k_ in set(farg) | set(fl)}
                top = _norm({k_: fb.get(k_, 0) + diff.get(k_, 0) for k_ in set(fb) | set(diff)})
                want = _norm({pfirst: 1, plen: 1})
                ok = top == want
                verdict = (ok, top)
                if ok:
                    break
            if verdict is None:
                r.undecided.append("%s: no upper-bound fact about the block number at the forward" % fn.loc(n))
                continue
            ok, top = verdict
            r.add(key, fn.loc(n), ok, "forwards only sectors below first + count" if ok else
                  "the forwarded sector number is only known to be below  %s , not below first sector + sector count: "
                  "the bound and the value compared with it are in different coordinates (volume-relative vs "
                  "absolute), so the window reaches past the end of the volume" %
                  " + ".join("%s%s" % ("" if v_ == 1 else "%d*" % v_, k_.replace("param:", "")) for k_, v_ in sorted(top.items())))
    return r


# ---------------------------------------------------------------- R-C17-5
def _geom_total(fn, e, depth=0):
    """The geometry object G when e is `G.total_sectors()`, possibly through a never-reassigned local."""
    e = strip_all(e)
    if e is None or depth > 4:
        return None
    if e.get("k") == "CXXMemberCallExpr" and (strip(e["c"][0]) or {}).get("n") == "total_sectors":
        return strip_all((strip(e["c"][0]) or {}).get("c", [None])[0])
    if e.get("k") in ("CXXConstructExpr", "CXXFunctionalCastExpr", "CStyleCastExpr", "CXXStaticCastExpr") and len(e.get("c", [])) == 1:
        return _geom_total(fn, e["c"][0], depth + 1)
    if e.get("k") == "DeclRefExpr" and e.get("dk") == "Var":
        if any(d_ == e["d"] for y in fn.walk() for d_, _ in flow.written_decls(y)):
            return None
        for v in fn.walk():
            if v.get("k") == "VarDecl" and v.get("d") == e["d"] and v.get("c"):
                return _geom_total(fn, v["c"][0], depth + 1)
    return None


def rule_view_limit_is_own_geometry(prog, fixture=False):
    r = RuleResult("R-C17-5", "each surface view is limited to the sector count of the geometry it is given: the "
                   "`total` argument of FileView is <its geometry argument>.total_sectors() (not the count of the "
                   "whole two-sided image, which would let reads run on into the other side's or the next slot's data)",
                   floor=0 if fixture else 2)
    for fn in prog.functions.values():
        for n in fn.walk():
            if n.get("k") not in ("CXXConstructExpr", "CXXTemporaryObjectExpr") or not notpl(n.get("cls") or "").endswith("FileView") \
                    or len(n.get("c", [])) < 8:
                continue
            geom, total = strip_all(n["c"][3]), n["c"][7]
            key = "%s::%s::FileView#%d" % (fn.relfile(), fn.qn, len(r.instances) + 1)
            if flow.folded(n["c"][5]) == 0:
                r.add(key, fn.loc(n), True, "take = 0: a view through which no I/O is possible", nontrivial=False)
                continue
            g2 = _geom_total(fn, total)
            if g2 is None:
                r.undecided.append("%s: cannot relate the limit `%s` of this view to a geometry" % (fn.loc(n), show(total)[:40]))
                continue
            ok = geom is not None and g2.get("k") == "DeclRefExpr" and geom.get("k") == "DeclRefExpr" and g2.get("d") == geom.get("d")
            r.add(key, fn.loc(n), ok, "limit = %s.total_sectors()" % show(geom) if ok else
                  "the view is given the geometry `%s` but is limited to `%s`.total_sectors(): sectors beyond the surface "
                  "are readable through it" % (show(geom)[:30], show(g2)[:30]))
    return r


# ---------------------------------------------------------------- R-C17-7
def rule_every_volume_is_trimmed(prog, fixture=False):
    r = RuleResult("R-C17-7", "the loop that derives each Opus volume's end from the start of the next one sets it for every "
                   "volume it passes: the set_next_sector call is not under a condition (a volume left with its initial end "
                   "would reach into the volumes behind it)", floor=0 if fixture else 1)
    for fn in prog.functions.values():
        for n in fn.walk():
            if n.get("k") != "CXXMemberCallExpr" or (strip(n["c"][0]) or {}).get("n") != "set_next_sector":
                continue
            loop = None
            for a in fn.ancestors(n):
                if a.get("k") in ("ForStmt", "WhileStmt", "DoStmt", "CXXForRangeStmt"):
                    loop = a
                    break
            if loop is None:
                continue
            body = loop["c"][loop["parts"]["body"]]
            conds = [a for a in fn.ancestors(n) if any(y is a for y in walk(body)) and
                     a.get("k") in ("IfStmt", "ConditionalOperator", "SwitchStmt") and a is not body]
            skips = [x for x in walk(body) if x.get("k") in ("ContinueStmt", "BreakStmt")]
            key = "%s::%s::set_next_sector" % (fn.relfile(), fn.qn)
            ok = not conds and not skips
            r.add(key, fn.loc(n), ok, "unconditional in the extent loop" if ok else
                  "the end of a volume is only set under a condition (%s): a volume for which it fails keeps the end it was "
                  "created with" % (fn.loc(conds[0]) if conds else fn.loc(skips[0])))
    return r


def run(ctx):
    prog = ctx.prog("dfs", "N")
    return [rule_bounds(prog), rule_body_read_failure(prog), rule_volume_extent(prog),
            rule_window_consistency(prog), rule_view_limit_is_own_geometry(prog), _shared_slot_position(prog),
            rule_every_volume_is_trimmed(prog), _shared_probe_rule(prog), _shared_static_state(prog)]


def _shared_static_state(prog):
    from . import c10
    r = c10.rule_no_carried_static_state(prog)
    r.rule = "R-C17-9"       # no storage shared between the drives: a sector read from one surface cannot answer for another
    return r


def _shared_probe_rule(prog):
    from . import c13
    r = c13.rule_probe_ignores_bodies(prog)
    r.rule = "R-C17-8"       # an Opus disc is not demoted to plain DFS (losing every volume window) because of a file body
    return r


def _shared_slot_position(prog):
    from . import c04
    r = c04.rule_slot_position(prog)
    r.rule = "R-C17-6"       # a slot's view starts at that slot's own image, so nothing of a neighbouring slot is read
    return r


SELFTESTS = [
    (rule_every_volume_is_trimmed, ["c17_trim_bad.cc"], ["c17_trim_good.cc"], "set_next_sector"),
    (rule_view_limit_is_own_geometry, ["c04_mmb_bad.cc"], ["c04_mmb_good.cc"], "FileView#"),
    (rule_bounds, ["c17_bad.cc"], ["c17_good.cc"], "Access::read_block"),
    (rule_volume_extent, ["c17_vol_bad.cc"], ["c17_vol_good.cc"], "Volume#1"),
]
