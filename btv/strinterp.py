"""A tiny concrete folder for *per-character translation functions*: given a
function (or a statement list) whose behaviour depends only on one character
value, compute the string it produces for that character.  Used to fold the
wildcard translator for each of the 255 byte values (a finite domain, folded
exhaustively - the translation table the code denotes, not a run of dfs).

Supported: char/int/bool values, std::string values; switch on the character,
if/else, return, break; push_back / append / += / assign on strings and
vector<char>; string(n, c), string(literal), string + string|char; up()/down()/
toupper/tolower (C locale); ==, !=, &&, ||, !, ?:; locals and static const
char arrays.  Anything else raises Unfoldable."""
from .model import strip, strip_all, walk, show, notpl, is_call, call_args
from .flow import folded


class Unfoldable(Exception):
    pass


class _Return(Exception):
    def __init__(self, v):
        self.v = v


class _Break(Exception):
    pass


class Ref:
    """A parameter that designates a variable of the caller (reference, or pointer obtained with &)."""
    def __init__(self, env, d):
        self.env, self.d = env, d


def c_upper(c):
    return c - 32 if 97 <= c <= 122 else c


def c_lower(c):
    return c + 32 if 65 <= c <= 90 else c


class StrFolder:
    def __init__(self, prog, fn, char_hook=None):
        self.prog = prog
        self.fn = fn
        self.char_hook = char_hook      # node -> character value, for "the current character" expressions

    @staticmethod
    def _get(env, d, default=None):
        v = env.get(d, default)
        while isinstance(v, Ref):
            v = v.env.get(v.d, default)
        return v

    @staticmethod
    def _set(env, d, val):
        cur = env.get(d)
        if isinstance(cur, Ref):
            StrFolder._set(cur.env, cur.d, val)
        else:
            env[d] = val

    # values: int (characters, integers, bools) or str (byte strings as latin-1 str) or list (vector<char>)
    def run_function(self, f, args, depth=0):
        if depth > 6:
            raise Unfoldable("call depth")
        env = {}
        for p, a in zip(f.params, args):
            env[p["d"]] = a
        try:
            self._stmt(f, f.body, env, depth)
        except _Return as r:
            return r.v
        return None

    def run_statements(self, f, stmts, env):
        """Execute statements (e.g. the handlers of one switch label); returns env."""
        try:
            for st in stmts:
                self._stmt(f, st, env, 0)
        except _Break:
            pass
        return env

    def _stmt(self, f, st, env, depth):
        k = st.get("k")
        if k == "CompoundStmt":
            for c in st.get("c", []):
                self._stmt(f, c, env, depth)
            return
        if k == "DeclStmt":
            for d in st.get("c", []):
                if d.get("k") == "VarDecl":
                    env[d["d"]] = self._expr(f, d["c"][0], env, depth) if d.get("c") else self._default(d)
            return
        if k == "ReturnStmt":
            raise _Return(self._expr(f, st["c"][0], env, depth) if st.get("c") else None)
        if k == "BreakStmt":
            raise _Break()
        if k == "NullStmt":
            return
        if k == "IfStmt":
            p = st["parts"]
            c = self._expr(f, st["c"][p["cond"]], env, depth)
            if c:
                self._stmt(f, st["c"][p["then"]], env, depth)
            elif "else" in p:
                self._stmt(f, st["c"][p["else"]], env, depth)
            return
        if k == "SwitchStmt":
            v = self._expr(f, st["c"][0], env, depth)
            body = [c for c in st.get("c", []) if c.get("k") == "CompoundStmt"]
            if not body:
                raise Unfoldable("switch without body")
            seq = body[0].get("c", [])

            def labels(n):
                labs = []
                while n is not None and n.get("k") in ("CaseStmt", "DefaultStmt"):
                    labs.append(n.get("v") if n.get("k") == "CaseStmt" else "default")
                    n = n["c"][-1] if n.get("c") else None
                return labs, n
            all_labels = set()
            for s in seq:
                if s.get("k") in ("CaseStmt", "DefaultStmt"):
                    all_labels |= set(labels(s)[0])
            want = v if v in all_labels else ("default" if "default" in all_labels else None)
            if want is None:
                return
            active = False
            try:
                for s in seq:
                    if s.get("k") in ("CaseStmt", "DefaultStmt"):
                        labs, inner = labels(s)
                        if want in labs:
                            active = True
                        s = inner
                    if active and s is not None:
                        self._stmt(f, s, env, depth)
            except _Break:
                pass
            return
        if k in ("ForStmt", "WhileStmt", "DoStmt", "CXXForRangeStmt"):
            raise Unfoldable("loop")
        # expression statement
        self._expr(f, st, env, depth)

    def _default(self, d):
        t = d.get("ct") or d.get("t") or ""
        if "basic_string" in t:
            return ""
        if "vector" in t:
            return []
        return 0

    def _lvalue(self, f, e, env):
        e = strip_all(e)
        if e is not None and e.get("k") == "UnaryOperator" and e.get("op") == "*":
            e = strip_all(e["c"][0])
        if e is not None and e.get("k") == "DeclRefExpr":
            return e["d"]
        raise Unfoldable("lvalue %s" % show(e))

    def _expr(self, f, e, env, depth):
        n = strip(e)
        if n is None:
            raise Unfoldable("null")
        if self.char_hook is not None:
            hv = self.char_hook(f, n, env)
            if hv is not None:
                return hv
        k = n.get("k")
        v = folded(n)
        if v is not None and k not in ("DeclRefExpr",):
            return v
        if k in ("ImplicitCastExpr", "CStyleCastExpr", "CXXStaticCastExpr", "CXXFunctionalCastExpr", "ParenExpr") and n.get("c"):
            val = self._expr(f, n["c"][0], env, depth)
            w = n.get("w")
            if isinstance(val, int) and w:
                if n.get("ck") == "IntegralToBoolean" or w == 1:
                    return int(val != 0)
                val &= (1 << w) - 1
                if n.get("sg") and val >> (w - 1):
                    val -= 1 << w
            return val
        if k == "StringLiteral":
            return n.get("s", "")
        if k == "DeclRefExpr":
            if n["d"] in env:
                return self._get(env, n["d"])
            if v is not None:
                return v
            # static const char[] / global constants
            for g in self.prog.globals.values():
                if g["n"] == n.get("n") and g.get("init"):
                    return self._expr(f, g["init"], {}, depth)
            for vd in f.walk():
                if vd.get("k") == "VarDecl" and vd.get("d") == n["d"] and vd.get("c"):
                    return self._expr(f, vd["c"][0], env, depth)
            raise Unfoldable("unknown variable %s" % n.get("n"))
        if k == "ConditionalOperator":
            c = self._expr(f, n["c"][0], env, depth)
            return self._expr(f, n["c"][1] if c else n["c"][2], env, depth)
        if k == "UnaryOperator":
            a = self._expr(f, n["c"][0], env, depth)
            if n["op"] == "!":
                return int(not a)
            if n["op"] == "-":
                return -a
            raise Unfoldable("unary %s" % n["op"])
        if k == "BinaryOperator":
            op = n["op"]
            if op == "&&":
                return int(bool(self._expr(f, n["c"][0], env, depth)) and bool(self._expr(f, n["c"][1], env, depth)))
            if op == "||":
                return int(bool(self._expr(f, n["c"][0], env, depth)) or bool(self._expr(f, n["c"][1], env, depth)))
            if op == "=":
                d = self._lvalue(f, n["c"][0], env)
                self._set(env, d, self._expr(f, n["c"][1], env, depth))
                return self._get(env, d)
            a = self._expr(f, n["c"][0], env, depth)
            b = self._expr(f, n["c"][1], env, depth)
            try:
                return {"==": int(a == b), "!=": int(a != b), "<": int(a < b), ">": int(a > b), "<=": int(a <= b),
                        ">=": int(a >= b), "+": a + b, "-": a - b, "&": a & b, "|": a | b, "^": a ^ b}[op]
            except (KeyError, TypeError):
                raise Unfoldable("binary %s" % op)
        if k in ("CXXConstructExpr", "CXXTemporaryObjectExpr"):
            cls = notpl(n.get("cls") or "")
            args = [self._expr(f, c, env, depth) for c in n.get("c", []) if strip(c) is not None and strip(c).get("k") != "CXXDefaultArgExpr"]
            if "basic_string" in cls:
                if not args:
                    return ""
                if len(args) == 1:
                    return args[0] if isinstance(args[0], str) else chr(args[0] & 0xFF)
                if len(args) >= 2 and isinstance(args[0], int) and isinstance(args[1], int):
                    return chr(args[1] & 0xFF) * args[0]
                if len(args) >= 2 and isinstance(args[0], str):
                    return args[0]
            if "vector" in cls or "initializer_list" in cls:
                return list(args[0]) if args and isinstance(args[0], list) else [a for a in args]
            if len(args) == 1:
                return args[0]
            raise Unfoldable("construct %s" % cls)
        if k == "InitListExpr":
            return [self._expr(f, c, env, depth) for c in n.get("c", [])]
        if k == "CXXStdInitializerListExpr" and n.get("c"):
            return self._expr(f, n["c"][0], env, depth)
        if k == "CXXOperatorCallExpr":
            op = n.get("op")
            ops = n["c"][1:]
            if op == "+" and len(ops) == 2:
                a, b = self._expr(f, ops[0], env, depth), self._expr(f, ops[1], env, depth)
                a = a if isinstance(a, str) else chr(a & 0xFF)
                b = b if isinstance(b, str) else chr(b & 0xFF)
                return a + b
            if op in ("+=", "=") and len(ops) == 2:
                d = self._lvalue(f, ops[0], env)
                b = self._expr(f, ops[1], env, depth)
                if op == "=":
                    self._set(env, d, b)
                else:
                    self._set(env, d, self._append(self._get(env, d, ""), b))
                return self._get(env, d)
            if op in ("==", "!=") and len(ops) == 2:
                a, b = self._expr(f, ops[0], env, depth), self._expr(f, ops[1], env, depth)
                return int((a == b) == (op == "=="))
            raise Unfoldable("operator %s" % op)
        if k == "CXXMemberCallExpr":
            cal = strip(n["c"][0])
            nm = cal.get("n") if cal else None
            obj = cal["c"][0] if cal and cal.get("c") else None
            args = n["c"][1:]
            if nm in ("push_back", "append", "assign", "operator+="):
                d = self._lvalue(f, obj, env)
                vals = [self._expr(f, a, env, depth) for a in args]
                if nm == "assign":
                    if len(vals) == 1:
                        self._set(env, d, vals[0])
                    elif len(vals) == 2 and isinstance(vals[0], int) and not isinstance(vals[1], (str, list)):
                        self._set(env, d, chr(vals[1] & 0xFF) * vals[0])
                    else:
                        raise Unfoldable("assign form")
                elif nm == "append" and len(vals) == 2 and isinstance(vals[0], int) and isinstance(vals[1], int):
                    self._set(env, d, self._append(self._get(env, d, ""), chr(vals[1] & 0xFF) * vals[0]))
                else:
                    self._set(env, d, self._append(self._get(env, d, ""), vals[0]))
                return self._get(env, d)
            if nm in ("reserve", "clear"):
                if nm == "clear":
                    d = self._lvalue(f, obj, env)
                    self._set(env, d, "" if isinstance(self._get(env, d, ""), str) else [])
                return 0
            if nm in ("c_str", "data", "str"):
                return self._expr(f, obj, env, depth)
            if nm in ("cbegin", "begin", "cend", "end"):
                return ("iter", nm, self._lvalue(f, obj, env))
            if nm in ("size", "length"):
                return len(self._expr(f, obj, env, depth))
            raise Unfoldable("member call %s" % nm)
        if k == "CallExpr":
            q = notpl(n.get("q") or "").split("::")[-1]
            args = call_args(n)
            if q == "toupper":
                return c_upper(self._expr(f, args[0], env, depth) & 0xFF)
            if q == "tolower":
                return c_lower(self._expr(f, args[0], env, depth) & 0xFF)
            if q in ("isalpha", "isupper", "islower", "isdigit", "isalnum", "ispunct"):
                c = self._expr(f, args[0], env, depth) & 0xFF
                return int({"isalpha": (65 <= c <= 90 or 97 <= c <= 122), "isupper": 65 <= c <= 90, "islower": 97 <= c <= 122,
                            "isdigit": 48 <= c <= 57, "isalnum": (48 <= c <= 57 or 65 <= c <= 90 or 97 <= c <= 122),
                            "ispunct": 33 <= c < 127 and not chr(c).isalnum()}[q])
            ts = self.prog.call_targets(f, n)
            if len(ts) == 1:
                vals = []
                for p_, a in zip(ts[0].params, args):
                    pt = (p_.get("t") or "")
                    sa = strip_all(a)
                    if sa is not None and sa.get("k") == "UnaryOperator" and sa.get("op") == "&" and \
                            (strip_all(sa["c"][0]) or {}).get("k") == "DeclRefExpr":
                        vals.append(Ref(env, strip_all(sa["c"][0])["d"]))      # &accumulator
                    elif pt.rstrip().endswith("&") and "const" not in pt and sa is not None and sa.get("k") == "DeclRefExpr":
                        vals.append(Ref(env, sa["d"]))                         # accumulator by reference
                    elif sa is not None and sa.get("k") == "DeclRefExpr" and isinstance(env.get(sa["d"]), Ref):
                        vals.append(env[sa["d"]])                              # an out-parameter handed on
                    else:
                        vals.append(self._expr(f, a, env, depth))
                return self.run_function(ts[0], vals, depth + 1)
            raise Unfoldable("call %s" % q)
        if k == "ExprWithCleanups" and n.get("c"):
            return self._expr(f, n["c"][0], env, depth)
        raise Unfoldable("expression %s (%s)" % (k, show(n)[:40]))

    @staticmethod
    def _append(cur, v):
        if isinstance(cur, list):
            return cur + ([v] if isinstance(v, int) else list(v))
        if isinstance(v, int):
            return cur + chr(v & 0xFF)
        if isinstance(v, list):
            return cur + "".join(chr(x & 0xFF) for x in v)
        return cur + v


def as_text(v):
    if isinstance(v, list):
        return "".join(chr(x & 0xFF) for x in v)
    if isinstance(v, int):
        return chr(v & 0xFF)
    return v or ""
