"""Build and cache the facts the rules consume.

  compile database  <- cmake -G Ninja in a scratch dir + ninja -t compdb
  AST/CFG facts     <- /verif/bin/bt-facts per unit, per configuration
  LLVM IR           <- clang -O0 -emit-llvm per unit, llvm-link per program

Everything is keyed by a content hash of /repo's working tree, so an edit to
any source file yields a fresh analysis.  Nothing is kept under /tmp.
"""
import fcntl
import hashlib
import json
import os
import shlex
import shutil
import subprocess
import sys
import tempfile
from concurrent.futures import ThreadPoolExecutor

VERIF = os.path.dirname(os.path.dirname(os.path.abspath(__file__)))
REPO = os.environ.get("BTV_REPO", "/repo")
CACHE = os.path.join(VERIF, ".cache")
BTFACTS = os.path.join(VERIF, "bin", "bt-facts")
NJOBS = int(os.environ.get("BTV_JOBS", "16"))


class AnalysisBroken(Exception):
    """The analysis could not be carried out (exit 2): never a pass, never a
    violation."""


def _iter_repo_files(root):
    for d, dirs, files in os.walk(root):
        dirs[:] = sorted(x for x in dirs if x not in (".git", "_build"))
        for f in sorted(files):
            yield os.path.join(d, f)


def source_hash(root=None):
    root = root or REPO
    h = hashlib.sha256()
    for p in _iter_repo_files(root):
        try:
            with open(p, "rb") as fh:
                data = fh.read()
        except OSError:
            continue
        h.update(os.path.relpath(p, root).encode())
        h.update(b"\0")
        h.update(hashlib.sha256(data).digest())
    for tool in (BTFACTS,):
        try:
            st = os.stat(tool)
            h.update(("%s:%d:%d" % (tool, st.st_size, int(st.st_mtime))).encode())
        except OSError:
            pass
    h.update(root.encode())
    return h.hexdigest()[:24]


def _run(cmd, **kw):
    return subprocess.run(cmd, stdout=subprocess.PIPE, stderr=subprocess.PIPE, **kw)


def make_compdb(root):
    """Return the de-duplicated compile database of `root` as a list of
    {file, args, target}; the scratch build directory is removed at once."""
    scratch = tempfile.mkdtemp(prefix="btv-cdb-", dir=CACHE)
    try:
        r = _run(["cmake", "-S", root, "-B", scratch, "-G", "Ninja",
                  "-DCMAKE_BUILD_TYPE=RelWithDebInfo"])
        if r.returncode != 0:
            raise AnalysisBroken("cmake failed: " + r.stderr.decode(errors="replace")[-2000:])
        r = _run(["ninja", "-C", scratch, "-t", "compdb"])
        if r.returncode != 0:
            raise AnalysisBroken("ninja -t compdb failed: " + r.stderr.decode(errors="replace")[-2000:])
        db = json.loads(r.stdout.decode())
    finally:
        shutil.rmtree(scratch, ignore_errors=True)
    out, seen = [], set()
    for e in db:
        f = e["file"]
        if not f.endswith((".c", ".cc", ".cpp", ".cxx")):
            continue
        if not os.path.abspath(f).startswith(os.path.abspath(root) + "/"):
            continue
        args = shlex.split(e["command"])
        target = ""
        for i, a in enumerate(args):
            if a == "-o" and i + 1 < len(args):
                target = args[i + 1].split("/CMakeFiles/")[-1].split(".dir/")[0]
        key = (f, target)
        if key in seen:
            continue
        seen.add(key)
        keep = []
        skip = 0
        for i, a in enumerate(args[1:]):
            if skip:
                skip -= 1
                continue
            if a in ("-o", "-MT", "-MF"):
                skip = 1
                continue
            if a in ("-MD", "-c", "-g") or a == f:
                continue
            if a.startswith("-O"):
                continue
            keep.append(a)
        out.append({"file": f, "args": keep, "target": target,
                    "lang": "c" if f.endswith(".c") else "c++"})
    return out


PRODUCT_TARGETS = {
    "dfs": ("dfs", "dfslib", "dfsbase"),
    "basic": ("bbcbasic_to_text", "decoder"),
}


def unit_flags(entry, cfg):
    """Flags for the analysis front end.  cfgN = as pinned (-DNDEBUG);
    cfgA = assertions enabled (the documented default cmake build)."""
    args = [a for a in entry["args"] if a not in ("-DNDEBUG", "-UNDEBUG")]
    if cfg == "N":
        args.append("-DNDEBUG")
    else:
        args.append("-UNDEBUG")
    if entry["lang"] == "c++":
        if not any(a.startswith("-std=") for a in args):
            args.append("-std=gnu++17")
        drv = "clang++"
    else:
        if not any(a.startswith("-std=") for a in args):
            args.append("-std=gnu17")
        drv = "clang"
    args = [a for a in args if not a.startswith("-W")]
    return drv, args + ["-w"]


def _facts_one(entry, cfg, outdir, root):
    drv, flags = unit_flags(entry, cfg)
    rel = os.path.relpath(entry["file"], root).replace("/", "__")
    out = os.path.join(outdir, "%s@%s.json" % (rel, entry["target"]))
    cmd = [BTFACTS, "--root=" + root, "-o", out, entry["file"], "--", drv] + flags + ["-c", entry["file"]]
    r = _run(cmd, cwd=outdir)
    ok = r.returncode == 0 and os.path.exists(out)
    return entry, out, ok, r.stderr.decode(errors="replace")


def _ir_one(entry, outdir, root):
    drv, flags = unit_flags(entry, "N")
    rel = os.path.relpath(entry["file"], root).replace("/", "__")
    out = os.path.join(outdir, "%s@%s.bc" % (rel, entry["target"]))
    cmd = [drv] + flags + ["-O0", "-Xclang", "-disable-O0-optnone", "-g0", "-emit-llvm", "-c",
                           entry["file"], "-o", out]
    r = _run(cmd, cwd=outdir)
    return entry, out, r.returncode == 0, r.stderr.decode(errors="replace")


def ensure(root=None, want_ir=False, cfgs=("N", "A")):
    """Make sure facts for the current tree exist; return the cache dir."""
    root = root or REPO
    os.makedirs(CACHE, exist_ok=True)
    if not os.path.exists(BTFACTS):
        raise AnalysisBroken("bin/bt-facts missing: run ./setup.sh")
    h = source_hash(root)
    d = os.path.join(CACHE, h)
    lockp = os.path.join(CACHE, h + ".lock")
    with open(lockp, "w") as lk:
        fcntl.flock(lk, fcntl.LOCK_EX)
        try:
            _prune_cache(keep=h)
            os.makedirs(d, exist_ok=True)
            os.utime(d, None)
            cdbp = os.path.join(d, "compdb.json")
            if not os.path.exists(cdbp):
                db = make_compdb(root)
                with open(cdbp + ".tmp", "w") as fh:
                    json.dump(db, fh)
                os.rename(cdbp + ".tmp", cdbp)
            db = json.load(open(cdbp))
            for cfg in cfgs:
                stamp = os.path.join(d, "facts-%s.ok" % cfg)
                if os.path.exists(stamp):
                    continue
                outdir = os.path.join(d, "facts-" + cfg)
                os.makedirs(outdir, exist_ok=True)
                index = []
                with ThreadPoolExecutor(NJOBS) as ex:
                    for entry, out, ok, err in ex.map(lambda e: _facts_one(e, cfg, outdir, root), db):
                        if not ok:
                            raise AnalysisBroken("bt-facts failed on %s (%s): %s" % (entry["file"], cfg, err[-3000:]))
                        index.append({"file": entry["file"], "target": entry["target"], "facts": out})
                with open(os.path.join(outdir, "index.json"), "w") as fh:
                    json.dump(index, fh)
                open(stamp, "w").close()
            if want_ir:
                stamp = os.path.join(d, "ir.ok")
                if not os.path.exists(stamp):
                    _build_ir(db, d, root)
                    open(stamp, "w").close()
        finally:
            fcntl.flock(lk, fcntl.LOCK_UN)
    return d


def _prune_cache(keep):
    """Keep disk use bounded: drop cache entries of other trees that have not
    been used for half an hour (never one that may be in use by a concurrent run),
    and always keep the 40 most recent."""
    import time
    try:
        ents = [e for e in os.listdir(CACHE)
                if os.path.isdir(os.path.join(CACHE, e)) and e != keep and not e.startswith(("btv-", "replay-"))]
    except OSError:
        return
    now = time.time()

    def mtime(e):
        # a concurrent run may remove an entry between listdir and here
        try:
            return os.path.getmtime(os.path.join(CACHE, e))
        except OSError:
            return 0.0
    ents.sort(key=mtime, reverse=True)
    for e in ents[40:]:
        pth = os.path.join(CACHE, e)
        try:
            if now - os.path.getmtime(pth) < 1800:
                continue
        except OSError:
            continue
        shutil.rmtree(pth, ignore_errors=True)
        try:
            os.unlink(os.path.join(CACHE, e + ".lock"))
        except OSError:
            pass


def _build_ir(db, d, root):
    outdir = os.path.join(d, "ir")
    os.makedirs(outdir, exist_ok=True)
    prod = [e for e in db if any(e["target"] in ts for ts in PRODUCT_TARGETS.values())]
    outs = {}
    with ThreadPoolExecutor(NJOBS) as ex:
        for entry, out, ok, err in ex.map(lambda e: _ir_one(e, outdir, root), prod):
            if not ok:
                raise AnalysisBroken("IR build failed on %s: %s" % (entry["file"], err[-3000:]))
            outs[(entry["file"], entry["target"])] = out
    for prog, targets in PRODUCT_TARGETS.items():
        bcs = [o for (f, t), o in sorted(outs.items()) if t in targets]
        linked = os.path.join(outdir, prog + ".linked.bc")
        r = _run(["llvm-link-14", "-o", linked] + bcs)
        if r.returncode != 0:
            raise AnalysisBroken("llvm-link failed for %s: %s" % (prog, r.stderr.decode()[-2000:]))
        opt = os.path.join(outdir, prog + ".attrs.ll")
        r = _run(["opt-14", "-internalize-public-api-list=main",
                  "-passes=internalize,cgscc(function-attrs)", "-S", "-o", opt, linked])
        if r.returncode != 0:
            raise AnalysisBroken("opt failed for %s: %s" % (prog, r.stderr.decode()[-2000:]))
        r = _run(["llvm-nm-14", "--undefined-only", linked])
        if r.returncode != 0:
            raise AnalysisBroken("llvm-nm failed for %s" % prog)
        syms = sorted(set(l.split()[-1] for l in r.stdout.decode().splitlines() if l.strip()))
        with open(os.path.join(outdir, prog + ".undef.json"), "w") as fh:
            json.dump(syms, fh)
    for o in outs.values():
        try:
            os.unlink(o)
        except OSError:
            pass


def analyse_sources(files, lang_flags=None, cfg="N", root=None):
    """Run bt-facts on stand-alone fixture files (list of paths); returns the
    list of parsed unit documents.  Used by the rule self-tests."""
    out = []
    os.makedirs(CACHE, exist_ok=True)
    tmpd = tempfile.mkdtemp(prefix="btv-fx-", dir=CACHE)
    try:
        for f in files:
            lang = "c" if f.endswith(".c") else "c++"
            drv = "clang" if lang == "c" else "clang++"
            flags = ["-std=gnu17"] if lang == "c" else ["-std=gnu++17"]
            flags += ["-DNDEBUG"] if cfg == "N" else ["-UNDEBUG"]
            flags += list(lang_flags or []) + ["-w"]
            o = os.path.join(tmpd, os.path.basename(f) + ".json")
            r = _run([BTFACTS, "--root=" + (root or os.path.dirname(os.path.abspath(f))), "-o", o, f, "--", drv]
                     + flags + ["-c", f], cwd=tmpd)
            if r.returncode != 0 or not os.path.exists(o):
                raise AnalysisBroken("fixture %s did not parse: %s" % (f, r.stderr.decode()[-2000:]))
            out.append(json.load(open(o)))
    finally:
        shutil.rmtree(tmpd, ignore_errors=True)
    return out
