"""Shared helpers for the field-provenance rules (C01, C02, C03, C13)."""
from .bits import BV, Evaluator, Unsupported, bconst, bvar, bshow, TOP, is_const
from .model import strip, strip_all, walk, show, notpl, is_call, call_args
from .facts import AnalysisBroken

# name fragments of the input arrays -> short symbolic name
INPUT_ARRAYS = {
    "raw_metadata_": "meta", "raw_name_": "name",
    "metadata": "s1", "names": "s0", "s0": "s0", "s1": "s1", "buf1": "s1", "sec1": "s1",
}


def catalog_input_hook(base, index, width):
    """Subscripts of the catalogue sector buffers / entry arrays become
    symbolic input bytes  <array>[index]."""
    if base is None:
        return None
    nm = base.get("n")
    if nm in INPUT_ARRAYS:
        return BV.var("%s[%d]" % (INPUT_ARRAYS[nm], index), 8).resize(width)
    return None


def byte_bits(arr, idx, lo=0, hi=7):
    return ["%s[%d].%d" % (arr, idx, b) for b in range(lo, hi + 1)]


def expected_bv(spec, width):
    """spec: list of variable names (or 0/1) from bit 0 upwards; padded with 0."""
    bits = []
    for s in spec:
        if s in (0, 1):
            bits.append(bconst(s))
        else:
            bits.append(bvar(s))
    while len(bits) < width:
        bits.append(bconst(0))
    return BV(bits[:width])


def compare(got, want):
    """List of human-readable mismatches between two BVs."""
    out = []
    for i in range(max(got.width, want.width)):
        g = got.bits[i] if i < got.width else bconst(0)
        w = want.bits[i] if i < want.width else bconst(0)
        if g != w:
            out.append("bit %d is %s, should be %s" % (i, bshow(g), bshow(w)))
    return out


def eval_prefix(ev, fn, args=None, env=None):
    """Execute the leading declaration/assignment statements of fn's body,
    stopping at the first statement the domain cannot interpret.  Returns the
    environment (decl id -> BV) of the single path, or raises if it forks."""
    env = dict(env or {})
    if args is not None:
        for p, a in zip(fn.params, args):
            env[p["d"]] = a
    paths = [({}, env, None)]
    for st in fn.body.get("c", []):
        if st.get("k") not in ("DeclStmt",) and not (st.get("k") in ("BinaryOperator", "CompoundAssignOperator")):
            # stop at the first statement that is not a declaration / plain assignment
            s0 = st
            while s0 is not None and s0.get("k") in ("ExprWithCleanups", "ImplicitCastExpr", "ParenExpr") and s0.get("c"):
                s0 = s0["c"][0]
            if s0 is None or s0.get("k") not in ("BinaryOperator", "CompoundAssignOperator", "CXXOperatorCallExpr"):
                break
        try:
            new = []
            for assume, e, ret in paths:
                new.extend(ev._stmt(fn, st, assume, e, 0))
            paths = new
        except Unsupported:
            break
    if len(paths) != 1:
        raise AnalysisBroken("%s: unexpected fork while evaluating the prefix" % fn.qn)
    return paths[0][1]
