"""Check driver: runs a property's rules, applies the known-findings file,
writes evidence, prints VIOLATION / KNOWN-FINDING lines, sets the exit status.

exit 0  every rule instance holds or is a listed known finding
exit 1  at least one unlisted violation (VIOLATION line per violation)
exit 2  analysis broken (anchor vanished, unit did not parse, floor not met,
        fixture self-test failed) - never a pass and never a violation
"""
import importlib
import json
import os
import sys
import time
import traceback

from . import facts
from .facts import AnalysisBroken, VERIF
from .model import Program

KNOWN = os.path.join(VERIF, "known_findings.txt")
EVID = os.path.join(VERIF, "evidence")
FIXT = os.path.join(VERIF, "fixtures")


class Instance:
    __slots__ = ("key", "loc", "ok", "detail", "nontrivial", "path")

    def __init__(self, key, loc, ok, detail="", nontrivial=True, path=None):
        self.key = key          # stable: file::function::thing (never a bare line number)
        self.loc = loc          # file:line, for the reader
        self.ok = ok
        self.detail = detail
        self.nontrivial = nontrivial
        self.path = path or []

    def as_dict(self):
        d = {"key": self.key, "loc": self.loc, "ok": self.ok, "detail": self.detail}
        if self.path:
            d["path"] = self.path
        return d


class RuleResult:
    def __init__(self, rule, text, floor=1):
        self.rule = rule
        self.text = text
        self.floor = floor
        self.instances = []
        self.info = {}
        self.anchors = []   # substrings; each must occur in at least one instance key
        self.undecided = []  # reasons why (part of) the rule could not be decided on this tree

    def add(self, key, loc, ok, detail="", nontrivial=True, path=None):
        self.instances.append(Instance(key, loc, ok, detail, nontrivial, path))

    def violations(self):
        return [i for i in self.instances if not i.ok]


class Ctx:
    def __init__(self, tier, root=None):
        self.tier = tier
        self.root = root
        self._progs = {}
        self.notes = []

    def prog(self, which, cfg="N", want_ir=False):
        k = (which, cfg)
        if k not in self._progs:
            self._progs[k] = Program(which, cfg, root=self.root, want_ir=want_ir)
        return self._progs[k]

    def cache_dir(self, want_ir=False):
        return facts.ensure(root=self.root, want_ir=want_ir)

    def fixture(self, *names, cfg="N"):
        paths = [os.path.join(FIXT, n) for n in names]
        for p in paths:
            if not os.path.exists(p):
                raise AnalysisBroken("fixture missing: " + p)
        units = facts.analyse_sources(paths, cfg=cfg, root=FIXT)
        return Program("fixture", cfg, units=units)


def load_known():
    known, fixed = [], []
    if not os.path.exists(KNOWN):
        return known, fixed
    for line in open(KNOWN):
        line = line.strip()
        if not line or line.startswith("#"):
            continue
        if line.startswith("known:"):
            # known: property=<id> rule=<rule> key=<key> <what>   - a key containing blanks is written key="<key>"
            import re
            m = re.match(r'\s*property=(\S+)\s+rule=(\S+)\s+key=(?:"([^"]*)"|(\S+))\s*(.*)$', line[len("known:"):])
            if not m:
                raise AnalysisBroken("known_findings.txt: cannot parse %r" % line[:80])
            known.append({"property": m.group(1), "rule": m.group(2),
                          "key": m.group(3) if m.group(3) is not None else m.group(4), "what": m.group(5)})
        elif line.startswith("fixed:"):
            fixed.append(line)
    return known, fixed


def selftest(ctx, prop_mod):
    """Run the module's fixture expectations.  Each entry: (rule function,
    bad fixture files, good fixture files, expected key substring)."""
    results = []
    for st in getattr(prop_mod, "SELFTESTS", []):
        fn, bad, good, expect = st[:4]
        cfg = st[4] if len(st) > 4 else "N"
        pb = ctx.fixture(*bad, cfg=cfg)
        rb = fn(pb, fixture=True)
        vb = [i for i in rb.violations() if expect in i.key or expect in i.detail]
        if not vb:
            raise AnalysisBroken("self-test: rule %s did not fire on %s (expected %r); got %r" %
                                 (rb.rule, bad, expect, [(i.key, i.detail) for i in rb.violations()]))
        pg = ctx.fixture(*good, cfg=cfg)
        rg = fn(pg, fixture=True)
        if rg.violations():
            raise AnalysisBroken("self-test: rule %s fired on the clean fixture %s: %r" %
                                 (rg.rule, good, [(i.key, i.detail) for i in rg.violations()]))
        if not rg.instances:
            raise AnalysisBroken("self-test: rule %s matched nothing on clean fixture %s" % (rg.rule, good))
        results.append({"rule": rb.rule, "bad": list(bad), "good": list(good),
                        "fired_on_bad": [i.key for i in vb], "silent_on_good": True})
    return results


def run_property(pid, tier="quick", replay=None, root=None, write_evidence=True):
    t0 = time.time()
    seed = int(os.environ.get("VERIF_SEED", "0") or 0)
    mod = importlib.import_module("btv.props." + pid.lower())
    ctx = Ctx(tier, root=root)
    status = 0
    out_lines = []
    try:
        st = selftest(ctx, mod)
        results = mod.run(ctx)
        for r in results:
            # a rule that no longer finds the sites confirmed by hand is neither a pass nor an alarm: it is
            # reported as undecided (exit 2 unless another rule reports a violation, which is still shown)
            if len(r.instances) + len(r.undecided) < r.floor:
                r.undecided.append("matched %d instances, below the confirmed floor %d (anchor code has changed shape)" %
                                   (len(r.instances), r.floor))
            for a in r.anchors:
                if not any(a in i.key for i in r.instances):
                    r.undecided.append("confirmed anchor instance %r no longer matched" % a)
    except AnalysisBroken as e:
        print("ANALYSIS-BROKEN property=%s: %s" % (pid, e))
        return 2
    except Exception:
        traceback.print_exc()
        print("ANALYSIS-BROKEN property=%s: internal error" % pid)
        return 2

    seeded_out = []
    refactor_out = []
    if tier == "thorough" and not replay and root is None:
        try:
            seeded_out = replay_seeded(pid, mod)
            refactor_out = replay_refactors(pid)
        except AnalysisBroken as e:
            print("ANALYSIS-BROKEN property=%s: %s" % (pid, e))
            return 2
    known, _fixed = load_known()
    nviol = 0
    # replay records of a run against another tree (--root: mutant/refactor evaluation) stay out of evidence/
    replay_dir = os.path.join(EVID, "replay") if root is None else os.path.join(facts.CACHE, "replay-other-root")
    os.makedirs(replay_dir, exist_ok=True)
    rules_out = []
    total = nontriv = 0
    samples = []
    kf_lines = []
    for r in results:
        total += len(r.instances)
        nontriv += len(set(i.key for i in r.instances if i.nontrivial))
        ro = {"rule": r.rule, "text": r.text, "instances": len(r.instances), "floor": r.floor,
              "violations": []}
        ro.update(r.info)
        if r.undecided:
            ro["undecided"] = list(r.undecided)
        for i in r.instances[:3]:
            samples.append(dict(i.as_dict(), rule=r.rule))
        for v in r.violations():
            if replay and not _replay_match(replay, r.rule, v.key):
                continue
            kf = [k for k in known if k.get("property") == pid and k.get("rule") == r.rule and k.get("key") == v.key]
            if not kf and os.environ.get("BTV_KNOWN_BY_RULE") and root is not None:
                # rewrite replay only: a rewrite may rename the function or variable a finding is keyed by
                kf = [k for k in known if k.get("property") == pid and k.get("rule") == r.rule]
            if kf:
                kf_lines.append("KNOWN-FINDING: property=%s %s %s %s" % (pid, r.rule, v.key, kf[0]["what"] or v.detail))
                ro["violations"].append(dict(v.as_dict(), known_finding=True))
                continue
            nviol += 1
            rp = os.path.join(replay_dir, "%s-%d.json" % (pid, nviol))
            with open(rp, "w") as fh:
                json.dump({"property": pid, "rule": r.rule, "rule_text": r.text, "key": v.key,
                           "loc": v.loc, "detail": v.detail, "path": v.path}, fh, indent=1)
            out_lines.append("VIOLATION property=%s replay=%s" % (pid, rp))
            out_lines.append("  %s %s: %s  [%s]" % (r.rule, v.loc, v.detail, v.key))
            ro["violations"].append(v.as_dict())
            samples.append(dict(v.as_dict(), rule=r.rule))
        rules_out.append(ro)
    for l in kf_lines:
        print(l)
    for l in out_lines:
        print(l)
    undecided = [(r.rule, u) for r in results for u in r.undecided]
    for rule, u in undecided:
        print("UNDECIDED property=%s %s: %s" % (pid, rule, u))
    # a violation is reported even when another rule could not be decided; with no
    # violation, an undecided rule makes the run analysis-broken (never a pass)
    status = 1 if nviol else (2 if undecided else 0)
    if write_evidence and not replay:
        ev = {
            "property_id": pid,
            "tier": tier,
            "seed": seed,
            "level": "other",
            "coverage": {
                "explanation": getattr(mod, "EXPLANATION", ""),
                "rule": "static rules over every product translation unit; an instance is one site "
                        "(call, guard, throw, table row, output bit ...) where a rule's premise matched; "
                        "non-trivial = distinct instance keys flagged as exercising the rule's premise",
                "evaluations": total,
                "distinct_nontrivial": nontriv,
                "obligations": total,
                "discharged": total - sum(len(r.violations()) for r in results),
                "exhaustive": True,
                "rules": rules_out,
                "selftests": st,
                "seeded_changes": seeded_out,
                "behaviour_preserving_rewrites": refactor_out,
                "samples": samples[:40],
                "units": sorted(set(getattr(ctx, "units_seen", []))) or _units(ctx),
                "notes": ctx.notes,
            },
            "assumptions": getattr(mod, "ASSUMPTIONS", []),
            "wall_s": round(time.time() - t0, 2),
            "violations": nviol,
        }
        os.makedirs(EVID, exist_ok=True)
        with open(os.path.join(EVID, pid + ".json"), "w") as fh:
            json.dump(ev, fh, indent=1)
    summary = "property=%s tier=%s rules=%d instances=%d violations=%d known=%d wall=%.1fs" % (
        pid, tier, len(results), total, nviol, len(kf_lines), time.time() - t0)
    print(("FAIL " if nviol else ("ANALYSIS-BROKEN " if status == 2 else "OK ")) + summary)
    return status


def replay_seeded(pid, mod):
    """Thorough tier: apply every seeded change that is recorded as detected by this
    property to a scratch copy of /repo's sources and require the rules to report it."""
    import shutil
    import subprocess
    import tempfile
    sdir = os.path.join(VERIF, "seeded")
    out = []
    if not os.path.isdir(sdir):
        return out
    for sid in sorted(os.listdir(sdir)):
        mp = os.path.join(sdir, sid, "meta.json")
        if not os.path.exists(mp):
            continue
        meta = json.load(open(mp))
        if pid not in (meta.get("detected_by") or {}):
            continue
        scratch = tempfile.mkdtemp(prefix="btv-seed-", dir=facts.CACHE)
        try:
            subprocess.run(["rsync", "-a", "--exclude", ".git", "--exclude", "_build", facts.REPO + "/", scratch + "/"], check=True)
            pr = subprocess.run(["patch", "-p1", "-s", "-d", scratch, "-i", os.path.join(sdir, sid, "patch.diff")],
                                stdout=subprocess.PIPE, stderr=subprocess.STDOUT)
            if pr.returncode != 0:
                out.append({"id": sid, "status": "skipped: patch no longer applies"})
                continue
            saved = facts.REPO
            facts.REPO = scratch
            try:
                ctx2 = Ctx("quick", root=scratch)
                res = mod.run(ctx2)
            finally:
                facts.REPO = saved
            viol = [(r.rule, v.key) for r in res for v in r.violations()]
            out.append({"id": sid, "status": "detected" if viol else "NOT DETECTED", "reports": [list(v) for v in viol[:3]]})
            if not viol:
                raise AnalysisBroken("seeded change %s, recorded as detected by %s, is no longer reported" % (sid, pid))
        finally:
            shutil.rmtree(scratch, ignore_errors=True)
    return out


def replay_refactors(pid):
    """Thorough tier: the behaviour-preserving rewrites under refactors/ (written by
    independent sub-agents, each suite-clean) are applied one at a time to a scratch
    copy of /repo's sources; the property's rules must not report a violation on any
    of them.  An alarm there is a defect of the checker (analysis broken), never a
    finding about /repo.  A rewrite the rules cannot follow (undecided) is recorded."""
    import shutil
    import subprocess
    import tempfile
    from concurrent.futures import ThreadPoolExecutor
    rdir = os.path.join(VERIF, "refactors")
    if not os.path.isdir(rdir):
        return []
    ids = sorted(d for d in os.listdir(rdir) if os.path.exists(os.path.join(rdir, d, "patch.diff")))

    def one(rid):
        scratch = tempfile.mkdtemp(prefix="btv-refac-", dir=facts.CACHE)
        try:
            subprocess.run(["rsync", "-a", "--exclude", ".git", "--exclude", "_build", facts.REPO + "/", scratch + "/"], check=True)
            pr = subprocess.run(["patch", "-p1", "-s", "-d", scratch, "-i", os.path.join(rdir, rid, "patch.diff")],
                                stdout=subprocess.PIPE, stderr=subprocess.STDOUT)
            if pr.returncode != 0:
                return {"id": rid, "status": "skipped: patch no longer applies"}
            p = subprocess.run([sys.executable, "-c", "import sys; from btv.runner import main; sys.exit(main())",
                                pid, "--root", scratch, "--tier", "quick"], cwd=VERIF,
                               env=dict(os.environ, BTV_KNOWN_BY_RULE="1"),
                               stdout=subprocess.PIPE, stderr=subprocess.STDOUT)
            lines = [l.strip() for l in p.stdout.decode(errors="replace").splitlines()
                     if l.startswith(("  R-", "ANALYSIS", "UNDECIDED"))]
            st = {0: "silent", 1: "FALSE ALARM", 2: "undecided"}.get(p.returncode, "error")
            return {"id": rid, "status": st, "reports": lines[:2]} if p.returncode else {"id": rid, "status": st}
        finally:
            shutil.rmtree(scratch, ignore_errors=True)
    with ThreadPoolExecutor(8) as ex:
        out = list(ex.map(one, ids))
    bad = [o for o in out if o["status"] in ("FALSE ALARM", "error")]
    if bad:
        raise AnalysisBroken("the rules of %s report a violation on behaviour-preserving rewrite(s) %s: %s" %
                             (pid, ", ".join(o["id"] for o in bad), (bad[0].get("reports") or [""])[0][:200]))
    return out


def _units(ctx):
    out = {}
    for (which, cfg), p in ctx._progs.items():
        out["%s/%s" % (which, cfg)] = {"units": len(p.units), "functions": len(p.functions)}
    return out


def _replay_match(path, rule, key):
    try:
        d = json.load(open(path))
    except Exception:
        return False
    return d.get("rule") == rule and d.get("key") == key


def main(argv=None):
    argv = list(sys.argv[1:] if argv is None else argv)
    if not argv:
        print("usage: check <property-id> [--tier quick|thorough] [--replay <path>] [--root <repo>]")
        return 2
    pid = argv[0].upper()
    tier = os.environ.get("VERIF_TIER", "quick")
    replay = None
    root = None
    i = 1
    while i < len(argv):
        if argv[i] == "--tier":
            tier = argv[i + 1]
            i += 2
        elif argv[i] == "--replay":
            replay = argv[i + 1]
            i += 2
        elif argv[i] == "--root":
            root = argv[i + 1]
            facts.REPO = root
            i += 2
        else:
            i += 1
    if tier not in ("quick", "thorough"):
        tier = "quick"
    return run_property(pid, tier, replay, root=root, write_evidence=(root is None))
